(* Driver for the extracted models: a line protocol over stdin/stdout.
   request line :  <sx>
   oracle query :  ?<sx>     (driver -> harness; the harness answers with one <sx> line)
   result line  :  =<sx>
   sx text: atom = 'a' followed by comma-separated decimal code points ("a" = empty string),
            list = '(' items separated by blanks ')'. *)
module M = Model

let rec pos_of_int (i : int) : M.positive =
  if i = 1 then M.XH else if i land 1 = 0 then M.XO (pos_of_int (i lsr 1)) else M.XI (pos_of_int (i lsr 1))
let n_of_int (i : int) : M.n = if i = 0 then M.N0 else M.Npos (pos_of_int i)
let rec int_of_pos (p : M.positive) : int =
  match p with M.XH -> 1 | M.XO q -> 2 * int_of_pos q | M.XI q -> 2 * int_of_pos q + 1
let int_of_n (x : M.n) : int = match x with M.N0 -> 0 | M.Npos p -> int_of_pos p

exception Bad of string

let parse_sx (s : string)   : M.sx =
  let len = String.length s in
  let pos = ref 0 in
  let skip () = while !pos < len && (s.[!pos] = ' ' || s.[!pos] = '\n' || s.[!pos] = '\r') do incr pos done in
  let rec item ()   : M.sx =
    skip ();
    if !pos >= len then raise (Bad "eof");
    match s.[!pos] with
    | '(' ->
        incr pos;
        let acc = ref [] in
        let fin = ref false in
        while not !fin do
          skip ();
          if !pos >= len then raise (Bad "unclosed");
          if s.[!pos] = ')' then (incr pos; fin := true) else acc := item () :: !acc
        done;
        M.L (List.rev !acc)
    | 'a' ->
        incr pos;
        let acc = ref [] in
        let cur = ref (-1) in
        let go = ref true in
        while !go && !pos < len do
          let c = s.[!pos] in
          if c >= '0' && c <= '9' then begin
            cur := (if !cur < 0 then 0 else !cur) * 10 + (Char.code c - 48); incr pos end
          else if c = ',' then begin acc := n_of_int !cur :: !acc; cur := -1; incr pos end
          else go := false
        done;
        if !cur >= 0 then acc := n_of_int !cur :: !acc;
        M.A (List.rev !acc)
    | c -> raise (Bad (Printf.sprintf "unexpected %c at %d" c !pos))
  in
  item ()

let rec print_sx (b : Buffer.t) (x   : M.sx) : unit =
  match x with
  | M.A l ->
      Buffer.add_char b 'a';
      List.iteri (fun i c -> if i > 0 then Buffer.add_char b ','; Buffer.add_string b (string_of_int (int_of_n c))) l
  | M.L l ->
      Buffer.add_char b '(';
      List.iteri (fun i y -> if i > 0 then Buffer.add_char b ' '; print_sx b y) l;
      Buffer.add_char b ')'

let sx_to_string x = let b = Buffer.create 256 in print_sx b x; Buffer.contents b

let oracle (qy   : M.sx)   : M.sx =
  print_char '?'; print_string (sx_to_string qy); print_newline ();
  match input_line stdin with
  | line -> parse_sx line
  | exception End_of_file -> raise (Bad "eof in oracle")

let () =
  try
    while true do
      let line = input_line stdin in
      if String.length line > 0 then begin
        let res =
          try sx_to_string (M.run oracle (parse_sx line))
          with Bad m -> "!" ^ m | Stack_overflow -> "!stack-overflow"
        in
        (if String.length res > 0 && res.[0] = '!' then print_string res else (print_char '='; print_string res));
        print_newline ()
      end
    done
  with End_of_file -> ()
