#!/bin/bash
# seed_batch.sh -j N  id:check [id:check ...]  : evaluate several fresh seeds (worktrees under /tmp/seed) in parallel
J=3; [ "$1" = "-j" ] && { J=$2; shift 2; }
printf '%s\n' "$@" | xargs -P $J -I{} bash -c 's={}; id=${s%%:*}; p=${s##*:}; bash /verif/tools/seed_eval.sh $id $p > /tmp/seed/$id.eval 2>&1; echo "### $id | suite: $(grep -A1 "suite with" /tmp/seed/$id.eval | tail -1 | grep -o "[0-9]* failed, [0-9]* passed") | demo with/without: $(grep -A1 "demo with change" /tmp/seed/$id.eval | tail -1) $(grep -A1 "demo on unchanged" /tmp/seed/$id.eval | tail -1) | $(tail -1 /tmp/seed/$id.eval | cut -c1-140)"'
