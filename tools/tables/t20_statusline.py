"""Constants of dippy_statusline.py used by coq/Model/Statusline.v (property C20):
cache naming (directory name, session-id sanitisation, suffixes), TTLs and their comparison
operators, the colour palette and the element styles.  Everything is read from the AST; a
function that no longer has the expected syntactic shape breaks the tie."""
import ast

from gen_tables import *  # noqa: F401,F403


def _const(node, typ, what):
    if not (isinstance(node, ast.Constant) and isinstance(node.value, typ) and not isinstance(node.value, bool)):
        raise TieBroken(f"{what}: expected a {typ.__name__} constant")
    return node.value


def _one(nodes, what):
    nodes = list(nodes)
    if len(nodes) != 1:
        raise TieBroken(f"{what}: expected exactly one occurrence, found {len(nodes)}")
    return nodes[0]


def _calls(fn, attr):
    return [n for n in ast.walk(fn) if isinstance(n, ast.Call) and isinstance(n.func, ast.Attribute) and n.func.attr == attr]


def _nat(name, v, comment):
    return f"(* {comment} *)\nDefinition {name} : N := {v}.\n"


def _str(name, s, comment):
    return f"(* {comment} *)\nDefinition {name} : str := {coq_str(s)}.\n"


def _bool(name, b, comment):
    return f"(* {comment} *)\nDefinition {name} : bool := {'true' if b else 'false'}.\n"


def _cmp_with(fn, const_name, what):
    """The unique comparison `<x> OP CONST` in fn; returns the operator class."""
    hits = [n for n in ast.walk(fn) if isinstance(n, ast.Compare) and len(n.ops) == 1
            and isinstance(n.comparators[0], ast.Name) and n.comparators[0].id == const_name]
    return type(_one(hits, what).ops[0])


def build():
    out = []
    sl = load("dippy_statusline.py")

    # --- CACHE_DIR = os.path.join(os.environ.get("XDG_CACHE_HOME", os.path.expanduser("~/.cache")), "claude-statusline")
    cd = module_assign(sl, "CACHE_DIR")
    if not (isinstance(cd, ast.Call) and ast.unparse(cd.func) == "os.path.join" and len(cd.args) == 2):
        raise TieBroken("CACHE_DIR: not os.path.join(<base>, <name>)")
    envget = cd.args[0]
    if not (isinstance(envget, ast.Call) and ast.unparse(envget.func) == "os.environ.get" and len(envget.args) == 2):
        raise TieBroken("CACHE_DIR: base is not os.environ.get(NAME, default)")
    dflt = envget.args[1]
    if not (isinstance(dflt, ast.Call) and ast.unparse(dflt.func) == "os.path.expanduser" and len(dflt.args) == 1):
        raise TieBroken("CACHE_DIR: default is not os.path.expanduser(<const>)")
    out.append(_str("SL_CACHE_ENV", _const(envget.args[0], str, "CACHE_DIR env name"), "environment variable naming the cache base"))
    out.append(_str("SL_CACHE_BASE_DEFAULT", _const(dflt.args[0], str, "CACHE_DIR default"), "default cache base (before expanduser)"))
    out.append(_str("SL_CACHE_DIR_NAME", _const(cd.args[1], str, "CACHE_DIR name"), "last component of CACHE_DIR"))

    out.append(_nat("SL_CACHE_TTL", _const(module_assign(sl, "CACHE_TTL"), int, "CACHE_TTL"), "CACHE_TTL (seconds)"))
    out.append(_nat("SL_MCP_CACHE_TTL", _const(module_assign(sl, "MCP_CACHE_TTL"), int, "MCP_CACHE_TTL"), "MCP_CACHE_TTL (seconds)"))

    # --- get_cache_path: safe_id = sid.replace(A, B) if sid else DEFAULT ; join(CACHE_DIR, f"{safe_id}SUFFIX")
    gcp = func(sl, "get_cache_path")
    rep = _one(_calls(gcp, "replace"), "get_cache_path: .replace call")
    if len(rep.args) != 2:
        raise TieBroken("get_cache_path: replace arity")
    a, b = (_const(x, str, "get_cache_path: replace argument") for x in rep.args)
    if len(a) != 1 or len(b) != 1:
        raise TieBroken("get_cache_path: the model assumes single-character replace arguments")
    ife = _one([n for n in ast.walk(gcp) if isinstance(n, ast.IfExp)], "get_cache_path: conditional expression")
    if not (ife.body is rep and isinstance(ife.test, ast.Name)):
        raise TieBroken("get_cache_path: expected `<sid>.replace(..) if <sid> else <const>`")
    ret = _one([n for n in ast.walk(gcp) if isinstance(n, ast.Return)], "get_cache_path: return")
    jc = ret.value
    if not (isinstance(jc, ast.Call) and ast.unparse(jc.func) == "os.path.join" and len(jc.args) == 2
            and isinstance(jc.args[0], ast.Name) and jc.args[0].id == "CACHE_DIR" and isinstance(jc.args[1], ast.JoinedStr)):
        raise TieBroken("get_cache_path: return is not os.path.join(CACHE_DIR, f\"{..}<suffix>\")")
    fs = jc.args[1].values
    if not (len(fs) == 2 and isinstance(fs[0], ast.FormattedValue) and isinstance(fs[1], ast.Constant)):
        raise TieBroken("get_cache_path: f-string is not {safe_id}<suffix>")
    out.append(_nat("SL_SID_FROM", ord(a), f"get_cache_path: character replaced in the session id ({a!r})"))
    out.append(_nat("SL_SID_TO", ord(b), f"get_cache_path: its replacement ({b!r})"))
    out.append(_str("SL_SID_DEFAULT", _const(ife.orelse, str, "get_cache_path: default id"), "get_cache_path: id used for a falsy session id"))
    out.append(_str("SL_CACHE_SUFFIX", _const(fs[1], str, "get_cache_path: suffix"), "get_cache_path: file-name suffix"))

    # --- set_cache: tmp = f"{path}INFIX{os.getpid()}", os.rename(tmp, path)
    sc = func(sl, "set_cache")
    tmps = [n.value for n in ast.walk(sc) if isinstance(n, ast.Assign) and isinstance(n.value, ast.JoinedStr)]
    tj = _one(tmps, "set_cache: tmp f-string").values
    if not (len(tj) == 3 and isinstance(tj[0], ast.FormattedValue) and isinstance(tj[1], ast.Constant)
            and isinstance(tj[2], ast.FormattedValue) and ast.unparse(tj[2].value) == "os.getpid()"):
        raise TieBroken("set_cache: tmp is not f\"{path}<infix>{os.getpid()}\"")
    out.append(_str("SL_TMP_INFIX", _const(tj[1], str, "set_cache: infix"), "set_cache: between the cache path and the pid"))
    # order of the protocol inside set_cache: open(tmp,'w') ; write ; (close) ; rename(tmp, path)
    order = []
    for n in ast.walk(sc):
        if isinstance(n, ast.Call):
            f = ast.unparse(n.func)
            if f in ("open", "os.rename", "os.makedirs") or f.endswith(".write"):
                order.append((n.lineno, n.col_offset, "write" if f.endswith(".write") else f))
    order = [x[2] for x in sorted(order)]
    if order != ["os.makedirs", "open", "write", "os.rename"]:
        raise TieBroken(f"set_cache: protocol order is {order}, the model assumes makedirs, open, write, rename")
    op = _one([n for n in ast.walk(sc) if isinstance(n, ast.Call) and ast.unparse(n.func) == "open"], "set_cache: open")
    if not (len(op.args) == 2 and ast.unparse(op.args[0]) == "tmp" and _const(op.args[1], str, "set_cache: open mode") == "w"):
        raise TieBroken("set_cache: expected open(tmp, \"w\")")
    rn = _one([n for n in ast.walk(sc) if isinstance(n, ast.Call) and ast.unparse(n.func) == "os.rename"], "set_cache: rename")
    if [ast.unparse(x) for x in rn.args] != ["tmp", "path"]:
        raise TieBroken("set_cache: expected os.rename(tmp, path)")
    withs = [n for n in ast.walk(sc) if isinstance(n, ast.With)]
    w = _one(withs, "set_cache: with block")
    if not (w.end_lineno < rn.lineno):
        raise TieBroken("set_cache: rename is not after the with block (file closed before rename)")

    # --- MCP_CACHE_PATH = os.path.join(CACHE_DIR, "mcp.cache"); its tmp name in get_mcp_servers
    mp = module_assign(sl, "MCP_CACHE_PATH")
    if not (isinstance(mp, ast.Call) and ast.unparse(mp.func) == "os.path.join" and len(mp.args) == 2
            and isinstance(mp.args[0], ast.Name) and mp.args[0].id == "CACHE_DIR"):
        raise TieBroken("MCP_CACHE_PATH: not os.path.join(CACHE_DIR, <name>)")
    out.append(_str("SL_MCP_CACHE_NAME", _const(mp.args[1], str, "MCP_CACHE_PATH name"), "file name of the MCP server-list cache"))
    gms = func(sl, "get_mcp_servers")
    mt = [n.value for n in ast.walk(gms) if isinstance(n, ast.Assign) and isinstance(n.value, ast.JoinedStr)
          and any(isinstance(t, ast.Name) and t.id == "tmp" for t in n.targets)]
    mj = _one(mt, "get_mcp_servers: tmp f-string").values
    if not (len(mj) == 3 and isinstance(mj[0], ast.FormattedValue) and ast.unparse(mj[0].value) == "MCP_CACHE_PATH"
            and isinstance(mj[1], ast.Constant) and isinstance(mj[2], ast.FormattedValue) and ast.unparse(mj[2].value) == "os.getpid()"):
        raise TieBroken("get_mcp_servers: tmp is not f\"{MCP_CACHE_PATH}<infix>{os.getpid()}\"")
    out.append(_str("SL_MCP_TMP_INFIX", _const(mj[1], str, "get_mcp_servers: infix"), "get_mcp_servers: between MCP_CACHE_PATH and the pid"))

    # --- the repairs the model follows (fail closed when one of them disappears)
    # get_context_from_transcript: `if not transcript_path or not isinstance(transcript_path, str): return None` comes first
    gt = func(sl, "get_context_from_transcript")
    first = next(n for n in gt.body if not (isinstance(n, ast.Expr) and isinstance(n.value, ast.Constant)))
    arg = gt.args.args[0].arg
    if not (isinstance(first, ast.If) and ast.unparse(first.test) == f"not {arg} or not isinstance({arg}, str)"
            and isinstance(first.body[-1], ast.Return) and ast.unparse(first.body[-1]) == "return None"):
        raise TieBroken("get_context_from_transcript: the first statement is not the `not a non-empty str -> None` guard")
    # build_statusline: return SEP2.join(SEP.join(parts).splitlines())
    bs = func(sl, "build_statusline")
    ret = _one([n for n in ast.walk(bs) if isinstance(n, ast.Return)], "build_statusline: return").value
    ok = (isinstance(ret, ast.Call) and isinstance(ret.func, ast.Attribute) and ret.func.attr == "join" and len(ret.args) == 1
          and isinstance(ret.args[0], ast.Call) and isinstance(ret.args[0].func, ast.Attribute) and ret.args[0].func.attr == "splitlines"
          and not ret.args[0].args and not ret.args[0].keywords)
    inner = ret.args[0].func.value if ok else None
    ok = ok and isinstance(inner, ast.Call) and isinstance(inner.func, ast.Attribute) and inner.func.attr == "join" \
        and len(inner.args) == 1 and isinstance(inner.args[0], ast.Name)
    if not ok:
        raise TieBroken("build_statusline: return is not <sep2>.join(<sep>.join(parts).splitlines())")
    out.append(_str("SL_SEP", _const(inner.func.value, str, "build_statusline: separator"), "build_statusline: between the parts"))
    out.append(_str("SL_COLLAPSE_SEP", _const(ret.func.value, str, "build_statusline: collapse separator"),
                    "build_statusline: what replaces a line break of the joined line"))
    # main: the cached text is served only if it is exactly one line
    mn = func(sl, "main")
    conds = [ast.unparse(n.test) for n in ast.walk(mn) if isinstance(n, ast.If)]
    if conds != ["cached and cached.splitlines() == [cached]"]:
        raise TieBroken(f"main: the serve condition is {conds}, the model assumes `cached and cached.splitlines() == [cached]`")
    # str.splitlines() boundaries of this interpreter
    brk = [c for c in range(0x110000) if len(("a" + chr(c) + "b").splitlines()) == 2]
    out.append("(* code points at which str.splitlines() breaks (this interpreter) *)\nDefinition SL_LINE_BREAKS : list N :=\n  ["
               + "; ".join(str(c) for c in brk) + "].\n")

    # --- comparison operators against the TTLs
    gc = func(sl, "get_cached")
    op1 = _cmp_with(gc, "CACHE_TTL", "get_cached: comparison with CACHE_TTL")
    if op1 not in (ast.Gt, ast.GtE):
        raise TieBroken("get_cached: expected age > / >= CACHE_TTL")
    out.append(_bool("SL_CACHE_EXPIRE_STRICT", op1 is ast.Gt, "get_cached: expired iff age > TTL (true) or age >= TTL (false)"))
    gm = func(sl, "get_mcp_servers")
    op2 = _cmp_with(gm, "MCP_CACHE_TTL", "get_mcp_servers: comparison with MCP_CACHE_TTL")
    if op2 not in (ast.Gt, ast.GtE):
        raise TieBroken("get_mcp_servers: expected age > / >= MCP_CACHE_TTL")
    out.append(_bool("SL_MCP_REFRESH_STRICT", op2 is ast.Gt, "get_mcp_servers: refresh iff age > TTL (true) or age >= TTL (false)"))

    # --- palette and styles
    mk = module_assign(sl, "MOLOKAI")
    if not isinstance(mk, ast.Dict):
        raise TieBroken("MOLOKAI: not a dict literal")
    rows = []
    for k, v in zip(mk.keys, mk.values):
        name = _const(k, str, "MOLOKAI key")
        if isinstance(v, ast.Tuple):
            cols = [_const(e, str, "MOLOKAI tuple element") for e in v.elts]
            if len(cols) != 2:
                raise TieBroken("MOLOKAI: tuple of length != 2")
        else:
            cols = [_const(v, str, "MOLOKAI value")]
        rows.append(f"({coq_str(name)}, [{'; '.join(coq_str(c) for c in cols)}])")
    out.append("(* MOLOKAI: colour name -> [\"#rrggbb\"] or [\"#fg\"; \"#bg\"] (a tuple) *)\n"
               "Definition SL_MOLOKAI : list (str * list str) :=\n  [" + ";\n   ".join(rows) + "].\n")
    stl = module_assign(sl, "STYLES")
    if not isinstance(stl, ast.Dict):
        raise TieBroken("STYLES: not a dict literal")
    rows = []
    for k, v in zip(stl.keys, stl.values):
        name = _const(k, str, "STYLES key")
        if not (isinstance(v, ast.Tuple) and len(v.elts) == 2):
            raise TieBroken("STYLES: value is not a pair")
        cells = []
        for e in v.elts:
            if isinstance(e, ast.Constant) and e.value is None:
                cells.append("None")
            else:
                cells.append(f"Some {coq_str(_const(e, str, 'STYLES element'))}")
        rows.append(f"({coq_str(name)}, ({cells[0]}, {cells[1]}))")
    out.append("(* STYLES: element -> (fg colour name, bg colour name) *)\n"
               "Definition SL_STYLES : list (str * (option str * option str)) :=\n  [" + ";\n   ".join(rows) + "].\n")
    return out
