"""C06 / C12 / C19: the READ SET of the hook - every key dippy.py looks up in the hook input, and at which level.

The payload object (json.load(sys.stdin), conventionally `input_data`) is followed through dippy.py:
  * `X.get("k", ...)`, `X["k"]`, `"k" in X`, `"k" not in X` with X the payload              -> top-level key k
  * a name assigned from `<payload>.get("tool_input", ...)`, or that call itself              -> the tool_input object;
    the same look-ups on it                                                                    -> tool_input key k
  * the payload passed to a module-level function: the parameter at that position is the payload inside it.
Anything else that could read the payload in a way this cannot see - a look-up with a non-literal key, the
payload or tool_input object passed to something that is not a module-level function of dippy.py, stored in a
container, iterated, a third level of look-ups - breaks the tie (fail closed): the model's `host_view`
(Model/HookView.v) is defined from these two tables and C06_host_level_only is proved about them."""
import ast

from gen_tables import *  # noqa: F401,F403

PAYLOAD_LEVEL, TOOL_INPUT_LEVEL = "payload", "tool_input"


def read_keys(dp=None):
    """-> (sorted top-level keys, sorted tool_input keys); raises TieBroken."""
    dp = dp or load("dippy.py")
    funcs = {n.name: n for n in dp.body if isinstance(n, ast.FunctionDef)}
    main = funcs.get("main")
    if main is None:
        raise TieBroken("hook read set: main() not found")
    # the payload: `<name> = json.load(sys.stdin)` inside main()
    roots = []
    for n in ast.walk(main):
        if isinstance(n, ast.Assign) and len(n.targets) == 1 and isinstance(n.targets[0], ast.Name) \
                and isinstance(n.value, ast.Call) and isinstance(n.value.func, ast.Attribute) and n.value.func.attr == "load" \
                and getattr(n.value.func.value, "id", None) == "json":
            roots.append(n.targets[0].id)
    if len(set(roots)) != 1:
        raise TieBroken(f"hook read set: expected exactly one `x = json.load(...)` in main(), found {roots}")
    top, ti = set(), set()
    todo = [("main", {roots[0]: PAYLOAD_LEVEL})]
    done = set()
    while todo:
        fname, env0 = todo.pop()
        key = (fname, tuple(sorted(env0.items())))
        if key in done:
            continue
        done.add(key)
        fn = funcs[fname]
        env = dict(env0)

        def level_of(e):
            """payload / tool_input / None for an expression."""
            if isinstance(e, ast.Name):
                return env.get(e.id)
            k = lookup_key(e)
            if k is not None and k[0] == PAYLOAD_LEVEL and k[1] == "tool_input":
                return TOOL_INPUT_LEVEL
            return None

        def lookup_key(e):
            """(level, key) when e is `<obj>.get("k", ...)` or `<obj>["k"]` on a tracked object."""
            if isinstance(e, ast.Call) and isinstance(e.func, ast.Attribute) and e.func.attr == "get" and e.args:
                lv = level_of(e.func.value)
                if lv:
                    a = e.args[0]
                    if not (isinstance(a, ast.Constant) and isinstance(a.value, str)):
                        raise TieBroken(f"hook read set: {fname}() line {e.lineno}: .get() with a non-literal key on the {lv} object")
                    return (lv, a.value)
            if isinstance(e, ast.Subscript):
                lv = level_of(e.value)
                if lv:
                    a = e.slice
                    if not (isinstance(a, ast.Constant) and isinstance(a.value, str)):
                        raise TieBroken(f"hook read set: {fname}() line {e.lineno}: subscript with a non-literal key on the {lv} object")
                    return (lv, a.value)
            return None

        # first pass: names bound to the tool_input object (iterate to a fixed point: order of statements is free)
        changed = True
        while changed:
            changed = False
            for n in ast.walk(fn):
                if isinstance(n, ast.Assign) and len(n.targets) == 1 and isinstance(n.targets[0], ast.Name):
                    lv = level_of(n.value)
                    if lv and env.get(n.targets[0].id) != lv:
                        if n.targets[0].id in env:
                            raise TieBroken(f"hook read set: {fname}(): name {n.targets[0].id} bound to two levels")
                        env[n.targets[0].id] = lv
                        changed = True
        # second pass: every use of a tracked object must be one this reader understands
        parents = {}
        for n in ast.walk(fn):
            for c in ast.iter_child_nodes(n):
                parents[id(c)] = n
        for n in ast.walk(fn):
            lv = None
            if isinstance(n, ast.Name) and isinstance(n.ctx, ast.Load):
                lv = env.get(n.id)
            elif isinstance(n, (ast.Call, ast.Subscript)):
                k = lookup_key(n)
                if k:
                    (top if k[0] == PAYLOAD_LEVEL else ti).add(k[1])
                    if k == (PAYLOAD_LEVEL, "tool_input"):
                        lv = TOOL_INPUT_LEVEL
            if lv is None:
                continue
            p = parents.get(id(n))
            # (a) <obj>.get / <obj>[...]
            if isinstance(p, ast.Attribute) and p.value is n:
                gp = parents.get(id(p))
                if p.attr == "get" and isinstance(gp, ast.Call) and gp.func is p:
                    continue
                raise TieBroken(f"hook read set: {fname}() line {n.lineno}: .{p.attr} on the {lv} object")
            if isinstance(p, ast.Subscript) and p.value is n:
                continue
            # (b) "k" in <obj>
            if isinstance(p, ast.Compare) and len(p.ops) == 1 and isinstance(p.ops[0], (ast.In, ast.NotIn)) and p.comparators[0] is n:
                if not (isinstance(p.left, ast.Constant) and isinstance(p.left.value, str)):
                    raise TieBroken(f"hook read set: {fname}() line {n.lineno}: membership test with a non-literal key")
                (top if lv == PAYLOAD_LEVEL else ti).add(p.left.value)
                continue
            # (c) bound to a name (handled above)
            if isinstance(p, ast.Assign) and p.value is n:
                continue
            # (d) passed to a module-level function of dippy.py
            if isinstance(p, ast.Call) and n in p.args and isinstance(p.func, ast.Name) and p.func.id in funcs:
                callee = funcs[p.func.id]
                params = [a.arg for a in callee.args.args]
                idx = p.args.index(n)
                if idx >= len(params) or any(isinstance(a, ast.Starred) for a in p.args):
                    raise TieBroken(f"hook read set: {fname}() line {n.lineno}: cannot follow the {lv} object into {p.func.id}()")
                todo.append((p.func.id, {params[idx]: lv}))
                continue
            raise TieBroken(f"hook read set: {fname}() line {n.lineno}: the {lv} object is used in a way the reader does not follow "
                            f"({type(p).__name__})")
    return sorted(top), sorted(ti)


def build():
    top, ti = read_keys()
    for k in ("tool_input",):
        if ti and k not in top:
            raise TieBroken("hook read set: tool_input keys without a top-level tool_input look-up")
    return [coq_strs("HOOK_TOP_KEYS", top, "dippy.py: every key looked up in the hook input object itself (main, _detect_mode_from_input)"),
            coq_strs("HOOK_TOOL_INPUT_KEYS", ti, "dippy.py: every key looked up inside the input's tool_input object")]
