"""Tables of the SQL classifier (core/sql.py) and of the SQL command-line handlers (cli/sqlite3.py, ...)."""
import re

from gen_tables import *  # noqa: F401,F403


def _pairs(name, items, comment):
    body = ";\n   ".join(f"({c}, [{';'.join(str(x) for x in u)}])" for c, u in items)
    return f"(* {comment} *)\nDefinition {name} : list (N * list N) :=\n  [{body}].\n"


def build():
    out = []
    sql = load("core/sql.py")
    out.append(coq_strs("SQL_READONLY_KEYWORDS", const_strs(module_assign(sql, "_READONLY_KEYWORDS"), "_READONLY_KEYWORDS"),
                        "core/sql.py _READONLY_KEYWORDS"))
    out.append(coq_strs("SQL_WRITE_KEYWORDS", const_strs(module_assign(sql, "_WRITE_KEYWORDS"), "_WRITE_KEYWORDS"),
                        "core/sql.py _WRITE_KEYWORDS"))
    # the three patterns are modelled by hand (Model/Sql.v); the tie is their literal text
    want = {
        "_WHITESPACE_PATTERN": r"\s+",
        "_KEYWORD_PATTERN": r"[A-Za-z_]\w*",
    }
    for name, pat in want.items():
        call = module_assign(sql, name)
        if not (isinstance(call, ast.Call) and len(call.args) == 1 and isinstance(call.args[0], ast.Constant)
                and call.args[0].value == pat and not call.keywords):
            raise TieBroken(f"core/sql.py {name}: pattern is no longer {pat!r}")
    q = module_assign(sql, "_QUOTED_PATTERN")
    if not (isinstance(q, ast.Call) and len(q.args) == 2 and isinstance(q.args[0], ast.Constant)):
        raise TieBroken("core/sql.py _QUOTED_PATTERN: unexpected shape")
    flags = ast.unparse(q.args[1]).replace(" ", "")
    if sorted(flags.split("|")) != ["re.DOTALL", "re.VERBOSE"]:
        raise TieBroken(f"core/sql.py _QUOTED_PATTERN: flags are {flags}")
    alts = []
    for line in q.args[0].value.splitlines():
        line = line.strip()
        if not line:
            continue
        # verbose mode: the comment starts at the first unescaped '#' outside a class; none of the alternatives has one
        body = re.split(r"\s+#", line, maxsplit=1)[0].strip()
        if body.startswith("|"):
            body = body[1:].strip()
        alts.append(body)
    expect = [r"""'(?:[^']*'')*[^']*'""", r'''"(?:[^"]*"")*[^"]*"''', r"`[^`]*`", r"\[[^\]]*\]", r"--[^\n]*", r"/\*.*?\*/"]
    if alts != expect:
        raise TieBroken(f"core/sql.py _QUOTED_PATTERN: alternatives are {alts}")

    for mod, name, coq in (("cli/sqlite3.py", "_SQLITE_WRITE", "SQLITE_WRITE"), ("cli/duckdb.py", "_DUCKDB_WRITE", "DUCKDB_WRITE"),
                           ("cli/psql.py", "_POSTGRES_WRITE", "POSTGRES_WRITE"), ("cli/mysql.py", "_MYSQL_WRITE", "MYSQL_WRITE"),
                           ("cli/aws.py", "_ATHENA_WRITE", "ATHENA_WRITE")):
        out.append(coq_strs(coq, const_strs(module_assign(load(mod), name), name), f"{mod} {name}"))

    s3mod = load("cli/sqlite3.py")
    s3 = in_tuples(func(s3mod, "classify"), "sqlite3 flags")
    out.append(coq_strs("SQLITE3_NOARG_FLAGS", pick(s3, ["-append", "-ascii"], "sqlite3 no-arg flags"), "cli/sqlite3.py classify: options without argument"))
    out.append(coq_strs("SQLITE3_ONEARG_FLAGS", pick(s3, ["-cmd", "-init"], "sqlite3 one-arg flags"), "cli/sqlite3.py classify: options with one argument"))

    def exact(members, what):
        hits = [t for t in s3 if sorted(t) == sorted(members)]
        if not hits:
            raise TieBroken(f"sqlite3 classify: no literal tuple {members} ({what})")
        return hits[0]

    out.append(coq_strs("SQLITE3_HELP_FLAGS", exact(["-help", "-version"], "help flags"), "cli/sqlite3.py classify: no-arg options that set help_flag"))
    out.append(coq_strs("SQLITE3_RO_FLAGS", exact(["-readonly", "-safe"], "read-only flags"), "cli/sqlite3.py classify: no-arg options that set readonly_flag"))
    # the three guards are modelled by hand (Model/Sql.v); the tie is their literal text and flags
    guards = {
        "_TCL_VARIABLE": (r"[$@:#](?:[A-Za-z0-9_$\x80-\U0010ffff]|::)*\(", None),
        "_VACUUM": (r"\bvacuum\b", "re.IGNORECASE"),
        "_SHELL_FUNCTION": (r"\b(?:writefile|edit|load_extension)\s*\(", "re.IGNORECASE"),
    }
    for name, (pat, flag) in guards.items():
        call = module_assign(s3mod, name)
        ok = (isinstance(call, ast.Call) and call.args and isinstance(call.args[0], ast.Constant) and call.args[0].value == pat
              and not call.keywords and ((flag is None and len(call.args) == 1) or
                                         (flag is not None and len(call.args) == 2 and ast.unparse(call.args[1]) == flag)))
        if not ok:
            raise TieBroken(f"cli/sqlite3.py {name}: pattern/flags are no longer {pat!r} / {flag}")
    out.append(coq_strs("SQLITE3_SHELL_FUNCTIONS", ["writefile", "edit", "load_extension"], "the alternatives of _SHELL_FUNCTION (checked above; their first letters differ, so the order of the alternation is immaterial)"))
    # case-insensitive matching of the literal letters of those patterns: for each letter the code points that
    # re.IGNORECASE lets it match (this interpreter; includes U+017F for s, U+212A for k ...)
    everything = "".join(chr(c) for c in range(0x110000) if not 0xD800 <= c <= 0xDFFF)
    letters = sorted(set("vacuum" + "writefile" + "edit" + "load_extension"))
    ic = []
    for ch in letters:
        ic.append((ord(ch), sorted(ord(x) for x in re.findall(re.escape(ch), everything, re.IGNORECASE))))
    out.append(_pairs("RE_ICASE", ic, "for each literal letter of the IGNORECASE patterns: the code points it matches"))

    # interpreter tables used by the three patterns and by str.upper()
    sp = ranges(lambda c: re.fullmatch(r"\s", c) is not None)
    if sp != ranges(str.isspace):
        raise TieBroken("re \\s differs from str.isspace in this interpreter")
    out.append(coq_ranges("PY_RE_WORD", ranges(lambda c: re.fullmatch(r"\w", c) is not None), r"code points matched by re \w (str pattern, this interpreter)"))
    up = []
    for c in range(0x110000):
        u = chr(c).upper()
        if u != chr(c):
            up.append((c, [ord(x) for x in u]))
    # str.upper() is the character-wise full mapping (no context rule): spot-check the homomorphism
    probe = "aßbŉﬁzǅiıſς"
    if probe.upper() != "".join(ch.upper() for ch in probe):
        raise TieBroken("str.upper is not character-wise in this interpreter")
    out.append(_pairs("PY_UPPER", up, "code points c with chr(c).upper() != chr(c), with the result (this interpreter)"))
    return out
