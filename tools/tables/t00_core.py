"""Tables used by the walker, ladder and hook models."""
import ast

from gen_tables import *  # noqa: F401,F403  (helpers: load, const_strs, module_assign, func, in_tuples, pick, coq_strs, ...)


def build():
    out = []
    allow = load("core/allowlists.py")
    out.append(coq_strs("SIMPLE_SAFE", const_strs(module_assign(allow, "SIMPLE_SAFE"), "SIMPLE_SAFE"),
                        "core/allowlists.py SIMPLE_SAFE"))
    out.append(coq_strs("WRAPPER_COMMANDS", const_strs(module_assign(allow, "WRAPPER_COMMANDS"), "WRAPPER_COMMANDS"),
                        "core/allowlists.py WRAPPER_COMMANDS"))

    an = load("core/analyzer.py")
    out.append(coq_strs("SAFE_REDIRECT_TARGETS",
                        const_strs(module_assign(an, "SAFE_REDIRECT_TARGETS"), "SAFE_REDIRECT_TARGETS"),
                        "core/analyzer.py SAFE_REDIRECT_TARGETS"))
    out.append(coq_strs("EXECUTION_ENV_VARS",
                        const_strs(module_assign(allow, "EXECUTION_ENV_VARS"), "EXECUTION_ENV_VARS"),
                        "core/allowlists.py EXECUTION_ENV_VARS: variables that decide what runs"))
    out.append(coq_strs("SYSTEM_PATH_DIRS",
                        const_strs(module_assign(allow, "SYSTEM_PATH_DIRS"), "SYSTEM_PATH_DIRS"),
                        "core/allowlists.py SYSTEM_PATH_DIRS: directories a PATH may list"))
    sev = func(allow, "sets_execution_var")
    lits = sorted({c.value for c in ast.walk(sev) if isinstance(c, ast.Constant) and isinstance(c.value, str) and len(c.value) < 8})
    if lits != [":", "=", "PATH"]:
        raise TieBroken(f"sets_execution_var: expected the literals ':', '=', 'PATH' (found {lits})")
    rx = module_assign(allow, "_ASSIGNED_NAME")
    if not (isinstance(rx, ast.Call) and rx.args and isinstance(rx.args[0], ast.Constant)
            and rx.args[0].value == r"([A-Za-z_][A-Za-z0-9_]*)(\+?=)(.*)"):
        raise TieBroken("_ASSIGNED_NAME: the regular expression changed")
    az = func(an, "analyze")
    strips = [c.args[0].value for c in ast.walk(az) if isinstance(c, ast.Call) and isinstance(c.func, ast.Attribute) and c.func.attr == "strip"
              and len(c.args) == 1 and isinstance(c.args[0], ast.Constant) and isinstance(c.args[0].value, str)]
    notin = [c.comparators[0].value for c in ast.walk(az) if isinstance(c, ast.Compare) and len(c.ops) == 1 and isinstance(c.ops[0], ast.NotIn)
             and isinstance(c.comparators[0], ast.Constant) and isinstance(c.comparators[0].value, str)]
    if len(strips) != 1 or notin != strips:
        raise TieBroken("analyze: expected command.strip(<blanks>) and one `c not in <the same blanks>` test")
    out.append(f"(* core/analyzer.py analyze: the characters bash separates words at (stripped; any other white space asks) *)\nDefinition ANALYZE_STRIP : str := {coq_str(strips[0])}.\n")
    unk = module_assign(an, "_UNKNOWN_CWD")
    if not (isinstance(unk, ast.Call) and getattr(unk.func, "id", None) == "Path" and len(unk.args) == 1):
        raise TieBroken("_UNKNOWN_CWD: expected Path(<string expression>)")

    def str_expr(e):
        """string literal, literal + expr, literal * int literal"""
        if isinstance(e, ast.Constant) and isinstance(e.value, str):
            return e.value
        if isinstance(e, ast.BinOp) and isinstance(e.op, ast.Add):
            return str_expr(e.left) + str_expr(e.right)
        if isinstance(e, ast.BinOp) and isinstance(e.op, ast.Mult) and isinstance(e.right, ast.Constant) and type(e.right.value) is int \
                and 0 <= e.right.value <= 4096:
            return str_expr(e.left) * e.right.value
        raise TieBroken("_UNKNOWN_CWD: expected a string built from literals with + and * <int>")
    unk_text = str_expr(unk.args[0])
    if not unk_text.startswith("/") or ".." in unk_text:
        raise TieBroken("_UNKNOWN_CWD: expected an absolute path without '..'")
    out.append(f"(* core/analyzer.py _UNKNOWN_CWD *)\nDefinition UNKNOWN_CWD : str := {coq_str(unk_text)}.\n")
    comps = unk_text.split("/")
    if len(comps) < 3 or comps[0] != "" or not comps[1] or not comps[2]:
        raise TieBroken("_UNKNOWN_CWD: expected at least two path components")
    out.append("(* the first two components of _UNKNOWN_CWD: every path below it counts as \"unknown directory\" *)\n"
               f"Definition UNKNOWN_ROOT : str := {coq_str('/' + comps[1] + '/' + comps[2])}.\n")
    chd = in_tuples(func(an, "_changes_directory"), "changes_directory")
    out.append(coq_strs("CHDIR_COMMANDS", pick(chd, ["cd", "pushd"], "directory-changing commands"),
                        "_changes_directory: commands that change the shell's directory"))
    out.append(coq_strs("CHDIR_WRAPPERS", pick(chd, ["command", "builtin"], "builtin-running prefixes"),
                        "_changes_directory: prefixes that run a builtin in the current shell"))
    out.append(coq_strs("CHDIR_OPAQUE_KINDS", pick(chd, ["subshell", "cmdsub"], "kinds run in their own process"),
                        "_changes_directory: node kinds whose directory changes do not reach the current shell"))
    nv = func(an, "_names_variable")
    out.append(coq_strs("NAME_EVAL_ALL", pick(in_tuples(nv, "names_variable"), ["test", "read"], "builtins whose arguments are variable names"),
                        "_names_variable: builtins that evaluate every argument as a variable name"))
    eqs = [c for c in ast.walk(nv) if isinstance(c, ast.Compare) and len(c.ops) == 1 and isinstance(c.ops[0], ast.Eq)
           and isinstance(c.comparators[0], ast.Constant) and isinstance(c.comparators[0].value, str)]
    cmd_eq = [c.comparators[0].value for c in eqs if isinstance(c.left, ast.Name) and c.left.id == "base"]
    flag_eq = [c.comparators[0].value for c in eqs if isinstance(c.left, ast.Subscript)]
    if len(cmd_eq) != 1 or len(flag_eq) != 1:
        raise TieBroken("_names_variable: expected `base == <cmd> and words[position - 1] == <flag>`")
    out.append(f"(* _names_variable: the builtin whose argument after a flag is a variable name *)\nDefinition NAME_EVAL_CMD : str := {coq_str(cmd_eq[0])}.\nDefinition NAME_EVAL_FLAG : str := {coq_str(flag_eq[0])}.\n")
    red = in_tuples(func(an, "_analyze_redirects"), "redirect ops")
    out.append(coq_strs("REDIRECT_WRITE_OPS", pick(red, [">", ">>"], "write operators"),
                        "_analyze_redirects: bare operators that open a file for writing"))
    out.append(coq_strs("REDIRECT_DUP_OPS", pick(red, [">&", "<&"], "dup operators"),
                        "_analyze_redirects: operators whose numeric/- target is an fd duplication"))
    hs = [c.comparators[0].value for c in ast.walk(func(an, "_analyze_redirects")) if isinstance(c, ast.Compare) and len(c.ops) == 1
          and isinstance(c.ops[0], ast.Eq) and isinstance(c.left, ast.Name) and c.left.id == "op"
          and isinstance(c.comparators[0], ast.Constant) and isinstance(c.comparators[0].value, str)]
    if hs != ["<<<"]:
        raise TieBroken("_analyze_redirects: expected exactly one `op == \"<<<\"` test (scan_raw of here-string targets)")
    out.append(f"(* _analyze_redirects: the operator whose target word is scanned as raw text *)\nDefinition HERESTRING_OP : str := {coq_str(hs[0])}.\n")
    cmd = in_tuples(func(an, "_analyze_command"), "command")
    out.append(coq_strs("TEST_COMMANDS", pick(cmd, ["[", "test"], "test commands"),
                        "_analyze_command: conditional test commands"))
    swr = module_assign(an, "_SUBCOMMAND_WORD")
    if not (isinstance(swr, ast.Call) and swr.args and isinstance(swr.args[0], ast.Constant) and swr.args[0].value == r"[A-Za-z][A-Za-z0-9_:-]*"):
        raise TieBroken("_SUBCOMMAND_WORD: the regular expression changed")
    hlp = in_tuples(func(an, "_is_version_or_help"), "help")
    out.append(coq_strs("HELP_WORDS", pick(hlp, ["help", "version"], "help words"), "_is_version_or_help: tokens[1] of a 2-word command"))
    out.append(coq_strs("HELP_FLAGS2", pick(hlp, ["--version", "--help", "-h"], "help flags"), "_is_version_or_help: tokens[1] of a 2-word command"))
    hl = [t for t in hlp if "--help" in t and "--version" not in t]
    if len(hl) != 1:
        raise TieBroken("help: trailing flag tuple")
    out.append(coq_strs("HELP_TRAILING", hl[0], "_is_version_or_help: last token of a command of at most four words"))
    sc = in_tuples(func(an, "_analyze_simple_command"), "ladder")
    out.append(coq_strs("COMMAND_V_FLAGS", pick(sc, ["-v", "-V"], "command -v"), "_analyze_simple_command: command -v/-V"))
    wf = module_assign(an, "WRAPPER_FLAGS_WITH_ARG")
    if not isinstance(wf, ast.Dict):
        raise TieBroken("WRAPPER_FLAGS_WITH_ARG: expected a dict literal")
    rows = []
    for k, v in zip(wf.keys, wf.values):
        if not (isinstance(k, ast.Constant) and isinstance(k.value, str)):
            raise TieBroken("WRAPPER_FLAGS_WITH_ARG: non-string key")
        flags = sorted(set(const_strs(v, "WRAPPER_FLAGS_WITH_ARG[" + k.value + "]")))
        rows.append("(" + coq_str(k.value) + ", [" + "; ".join(coq_str(f) for f in flags) + "])")
    out.append("(* core/analyzer.py WRAPPER_FLAGS_WITH_ARG *)\nDefinition WRAPPER_FLAGS_WITH_ARG : list (str * list str) :=\n  ["
               + ";\n   ".join(sorted(rows)) + "].\n")
    wo = module_assign(an, "WRAPPER_OPERANDS")
    if not (isinstance(wo, ast.Dict) and all(isinstance(k, ast.Constant) and isinstance(v, ast.Constant) and isinstance(v.value, int)
                                             and 0 <= v.value < 10 for k, v in zip(wo.keys, wo.values))):
        raise TieBroken("WRAPPER_OPERANDS: expected a dict literal of small ints")
    out.append("(* core/analyzer.py WRAPPER_OPERANDS *)\nDefinition WRAPPER_OPERANDS : list (str * nat) :=\n  ["
               + "; ".join("(" + coq_str(k.value) + ", " + str(v.value) + "%nat)" for k, v in sorted(zip(wo.keys, wo.values), key=lambda kv: kv[0].value)) + "].\n")
    rw = module_assign(an, "_REWRITTEN_CHARS")
    if not (isinstance(rw, ast.Call) and getattr(rw.func, "id", None) == "frozenset" and len(rw.args) == 1 and not rw.keywords
            and isinstance(rw.args[0], ast.Constant) and isinstance(rw.args[0].value, str) and rw.args[0].value):
        raise TieBroken("_REWRITTEN_CHARS: expected frozenset(<string literal>)")
    out.append("(* core/analyzer.py _REWRITTEN_CHARS: characters of a word that bash (or the tool) still rewrites *)\n"
               f"Definition REWRITTEN_CHARS : str := {coq_str(''.join(sorted(set(rw.args[0].value))))}.\n")
    # _match_written_file and _extract_cd_target test a word with _REWRITTEN_CHARS.intersection(<word>) and nothing else
    for fname in ("_match_written_file", "_extract_cd_target"):
        uses = [c for c in ast.walk(func(an, fname)) if isinstance(c, ast.Name) and c.id == "_REWRITTEN_CHARS"]
        if len(uses) != 1:
            raise TieBroken(f"{fname}: expected exactly one use of _REWRITTEN_CHARS")
    ex = in_tuples(func(an, "_analyze_expansion"), "expansion")
    out.append(coq_strs("SUBST_KINDS", pick(ex, ["cmdsub", "procsub"], "substitution kinds"), "_analyze_expansion: substitution node kinds"))

    # interpreter tables
    out.append(coq_ranges("PY_SPACE", ranges(str.isspace), "code-point ranges with str.isspace() (this interpreter)"))
    out.append(coq_ranges("PY_DIGIT", ranges(str.isdigit), "code-point ranges with str.isdigit() (this interpreter)"))
    out.append(coq_ranges("PY_ALNUM", ranges(str.isalnum), "code-point ranges with str.isalnum() (this interpreter)"))

    dp = load("dippy.py")
    out.append(coq_strs("SHELL_TOOL_NAMES", const_strs(module_assign(dp, "SHELL_TOOL_NAMES"), "SHELL_TOOL_NAMES"),
                        "dippy.py SHELL_TOOL_NAMES"))
    mi = in_tuples(func(dp, "_detect_mode_from_input"), "gemini aliases")
    out.append(coq_strs("GEMINI_TOOL_NAMES", pick(mi, ["shell", "run_shell_command"], "gemini aliases"),
                        "dippy.py _detect_mode_from_input: Gemini tool-name aliases"))
    mn = in_tuples(func(dp, "main"), "bypass modes")
    out.append(coq_strs("BYPASS_MODES", pick(mn, ["bypassPermissions"], "bypass modes"), "dippy.py main: bypass permission modes"))
    ef = in_tuples(func(dp, "_env_flag"), "env flag")
    out.append(coq_strs("ENV_TRUTHY", pick(ef, ["1", "true"], "truthy"), "dippy.py _env_flag: truthy values"))
    return out


