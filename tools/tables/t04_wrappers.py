"""Tables of the wrapper/launcher handlers modelled in coq/Model/Wrappers.v (C04, C13)."""
import ast
import os

from gen_tables import *  # noqa: F401,F403
from gen_tables import SRC, TieBroken, coq_strs, const_strs, func, in_tuples, load, module_assign, pick

MODELLED = ["shell", "env", "xargs", "find", "fd", "docker", "kubectl", "arch", "caffeinate", "script", "uv", "tar"]


def dict_keys(node, what):
    if not isinstance(node, ast.Dict):
        raise TieBroken(f"{what}: not a dict literal")
    out = []
    for k in node.keys:
        if not (isinstance(k, ast.Constant) and isinstance(k.value, str)):
            raise TieBroken(f"{what}: non-string key")
        out.append(k.value)
    return out


def str_chars(node, what):
    """frozenset("abc") -> ['a','b','c']"""
    if isinstance(node, ast.Call) and getattr(node.func, "id", None) in ("frozenset", "set") and len(node.args) == 1:
        a = node.args[0]
        if isinstance(a, ast.Constant) and isinstance(a.value, str):
            return list(a.value)
    raise TieBroken(f"{what}: expected frozenset(<string literal>)")


def lit_chars(node, what):
    """A string literal used as a set of characters -> list of one-character strings."""
    if isinstance(node, ast.Constant) and isinstance(node.value, str):
        return list(node.value)
    raise TieBroken(f"{what}: expected a string literal")


def need(mod, fn, constants):
    """Fail closed when a string constant the model mirrors no longer occurs in the function
    (insensitive to renamings and re-orderings of the code around it)."""
    have = {n.value for n in ast.walk(func(mod, fn)) if isinstance(n, ast.Constant) and isinstance(n.value, str)}
    for c in constants:
        if c not in have:
            raise TieBroken(f"{fn}: string constant {c!r} no longer used")


def build():
    out = []
    mods = {m: load(f"cli/{m}.py") for m in MODELLED}

    # every handler module's COMMANDS: the dispatch table; the modelled names must be claimed once only
    claimed = {}
    for fn in sorted(os.listdir(os.path.join(SRC, "cli"))):
        if not fn.endswith(".py") or fn.startswith("_"):
            continue
        mod = load(f"cli/{fn}")
        try:
            cmds = const_strs(module_assign(mod, "COMMANDS"), f"{fn} COMMANDS")
        except TieBroken:
            continue
        for c in cmds:
            claimed.setdefault(c, []).append(fn[:-3])
    for m in MODELLED:
        cmds = const_strs(module_assign(mods[m], "COMMANDS"), f"{m} COMMANDS")
        for c in cmds:
            if claimed.get(c) != [m]:
                raise TieBroken(f"command {c!r} is claimed by {claimed.get(c)} - dispatch to cli/{m}.py is no longer unique")
        out.append(coq_strs(f"{m.upper()}_COMMANDS", cmds, f"cli/{m}.py COMMANDS"))

    # the modelled handlers return no redirect targets (HANDLES_HELP is the ladder model's business)
    for m in MODELLED:
        with open(os.path.join(SRC, "cli", f"{m}.py"), encoding="utf-8") as f:
            text = f.read()
        if "redirect_targets" in text:
            raise TieBroken(f"cli/{m}.py now returns redirect_targets: Wrappers.hverdict must be extended")

    # shell
    shm = mods["shell"]
    out.append(coq_strs("SHELL_LONG_WITH_ARG", const_strs(module_assign(shm, "LONG_WITH_ARG"), "shell LONG_WITH_ARG"), "cli/shell.py LONG_WITH_ARG"))
    out.append(coq_strs("SHELL_LONG_NO_ARG", const_strs(module_assign(shm, "LONG_NO_ARG"), "shell LONG_NO_ARG"), "cli/shell.py LONG_NO_ARG"))
    need(shm, "classify", ["--help", "--version", "-+", "c", "o", "O", "-", "--"])

    # env
    ev = mods["env"]
    out.append(coq_strs("ENV_LONG_OPTIONS", const_strs(module_assign(ev, "LONG_OPTIONS"), "env LONG_OPTIONS"), "cli/env.py LONG_OPTIONS"))
    out.append(coq_strs("ENV_LONG_WITH_ARG", const_strs(module_assign(ev, "LONG_WITH_ARG"), "env LONG_WITH_ARG"), "cli/env.py LONG_WITH_ARG"))
    out.append(coq_strs("ENV_SHORT_WITH_ARG", lit_chars(module_assign(ev, "SHORT_WITH_ARG"), "env SHORT_WITH_ARG"),
                        "cli/env.py SHORT_WITH_ARG (one-character strings)"))
    need(ev, "classify", ["split-string", "S", "-", "--", "="])
    need(ev, "_split_string", ["#", " ", "ask", "delegate"])

    # xargs
    out.append(coq_strs("XARGS_FLAGS_WITH_ARG", const_strs(module_assign(mods["xargs"], "FLAGS_WITH_ARG"), "xargs FLAGS_WITH_ARG"),
                        "cli/xargs.py FLAGS_WITH_ARG"))
    xa = mods["xargs"]
    out.append(coq_strs("XARGS_LONG_OPTIONS", const_strs(module_assign(xa, "LONG_OPTIONS"), "xargs LONG_OPTIONS"), "cli/xargs.py LONG_OPTIONS"))
    out.append(coq_strs("XARGS_LONG_WITH_ARG", const_strs(module_assign(xa, "LONG_WITH_ARG"), "xargs LONG_WITH_ARG"), "cli/xargs.py LONG_WITH_ARG"))
    out.append(coq_strs("XARGS_SHORT_OPTIONAL_ARG", lit_chars(module_assign(xa, "SHORT_OPTIONAL_ARG"), "xargs SHORT_OPTIONAL_ARG"),
                        "cli/xargs.py SHORT_OPTIONAL_ARG (one-character strings)"))
    need(xa, "_skip_flags", ["--", "-", "="])
    need(xa, "classify", ["-I", "-i", "--replace", "--rep", "-J", "I", "{}", "--interactive", "--open-tty"])
    out.append(coq_strs("XARGS_UNSAFE_FLAGS", const_strs(module_assign(mods["xargs"], "UNSAFE_FLAGS"), "xargs UNSAFE_FLAGS"),
                        "cli/xargs.py UNSAFE_FLAGS"))

    # find
    ft = in_tuples(func(mods["find"], "classify"), "find")
    out.append(coq_strs("FIND_OK_FLAGS", pick(ft, ["-ok", "-okdir"], "find -ok"), "cli/find.py interactive exec flags"))
    out.append(coq_strs("FIND_EXEC_FLAGS", pick(ft, ["-exec", "-execdir"], "find -exec"), "cli/find.py exec flags"))
    out.append(coq_strs("FIND_TERMINATORS", pick(ft, [";", "\\;"], "find terminators"), "cli/find.py clause terminators (a + counts only after {})"))
    need(mods["find"], "classify", ["+", "{}", "-delete"])

    # fd
    out.append(coq_strs("FD_EXEC_FLAGS", const_strs(module_assign(mods["fd"], "EXEC_FLAGS"), "fd EXEC_FLAGS"), "cli/fd.py EXEC_FLAGS"))
    out.append(coq_strs("FD_SHORT_NOARG", str_chars(module_assign(mods["fd"], "_SHORT_NOARG"), "fd _SHORT_NOARG"),
                        "cli/fd.py _SHORT_NOARG (one-character strings)"))
    out.append(coq_strs("FD_PLACEHOLDERS", const_strs(module_assign(mods["fd"], "_PLACEHOLDERS"), "fd _PLACEHOLDERS"),
                        "cli/fd.py _PLACEHOLDERS (with none of them in a word, fd appends the found path)"))
    need(mods["fd"], "_with_path", ["{}"])
    need(mods["fd"], "classify", [";", "\\;", "fd", "; ", "ask", "delegate", "--exec-batch=", "--exec=", "-x", "-X", "xX"])

    # docker
    dk = mods["docker"]
    out.append(coq_strs("DOCKER_GLOBAL_FLAGS_WITH_ARG", const_strs(module_assign(dk, "GLOBAL_FLAGS_WITH_ARG"), "docker GLOBAL_FLAGS_WITH_ARG"),
                        "cli/docker.py GLOBAL_FLAGS_WITH_ARG"))
    out.append(coq_strs("DOCKER_EXEC_FLAGS_WITH_ARG", const_strs(module_assign(dk, "EXEC_FLAGS_WITH_ARG"), "docker EXEC_FLAGS_WITH_ARG"),
                        "cli/docker.py EXEC_FLAGS_WITH_ARG"))
    out.append(coq_strs("DOCKER_EXEC_SHORT_WITH_ARG", lit_chars(module_assign(dk, "EXEC_SHORT_WITH_ARG"), "docker EXEC_SHORT_WITH_ARG"),
                        "cli/docker.py EXEC_SHORT_WITH_ARG (one-character strings)"))
    out.append(coq_strs("DOCKER_SAFE_ACTIONS", const_strs(module_assign(dk, "SAFE_ACTIONS"), "docker SAFE_ACTIONS"), "cli/docker.py SAFE_ACTIONS"))
    out.append(coq_strs("DOCKER_SUBCMD_KEYS", dict_keys(module_assign(dk, "SAFE_SUBCOMMANDS"), "docker SAFE_SUBCOMMANDS")
                        + dict_keys(module_assign(dk, "UNSAFE_SUBCOMMANDS"), "docker UNSAFE_SUBCOMMANDS"),
                        "cli/docker.py keys of SAFE_SUBCOMMANDS and UNSAFE_SUBCOMMANDS"))
    dt = in_tuples(func(dk, "classify"), "docker")
    out.append(coq_strs("DOCKER_COMPOSE_NAMES", pick(dt, ["docker-compose"], "compose names"), "cli/docker.py compose executables"))

    # kubectl
    kc = mods["kubectl"]
    kt = in_tuples(func(kc, "classify"), "kubectl")
    out.append(coq_strs("KUBECTL_FLAGS_WITH_ARG", pick(kt, ["-n", "--namespace"], "kubectl flags"), "cli/kubectl.py classify: global flags with an argument"))
    out.append(coq_strs("KUBECTL_EXEC_BOOL_FLAGS", const_strs(module_assign(kc, "EXEC_BOOL_FLAGS"), "kubectl EXEC_BOOL_FLAGS"), "cli/kubectl.py EXEC_BOOL_FLAGS"))
    need(kc, "_extract_exec_inner_command", ["itq", "--", "-", "="])
    out.append(coq_strs("KUBECTL_SAFE_ACTIONS", const_strs(module_assign(kc, "SAFE_ACTIONS"), "kubectl SAFE_ACTIONS"), "cli/kubectl.py SAFE_ACTIONS"))
    out.append(coq_strs("KUBECTL_SUBCMD_KEYS", dict_keys(module_assign(kc, "SAFE_SUBCOMMANDS"), "kubectl SAFE_SUBCOMMANDS")
                        + dict_keys(module_assign(kc, "UNSAFE_SUBCOMMANDS"), "kubectl UNSAFE_SUBCOMMANDS"),
                        "cli/kubectl.py keys of SAFE_SUBCOMMANDS and UNSAFE_SUBCOMMANDS"))

    # arch / caffeinate / script / uv run
    ar = mods["arch"]
    out.append(coq_strs("ARCH_FLAGS_NO_ARG", const_strs(module_assign(ar, "FLAGS_NO_ARG"), "arch FLAGS_NO_ARG")
                        + const_strs(module_assign(ar, "ARCH_FLAGS"), "arch ARCH_FLAGS"), "cli/arch.py FLAGS_NO_ARG + ARCH_FLAGS"))
    out.append(coq_strs("ARCH_FLAGS_WITH_ARG", const_strs(module_assign(ar, "FLAGS_WITH_ARG"), "arch FLAGS_WITH_ARG"), "cli/arch.py FLAGS_WITH_ARG"))
    cf = mods["caffeinate"]
    out.append(coq_strs("CAFF_FLAGS_NO_ARG", const_strs(module_assign(cf, "FLAGS_NO_ARG"), "caffeinate FLAGS_NO_ARG"), "cli/caffeinate.py FLAGS_NO_ARG"))
    out.append(coq_strs("CAFF_FLAGS_WITH_ARG", const_strs(module_assign(cf, "FLAGS_WITH_ARG"), "caffeinate FLAGS_WITH_ARG"), "cli/caffeinate.py FLAGS_WITH_ARG"))
    need(cf, "classify", ["dismu", "-"])
    need(mods["tar"], "_extract_to_command", ["--to-command=", "--to-command"])
    sp = mods["script"]
    out.append(coq_strs("SCRIPT_FLAGS_WITH_ARG", const_strs(module_assign(sp, "FLAGS_WITH_ARG"), "script FLAGS_WITH_ARG"), "cli/script.py FLAGS_WITH_ARG"))
    uv = mods["uv"]
    ut = in_tuples(func(uv, "classify"), "uv")
    early = (pick(ut, ["--version", "help"], "uv help set") + const_strs(module_assign(uv, "SAFE_COMMANDS"), "uv SAFE_COMMANDS")
             + dict_keys(module_assign(uv, "SAFE_SUBCOMMANDS"), "uv SAFE_SUBCOMMANDS")
             + dict_keys(module_assign(uv, "UNSAFE_SUBCOMMANDS"), "uv UNSAFE_SUBCOMMANDS") + ["pip"])
    need(uv, "classify", ["pip", "run"])
    out.append(coq_strs("UV_EARLY_ACTIONS", early, "cli/uv.py classify: actions decided before 'run' is looked at"))
    out.append(coq_strs("UV_RUN_FLAGS_WITH_ARG", const_strs(module_assign(uv, "RUN_FLAGS_WITH_ARG"), "uv RUN_FLAGS_WITH_ARG"), "cli/uv.py RUN_FLAGS_WITH_ARG"))
    return out
