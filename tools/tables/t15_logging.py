"""C15: which exception classes each logging call site catches, and logging.raiseExceptions."""
from gen_tables import *  # noqa: F401,F403


def handler_names(fn, what, must_call=None):
    """Names of the exception classes of the (single) try statement in fn that encloses a call
    to an attribute named must_call (or the only try statement when must_call is None)."""
    tries = [n for n in ast.walk(fn) if isinstance(n, ast.Try)]
    if must_call is not None:
        tries = [t for t in tries if any(isinstance(c, ast.Call) and (getattr(c.func, "attr", None) == must_call
                                                                     or getattr(c.func, "id", None) == must_call)
                                         for b in t.body for c in ast.walk(b))]
    if len(tries) != 1:
        raise TieBroken(f"{what}: expected exactly one try statement, found {len(tries)}")
    names = []
    for h in tries[0].handlers:
        t = h.type
        if t is None:
            names.append("BaseException")
        elif isinstance(t, ast.Name):
            names.append(t.id)
        elif isinstance(t, ast.Tuple) and all(isinstance(e, ast.Name) for e in t.elts):
            names += [e.id for e in t.elts]
        else:
            raise TieBroken(f"{what}: unsupported except clause")
    return names, tries[0]


def build():
    out = []
    dp = load("dippy.py")
    cf = load("core/config.py")
    n, _ = handler_names(func(dp, "setup_logging"), "setup_logging", "mkdir")
    out.append(coq_strs("LOG_SETUP_CATCHES", n, "dippy.py setup_logging: except clause around mkdir/basicConfig"))
    n, _ = handler_names(func(cf, "configure_logging"), "configure_logging", "mkdir")
    out.append(coq_strs("LOG_CONFIGURE_CATCHES", n, "config.py configure_logging: except clause around mkdir"))
    n, _ = handler_names(func(cf, "log_decision"), "log_decision", "open")
    out.append(coq_strs("LOG_DECISION_CATCHES", n, "config.py log_decision: except clause around open/write"))
    n, t = handler_names(func(cf, "_apply_setting"), "_apply_setting", "expanduser")
    # the handler must turn the exception into a ValueError (an invalid line)
    for h in t.handlers:
        if not any(isinstance(x, ast.Raise) and isinstance(x.exc, ast.Call) and getattr(x.exc.func, "id", None) == "ValueError"
                   for x in ast.walk(h)):
            raise TieBroken("_apply_setting: the expanduser handler no longer raises ValueError")
    out.append(coq_strs("LOG_EXPAND_CATCHES", n, "config.py _apply_setting: except clause around expanduser (re-raised as ValueError)"))
    n, _ = handler_names(func(cf, "parse_config"), "parse_config", "_apply_setting")
    out.append(coq_strs("LOG_PARSE_LINE_CATCHES", n, "config.py parse_config: per-line except clause (line skipped with a warning)"))
    # logging.raiseExceptions = False anywhere in dippy.py?
    off = False
    for x in ast.walk(dp):
        if isinstance(x, ast.Assign) and len(x.targets) == 1:
            tg = x.targets[0]
            if isinstance(tg, ast.Attribute) and tg.attr == "raiseExceptions" and getattr(tg.value, "id", None) == "logging":
                if isinstance(x.value, ast.Constant) and x.value.value in (False, True):
                    off = x.value.value is False
                else:
                    raise TieBroken("logging.raiseExceptions assigned a non-literal")
    out.append("(* dippy.py: logging.raiseExceptions left at its default (true) unless assigned False *)\n"
               f"Definition LOG_RAISE_EXCEPTIONS : bool := {'false' if off else 'true'}.\n")
    return out
