"""Tables of the python handler (src/dippy/cli/python.py) used by Model/PyArgs.v (property C17)."""
import ast

from gen_tables import *  # noqa: F401,F403


def _class_assign(mod, cls, name):
    for n in mod.body:
        if isinstance(n, ast.ClassDef) and n.name == cls:
            for m in n.body:
                if isinstance(m, ast.Assign) and len(m.targets) == 1 and getattr(m.targets[0], "id", None) == name:
                    return m.value
    raise TieBroken(f"{cls}.{name}: class-level assignment not found")


def build():
    out = []
    py = load("cli/python.py")
    for name in ("SAFE_MODULES", "DANGEROUS_MODULES", "DANGEROUS_BUILTINS", "SAFE_BUILTINS", "DANGEROUS_ATTRS"):
        out.append(coq_strs("PY_" + name, const_strs(module_assign(py, name), name), f"cli/python.py {name}"))
    out.append(coq_strs("PY_REFLECTION_ATTRS",
                        const_strs(_class_assign(py, "SafetyAnalyzer", "REFLECTION_ATTRS"), "REFLECTION_ATTRS"),
                        "cli/python.py SafetyAnalyzer.REFLECTION_ATTRS"))
    cls = [n for n in py.body if isinstance(n, ast.ClassDef) and n.name == "SafetyAnalyzer"]
    if len(cls) != 1:
        raise TieBroken("SafetyAnalyzer: class not found")
    vn = [m for m in cls[0].body if isinstance(m, ast.FunctionDef) and m.name == "visit_Name"]
    if len(vn) != 1:
        raise TieBroken("SafetyAnalyzer.visit_Name not found")
    out.append(coq_strs("PY_DANGEROUS_NAMES", pick(in_tuples(vn[0], "visit_Name"), ["__builtins__"], "dangerous names"),
                        "SafetyAnalyzer.visit_Name: names flagged on any access"))
    out.append(coq_strs("PY_ESCAPE_ATTRS",
                        const_strs(_class_assign(py, "SafetyAnalyzer", "ESCAPE_ATTRS"), "ESCAPE_ATTRS"),
                        "cli/python.py SafetyAnalyzer.ESCAPE_ATTRS"))
    # _KNOWN_OPTIONS = frozenset({"-" + c for c in "<letters>"} | {<long options>})
    ko = module_assign(py, "_KNOWN_OPTIONS")
    try:
        u = ko.args[0]
        comp, longs = u.left, u.right
        assert isinstance(u.op, ast.BitOr) and isinstance(comp, ast.SetComp) and isinstance(longs, ast.Set)
        assert ast.unparse(comp.elt) == "'-' + c" and comp.generators[0].target.id == "c" and not comp.generators[0].ifs
        letters = comp.generators[0].iter.value
        assert isinstance(letters, str)
        known = ["-" + ch for ch in letters] + const_strs(longs, "_KNOWN_OPTIONS long")
    except (AssertionError, AttributeError, IndexError):
        raise TieBroken("_KNOWN_OPTIONS: not of the form frozenset({'-' + c for c in '...'} | {...})")
    out.append(coq_strs("PY_KNOWN_OPTIONS", known, "cli/python.py _KNOWN_OPTIONS"))
    out.append(coq_strs("PY_INFO_OPTIONS", const_strs(module_assign(py, "_INFO_OPTIONS"), "_INFO_OPTIONS"), "cli/python.py _INFO_OPTIONS"))
    swa = module_assign(py, "_SHORT_WITH_ARG")
    if not (isinstance(swa, ast.Constant) and isinstance(swa.value, str)):
        raise TieBroken("_SHORT_WITH_ARG: not a string literal")
    out.append(coq_strs("PY_SHORT_WITH_ARG", list(swa.value), "cli/python.py _SHORT_WITH_ARG, one entry per letter"))
    # literal tests of _scan_options and classify that the model writes out by hand
    so = ast.unparse(func(py, "_scan_options"))
    for needle in ("opt in 'cm'", "token == '--check-hash-based-pycs'", "token.startswith('--')", "token == '--'",
                   "not token.startswith('-') or token == '-'"):
        if needle not in so:
            raise TieBroken(f"_scan_options: expected fragment not found: {needle}")
    cl = ast.unparse(func(py, "classify"))
    for needle in ("mode == '-c'", "'-i' in seen or '-x' in seen", "mode == '-m'", "arg == 'calendar'",
                   "not seen <= _KNOWN_OPTIONS", "seen & _INFO_OPTIONS", "tokens[idx] == '-'",
                   "(cwd / 'calendar.py').exists()", "(cwd / 'calendar').is_dir()"):
        if needle not in cl:
            raise TieBroken(f"classify: expected fragment not found: {needle}")
    # method names of the visitor: the model dispatches on exactly these kinds
    visits = sorted(m.name[6:] for m in cls[0].body if isinstance(m, ast.FunctionDef) and m.name.startswith("visit_"))
    out.append(coq_strs("PY_VISIT_METHODS", visits, "SafetyAnalyzer: node classes with a visit_ method"))
    return out
