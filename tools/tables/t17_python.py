"""Tables of the python handler (src/dippy/cli/python.py) used by Model/PyArgs.v (property C17)."""
import ast

from gen_tables import *  # noqa: F401,F403


def _class_assign(mod, cls, name):
    for n in mod.body:
        if isinstance(n, ast.ClassDef) and n.name == cls:
            for m in n.body:
                if isinstance(m, ast.Assign) and len(m.targets) == 1 and getattr(m.targets[0], "id", None) == name:
                    return m.value
    raise TieBroken(f"{cls}.{name}: class-level assignment not found")


def build():
    out = []
    py = load("cli/python.py")
    for name in ("SAFE_MODULES", "DANGEROUS_MODULES", "DANGEROUS_BUILTINS", "SAFE_BUILTINS", "DANGEROUS_ATTRS",
                 "FLAGS_WITH_ARG", "SAFE_FLAGS"):
        out.append(coq_strs("PY_" + name, const_strs(module_assign(py, name), name), f"cli/python.py {name}"))
    out.append(coq_strs("PY_REFLECTION_ATTRS",
                        const_strs(_class_assign(py, "SafetyAnalyzer", "REFLECTION_ATTRS"), "REFLECTION_ATTRS"),
                        "cli/python.py SafetyAnalyzer.REFLECTION_ATTRS"))
    cls = [n for n in py.body if isinstance(n, ast.ClassDef) and n.name == "SafetyAnalyzer"]
    if len(cls) != 1:
        raise TieBroken("SafetyAnalyzer: class not found")
    vn = [m for m in cls[0].body if isinstance(m, ast.FunctionDef) and m.name == "visit_Name"]
    if len(vn) != 1:
        raise TieBroken("SafetyAnalyzer.visit_Name not found")
    out.append(coq_strs("PY_DANGEROUS_NAMES", pick(in_tuples(vn[0], "visit_Name"), ["__builtins__"], "dangerous names"),
                        "SafetyAnalyzer.visit_Name: names flagged on any access"))
    # the ("-c", "-m") tuples of _find_script_path and _own_options must be the same literal
    a = pick(in_tuples(func(py, "_find_script_path"), "_find_script_path"), ["-c"], "_find_script_path -c/-m")
    b = pick(in_tuples(func(py, "_own_options"), "_own_options"), ["-c"], "_own_options -c/-m")
    if sorted(a) != sorted(b):
        raise TieBroken("_find_script_path and _own_options disagree on the -c/-m tuple")
    out.append(coq_strs("PY_CM_FLAGS", a, "_find_script_path / _own_options: options that take the program as argument"))
    # method names of the visitor: the model dispatches on exactly these kinds
    visits = sorted(m.name[6:] for m in cls[0].body if isinstance(m, ast.FunctionDef) and m.name.startswith("visit_"))
    out.append(coq_strs("PY_VISIT_METHODS", visits, "SafetyAnalyzer: node classes with a visit_ method"))
    return out
