"""Tables of the python handler (src/dippy/cli/python.py) used by Model/PyArgs.v (property C17)."""
import ast

from gen_tables import *  # noqa: F401,F403


def _class_assign(mod, cls, name):
    for n in mod.body:
        if isinstance(n, ast.ClassDef) and n.name == cls:
            for m in n.body:
                if isinstance(m, ast.Assign) and len(m.targets) == 1 and getattr(m.targets[0], "id", None) == name:
                    return m.value
    raise TieBroken(f"{cls}.{name}: class-level assignment not found")


def build():
    out = []
    py = load("cli/python.py")
    for name in ("SAFE_MODULES", "DANGEROUS_MODULES", "DANGEROUS_BUILTINS", "SAFE_BUILTINS", "DANGEROUS_ATTRS"):
        out.append(coq_strs("PY_" + name, const_strs(module_assign(py, name), name), f"cli/python.py {name}"))
    out.append(coq_strs("PY_REFLECTION_ATTRS",
                        const_strs(_class_assign(py, "SafetyAnalyzer", "REFLECTION_ATTRS"), "REFLECTION_ATTRS"),
                        "cli/python.py SafetyAnalyzer.REFLECTION_ATTRS"))
    cls = [n for n in py.body if isinstance(n, ast.ClassDef) and n.name == "SafetyAnalyzer"]
    if len(cls) != 1:
        raise TieBroken("SafetyAnalyzer: class not found")
    vn = [m for m in cls[0].body if isinstance(m, ast.FunctionDef) and m.name == "visit_Name"]
    if len(vn) != 1:
        raise TieBroken("SafetyAnalyzer.visit_Name not found")
    out.append(coq_strs("PY_DANGEROUS_NAMES", pick(in_tuples(vn[0], "visit_Name"), ["__builtins__"], "dangerous names"),
                        "SafetyAnalyzer.visit_Name: names flagged on any access"))
    out.append(coq_strs("PY_ESCAPE_ATTRS",
                        const_strs(_class_assign(py, "SafetyAnalyzer", "ESCAPE_ATTRS"), "ESCAPE_ATTRS"),
                        "cli/python.py SafetyAnalyzer.ESCAPE_ATTRS"))
    # _KNOWN_OPTIONS = frozenset({"-" + c for c in "<letters>"} | {<long options>})
    ko = module_assign(py, "_KNOWN_OPTIONS")
    try:
        u = ko.args[0]
        comp, longs = u.left, u.right
        assert isinstance(u.op, ast.BitOr) and isinstance(comp, ast.SetComp) and isinstance(longs, ast.Set)
        assert ast.unparse(comp.elt) == "'-' + c" and comp.generators[0].target.id == "c" and not comp.generators[0].ifs
        letters = comp.generators[0].iter.value
        assert isinstance(letters, str)
        known = ["-" + ch for ch in letters] + const_strs(longs, "_KNOWN_OPTIONS long")
    except (AssertionError, AttributeError, IndexError):
        raise TieBroken("_KNOWN_OPTIONS: not of the form frozenset({'-' + c for c in '...'} | {...})")
    out.append(coq_strs("PY_KNOWN_OPTIONS", known, "cli/python.py _KNOWN_OPTIONS"))
    out.append(coq_strs("PY_INFO_OPTIONS", const_strs(module_assign(py, "_INFO_OPTIONS"), "_INFO_OPTIONS"), "cli/python.py _INFO_OPTIONS"))
    swa = module_assign(py, "_SHORT_WITH_ARG")
    if not (isinstance(swa, ast.Constant) and isinstance(swa.value, str)):
        raise TieBroken("_SHORT_WITH_ARG: not a string literal")
    out.append(coq_strs("PY_SHORT_WITH_ARG", list(swa.value), "cli/python.py _SHORT_WITH_ARG, one entry per letter"))
    # literal tests of _scan_options and classify that the model writes out by hand
    so = ast.unparse(func(py, "_scan_options"))
    for needle in ("opt in 'cm'", "token == '--check-hash-based-pycs'", "token.startswith('--')", "token == '--'",
                   "not token.startswith('-') or token == '-'"):
        if needle not in so:
            raise TieBroken(f"_scan_options: expected fragment not found: {needle}")
    cl = ast.unparse(func(py, "classify"))
    for needle in ("mode == '-c'", "'-i' in seen or '-x' in seen", "mode == '-m'", "arg == 'calendar'",
                   "not seen <= _KNOWN_OPTIONS", "seen & _INFO_OPTIONS", "tokens[idx] == '-'",
                   "(cwd / 'calendar.py').exists()", "(cwd / 'calendar').is_dir()"):
        if needle not in cl:
            raise TieBroken(f"classify: expected fragment not found: {needle}")
    # ---- repairs 7bd370f / 6fb4634 / 1872043
    out.append(coq_strs("PY_IMPORTABLE_ENDINGS", const_strs(module_assign(py, "_IMPORTABLE_ENDINGS"), "_IMPORTABLE_ENDINGS"),
                        "cli/python.py _IMPORTABLE_ENDINGS"))
    # local_shadow consults sys.stdlib_module_names of the interpreter the hook runs under: the table is that of
    # the interpreter running this translator (/venv/bin/python, the one the harness imports dippy with)
    import sys
    names = getattr(sys, "stdlib_module_names", None)
    if names is None:
        raise TieBroken("sys.stdlib_module_names is missing (Python < 3.10): the model has no table for local_shadow's fallback")
    safe_roots = sorted({m.split(".")[0] for m in const_strs(module_assign(py, "SAFE_MODULES"), "SAFE_MODULES")})
    bad = [n for n in list(names) + safe_roots if not n.isidentifier() or "." in n]
    if bad:
        raise TieBroken(f"local_shadow: the model drops the isidentifier() test because every listed name passes it; these do not: {bad[:5]}")
    out.append(coq_strs("PY_STDLIB_MODULE_NAMES", sorted(names), "sys.stdlib_module_names of the analysing interpreter"))
    ls = ast.unparse(func(py, "local_shadow"))
    for needle in ("getattr(sys, 'stdlib_module_names', None)", "{m.split('.')[0] for m in SAFE_MODULES}", "sorted(base.iterdir())",
                   "entry.name.split('.')[0]", "name.isidentifier()", "known is not None and name not in known and (name not in safe_roots)",
                   "entry.name.endswith(_IMPORTABLE_ENDINGS) or ('.' not in entry.name and entry.is_dir())", "except OSError"):
        if needle not in ls:
            raise TieBroken(f"local_shadow: expected fragment not found: {needle}")
    wx = ast.unparse(func(py, "_writes_files_xoption"))
    for needle in ("enumerate(tokens[1:end], start=1)", "token.startswith('-') and (not token.startswith('--')) and ('X' in token)",
                   "token.split('X', 1)[1] or (tokens[i + 1] if i + 1 < len(tokens) else '')", "value.startswith(('pycache_prefix', 'perf'))"):
        if needle not in wx:
            raise TieBroken(f"_writes_files_xoption: expected fragment not found: {needle}")
    for needle in ("'-X' in seen and _writes_files_xoption(tokens, idx)", "tokens[idx].startswith('~') or any((c in tokens[idx] for c in '$`{*?['))",
                   "local_shadow(cwd) is None"):
        if needle not in cl:
            raise TieBroken(f"classify: expected fragment not found: {needle}")
    src = ast.unparse(func(py, "analyze_python_source"))
    if "shadow = local_shadow(base)" not in src or "if shadow is not None" not in src:
        raise TieBroken("analyze_python_source: the local_shadow(base) test is gone")
    # method names of the visitor: the model dispatches on exactly these kinds
    visits = sorted(m.name[6:] for m in cls[0].body if isinstance(m, ast.FunctionDef) and m.name.startswith("visit_"))
    out.append(coq_strs("PY_VISIT_METHODS", visits, "SafetyAnalyzer: node classes with a visit_ method"))
    return out
