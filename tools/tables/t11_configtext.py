"""Tables of the config-text model (C11, C14): the directive chain of parse_config read from its
AST (one row per rule directive: target list, decision constant, which helpers the branch calls),
the setting names of _apply_setting, and the interpreter's str.lower() outside ASCII."""
import ast

from gen_tables import *  # noqa: F401,F403


def _calls(node):
    out = set()
    for n in ast.walk(node):
        if isinstance(n, ast.Call) and isinstance(n.func, ast.Name):
            out.add(n.func.id)
    return out


def _chain(fn):
    """The if/elif chain on `directive == "<const>"` inside the per-line try block."""
    tries = [n for n in ast.walk(fn) if isinstance(n, ast.Try)]
    if len(tries) != 1:
        raise TieBroken("parse_config: expected exactly one try block")
    t = tries[0]
    hs = t.handlers
    if not (len(hs) == 1 and isinstance(hs[0].type, ast.Name) and hs[0].type.id == "ValueError"):
        raise TieBroken("parse_config: the per-line handler is not `except ValueError`")
    if len(t.body) != 1 or not isinstance(t.body[0], ast.If):
        raise TieBroken("parse_config: try body is not a single if/elif chain")
    node = t.body[0]
    rows = []
    while True:
        c = node.test
        ok = (isinstance(c, ast.Compare) and len(c.ops) == 1 and isinstance(c.ops[0], ast.Eq)
              and isinstance(c.left, ast.Name) and c.left.id == "directive"
              and isinstance(c.comparators[0], ast.Constant) and isinstance(c.comparators[0].value, str))
        if not ok:
            raise TieBroken("parse_config: a branch does not compare `directive` with a string constant")
        rows.append((c.comparators[0].value, node.body))
        if len(node.orelse) == 1 and isinstance(node.orelse[0], ast.If):
            node = node.orelse[0]
        else:
            if not (len(node.orelse) == 1 and isinstance(node.orelse[0], ast.Raise)):
                raise TieBroken("parse_config: final else is not a raise")
            break
    return rows


def _rule_row(name, body):
    """(name, list, decision, msg, anchor, tilde) of a rule branch, or None for alias/set."""
    appends = []
    for n in ast.walk(ast.Module(body=body, type_ignores=[])):
        if (isinstance(n, ast.Call) and isinstance(n.func, ast.Attribute) and n.func.attr == "append"
                and isinstance(n.func.value, ast.Name)):
            appends.append(n)
    if not appends:
        return None
    if len(appends) != 1:
        raise TieBroken(f"directive {name}: more than one append")
    ap = appends[0]
    rule = ap.args[0]
    if not (isinstance(rule, ast.Call) and getattr(rule.func, "id", None) == "Rule"
            and isinstance(rule.args[0], ast.Constant)):
        raise TieBroken(f"directive {name}: appended value is not Rule(<const>, ...)")
    # first statement must be `if not rest: raise ValueError`
    first = body[0]
    if not (isinstance(first, ast.If) and isinstance(first.test, ast.UnaryOp) and isinstance(first.test.op, ast.Not)
            and getattr(first.test.operand, "id", None) == "rest" and isinstance(first.body[0], ast.Raise)):
        raise TieBroken(f"directive {name}: no leading `if not rest: raise`")
    calls = _calls(ast.Module(body=body, type_ignores=[]))
    extra = calls - {"Rule", "ValueError", "_extract_message", "_strip_exact_anchor", "_expand_pattern_tildes"}
    if extra:
        raise TieBroken(f"directive {name}: unexpected calls {sorted(extra)}")
    kw = {k.arg for k in rule.keywords}
    msg = "_extract_message" in calls
    anchor = "_strip_exact_anchor" in calls
    if msg != ("message" in kw) or anchor != ("exact" in kw):
        raise TieBroken(f"directive {name}: helper calls and Rule keywords do not line up")
    return (name, ap.func.value.id, rule.args[0].value, msg, anchor, "_expand_pattern_tildes" in calls)


def build():
    out = []
    cfg = load("core/config.py")
    fn = func(cfg, "parse_config")
    # the loop splits on "\n" only
    splits = [n for n in ast.walk(fn) if isinstance(n, ast.Call) and isinstance(n.func, ast.Attribute)
              and n.func.attr in ("split", "splitlines") and isinstance(n.func.value, ast.Name)
              and n.func.value.id == "text"]
    if len(splits) != 1:
        raise TieBroken("parse_config: how the text is split into lines")
    sp = splits[0]
    if sp.func.attr == "split" and len(sp.args) == 1 and isinstance(sp.args[0], ast.Constant):
        sep = sp.args[0].value
    elif sp.func.attr == "splitlines" and not sp.args:
        sep = "<splitlines>"
    else:
        raise TieBroken("parse_config: unexpected line splitting call")
    out.append(f"(* parse_config: the separator the text is split on *)\nDefinition CFG_LINE_SEP : str := {coq_str(sep)}.\n")

    rows = _chain(fn)
    names = [r[0] for r in rows]
    if len(set(names)) != len(names):
        raise TieBroken("parse_config: a directive occurs twice in the chain")
    # the branches are mutually exclusive string comparisons: their order is immaterial, so the tables are sorted
    out.append("(* parse_config: directive names of the if/elif chain (sorted) *)\n"
               "Definition CFG_DIRECTIVES : list str :=\n  [" + "; ".join(coq_str(n) for n in sorted(names)) + "].\n")
    rr = sorted(x for x in (_rule_row(n, b) for n, b in rows) if x is not None)
    b = lambda v: "true" if v else "false"  # noqa: E731
    body = ";\n   ".join(f"({coq_str(n)}, {coq_str(l)}, {coq_str(d)}, {b(m)}, {b(a)}, {b(t)})" for n, l, d, m, a, t in rr)
    out.append("(* parse_config: rule directives, sorted by name - (name, target list, decision, calls _extract_message,\n"
               "   calls _strip_exact_anchor, calls _expand_pattern_tildes) *)\n"
               f"Definition CFG_RULE_DIRECTIVES : list (str * str * str * bool * bool * bool) :=\n  [{body}].\n")

    st = in_tuples(func(cfg, "_apply_setting"), "settings")
    out.append(coq_strs("CFG_BOOL_SETTINGS", pick(st, ["log_full"], "boolean settings"), "_apply_setting: boolean settings"))
    out.append(coq_strs("CFG_DEFAULT_VALUES", pick(st, ["allow", "ask"], "default values"), "_apply_setting: values of `set default`"))
    um = in_tuples(func(cfg, "_unescape"), "unescape")
    out.append(coq_strs("CFG_ESCAPABLE", pick(um, ['"', "\\"], "escapable"), "_unescape: characters a backslash escapes"))

    # interpreter table: str.lower().  ASCII is modelled directly (A-Z + 32); everything else by table.
    for c in range(128):
        exp = chr(c + 32) if 65 <= c <= 90 else chr(c)
        if chr(c).lower() != exp:
            raise TieBroken("str.lower() on ASCII is not A-Z -> a-z")
    ents = []
    for c in range(128, 0x110000):
        l = chr(c).lower()
        if l != chr(c):
            ents.append(f"({c}, [{';'.join(str(ord(x)) for x in l)}])")
    out.append("(* code points >= 128 whose str.lower() differs from the character itself (this interpreter);\n"
               "   context-free part only: U+03A3 maps to U+03C3, the word-final form U+03C2 is not modelled *)\n"
               "Definition PY_LOWER_NONASCII : list (N * list N) :=\n  [" + "; ".join(ents) + "].\n")
    return out
