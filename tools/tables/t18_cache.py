"""C18: the bound of the handler cache."""
from gen_tables import *  # noqa: F401,F403


def build():
    cli = load("cli/__init__.py")
    fn = func(cli, "_load_handler")
    size = None
    for d in fn.decorator_list:
        if isinstance(d, ast.Call) and getattr(d.func, "id", getattr(d.func, "attr", None)) == "lru_cache":
            for kw in d.keywords:
                if kw.arg == "maxsize" and isinstance(kw.value, ast.Constant) and isinstance(kw.value.value, int):
                    size = kw.value.value
            if d.args and isinstance(d.args[0], ast.Constant) and isinstance(d.args[0].value, int):
                size = d.args[0].value
    if size is None or size <= 0:
        raise TieBroken("_load_handler: lru_cache(maxsize=<positive int>) decorator not found")
    # the cache key must be the module name only
    if [a.arg for a in fn.args.args] != ["module_name"] or fn.args.kwonlyargs or fn.args.vararg or fn.args.kwarg:
        raise TieBroken("_load_handler: signature is no longer (module_name)")
    return ["(* cli/__init__.py _load_handler: functools.lru_cache(maxsize=...) *)\n"
            f"Definition LRU_MAXSIZE : nat := {size}%nat.\n"]


# ---------------------------------------------------------------------------------------------------------------
# Static inventory of the places where a process can keep something between two analyses.  Model/Cache.v lists what
# it expects (its four state components, nothing else); Proofs/CacheP.v state_tie compares.  A new functools cache,
# `global` statement, class-level container, mutable default argument, in-function write to a module-level table or
# write to another module's state makes the lists differ: the tie is broken until the model accounts for it.
MUTABLE_CALLS = {"list", "dict", "set", "bytearray", "defaultdict", "OrderedDict", "deque", "Counter", "ChainMap"}
MUTATORS = {"append", "add", "update", "setdefault", "pop", "popitem", "clear", "extend", "insert", "remove", "discard",
            "sort", "reverse", "appendleft", "popleft", "extendleft", "__setitem__", "__delitem__"}
CACHE_DECORATORS = {"lru_cache", "cache", "cached_property", "singledispatch", "singledispatchmethod"}
PROCESS_SETTERS = {("sys", "setrecursionlimit"), ("os", "chdir"), ("os", "umask"), ("os", "putenv"), ("os", "unsetenv"),
                   ("locale", "setlocale"), ("signal", "signal"), ("random", "seed"), ("warnings", "simplefilter"),
                   ("warnings", "filterwarnings"), ("logging", "basicConfig"), ("logging", "disable"), ("atexit", "register"),
                   ("sys", "settrace"), ("sys", "setprofile"), ("gc", "disable"), ("importlib", "reload")}


def _is_mutable_expr(v):
    if isinstance(v, (ast.List, ast.Dict, ast.Set, ast.ListComp, ast.DictComp, ast.SetComp)):
        return True
    if isinstance(v, ast.Call):
        name = getattr(v.func, "id", getattr(v.func, "attr", None))
        return name in MUTABLE_CALLS
    return False


def _decorator_name(d):
    if isinstance(d, ast.Call):
        d = d.func
    return getattr(d, "id", getattr(d, "attr", None))


def _inventory():
    inv = {"caches": [], "globals": [], "class_mutables": [], "mutable_defaults": [], "table_writes": [], "foreign_writes": [],
           "argument_writes": []}
    files = []
    for dp, dn, fn in os.walk(SRC):
        dn[:] = sorted(d for d in dn if d != "__pycache__")
        for f in sorted(fn):
            if f.endswith(".py"):
                files.append(os.path.relpath(os.path.join(dp, f), SRC))
    for rel in files:
        mod = load(rel)
        module_names, imported = set(), set()
        for n in mod.body:
            if isinstance(n, ast.Assign):
                for t in n.targets:
                    for x in ast.walk(t):
                        if isinstance(x, ast.Name):
                            module_names.add(x.id)
            elif isinstance(n, (ast.AnnAssign, ast.AugAssign)) and isinstance(n.target, ast.Name):
                module_names.add(n.target.id)
            elif isinstance(n, ast.Import):
                for a in n.names:
                    imported.add((a.asname or a.name).split(".")[0])
            elif isinstance(n, ast.ImportFrom):
                for a in n.names:
                    imported.add(a.asname or a.name)

        def visit(node, qual, fn_locals, fn_globals):
            for ch in ast.iter_child_nodes(node):
                if isinstance(ch, ast.ClassDef):
                    q = f"{qual}{ch.name}."
                    for st in ch.body:
                        tgt = val = None
                        if isinstance(st, ast.Assign) and len(st.targets) == 1 and isinstance(st.targets[0], ast.Name):
                            tgt, val = st.targets[0].id, st.value
                        elif isinstance(st, ast.AnnAssign) and isinstance(st.target, ast.Name) and st.value is not None:
                            tgt, val = st.target.id, st.value
                        if tgt and _is_mutable_expr(val):
                            inv["class_mutables"].append(f"{rel}:{q}{tgt}")
                    visit(ch, q, None, set())
                elif isinstance(ch, (ast.FunctionDef, ast.AsyncFunctionDef)):
                    q = f"{qual}{ch.name}"
                    for d in ch.decorator_list:
                        if _decorator_name(d) in CACHE_DECORATORS:
                            inv["caches"].append(f"{rel}:{q}")
                    a = ch.args
                    pos = a.posonlyargs + a.args
                    for arg, dv in list(zip(pos[len(pos) - len(a.defaults):], a.defaults)) + \
                            [(k, v) for k, v in zip(a.kwonlyargs, a.kw_defaults) if v is not None]:
                        if _is_mutable_expr(dv):
                            inv["mutable_defaults"].append(f"{rel}:{q}:{arg.arg}")
                    globs = set()
                    locs = {x.arg for x in pos + a.kwonlyargs} | ({a.vararg.arg} if a.vararg else set()) | ({a.kwarg.arg} if a.kwarg else set())
                    for x in ast.walk(ch):
                        if isinstance(x, ast.Global):
                            globs.update(x.names)
                            for nm in x.names:
                                inv["globals"].append(f"{rel}:{q}:{nm}")
                    params = set(locs) - {"self", "cls"}
                    stored = {x.id for x in ast.walk(ch) if isinstance(x, ast.Name) and isinstance(x.ctx, ast.Store)}
                    for x in ast.walk(ch):
                        if isinstance(x, ast.Name) and isinstance(x.ctx, ast.Store) and x.id not in globs:
                            locs.add(x.id)
                        elif isinstance(x, (ast.Import, ast.ImportFrom)):
                            for al in x.names:
                                locs.add((al.asname or al.name).split(".")[0])
                    for x in ast.walk(ch):
                        base = None
                        what = None
                        if isinstance(x, ast.Call) and isinstance(x.func, ast.Attribute):
                            r, chain = x.func.value, [x.func.attr]
                            while isinstance(r, (ast.Attribute, ast.Subscript)):
                                if isinstance(r, ast.Attribute):
                                    chain.insert(0, r.attr)
                                r = r.value
                            if not isinstance(r, ast.Name):
                                continue
                            base, what = r.id, ".".join(chain)
                            if len(chain) == 1 and (base, what) in PROCESS_SETTERS and base not in (locs - imported):
                                inv["foreign_writes"].append(f"{rel}:{q}:{base}.{what}()")
                                continue
                            if chain[-1] not in MUTATORS:
                                continue
                            if base in imported and base not in module_names and len(chain) == 1:
                                continue        # os.remove(path), shutil.move(...): a call into a module, not a write to its state
                        elif isinstance(x, (ast.Subscript, ast.Attribute)) and isinstance(x.ctx, (ast.Store, ast.Del)):
                            r = x.value
                            while isinstance(r, (ast.Subscript, ast.Attribute)):
                                r = r.value
                            if isinstance(r, ast.Name):
                                base = r.id
                                what = "[...]=" if isinstance(x, ast.Subscript) else "." + x.attr + "="
                        if base is not None and base in params and base not in stored and not rel.startswith("vendor"):
                            # the caller's object is changed (outside the vendored parser, whose builders pass accumulators around)
                            inv["argument_writes"].append(f"{rel}:{q}:{base}")
                        if base is None or base in locs:
                            continue
                        if base in module_names:
                            inv["table_writes"].append(f"{rel}:{q}:{base}{what if what.startswith(('.', '[')) else '.' + what + '()'}")
                        elif base in imported and base != "self":
                            inv["foreign_writes"].append(f"{rel}:{q}:{base}{what if what.startswith(('.', '[')) else '.' + what + '()'}")
                    visit(ch, q + ".", locs, globs)
                else:
                    visit(ch, qual, fn_locals, fn_globals)

        visit(mod, "", None, set())
    return inv


_build_lru = build


def build():
    out = _build_lru()
    inv = _inventory()
    for key, name, comment in (
            ("caches", "STATE_FUNCTOOLS_CACHES", "functions decorated with a functools cache, anywhere in src/dippy"),
            ("globals", "STATE_GLOBAL_STATEMENTS", "`global` statements: file:function:name"),
            ("class_mutables", "STATE_CLASS_MUTABLES", "class-level attributes bound to a list / dict / set / ... display or constructor"),
            ("mutable_defaults", "STATE_MUTABLE_DEFAULTS", "default-argument values that are mutable displays or constructors"),
            ("table_writes", "STATE_TABLE_WRITES", "in-function mutations of a module-level name (method call, item / attribute store)"),
            ("foreign_writes", "STATE_FOREIGN_WRITES", "in-function writes to another module's state (attribute / item stores on an imported name, process-level setters)"),
            ("argument_writes", "STATE_ARGUMENT_WRITES", "functions (outside vendor/) that change an object they were handed as a parameter: file:function:parameter")):
        out.append(coq_strs(name, inv[key], comment))
    return out
