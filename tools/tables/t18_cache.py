"""C18: the bound of the handler cache."""
from gen_tables import *  # noqa: F401,F403


def build():
    cli = load("cli/__init__.py")
    fn = func(cli, "_load_handler")
    size = None
    for d in fn.decorator_list:
        if isinstance(d, ast.Call) and getattr(d.func, "id", getattr(d.func, "attr", None)) == "lru_cache":
            for kw in d.keywords:
                if kw.arg == "maxsize" and isinstance(kw.value, ast.Constant) and isinstance(kw.value.value, int):
                    size = kw.value.value
            if d.args and isinstance(d.args[0], ast.Constant) and isinstance(d.args[0].value, int):
                size = d.args[0].value
    if size is None or size <= 0:
        raise TieBroken("_load_handler: lru_cache(maxsize=<positive int>) decorator not found")
    # the cache key must be the module name only
    if [a.arg for a in fn.args.args] != ["module_name"] or fn.args.kwonlyargs or fn.args.vararg or fn.args.kwarg:
        raise TieBroken("_load_handler: signature is no longer (module_name)")
    return ["(* cli/__init__.py _load_handler: functools.lru_cache(maxsize=...) *)\n"
            f"Definition LRU_MAXSIZE : nat := {size}%nat.\n"]
