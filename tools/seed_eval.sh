#!/bin/bash
# seed_eval.sh <seed worktree name under /tmp/seed> <property checks to run...>
# 1. confirm in the seed's own worktree: suite green with the change, demo fails with / passes without
# 2. apply the patch to /repo, run the checks, undo
id=$1; shift
W=/tmp/seed/$id
[ -f $W/SEED/patch.diff ] || { echo "no patch"; exit 2; }
DEMO=$(ls $W/SEED/demo.* | head -1)
rundemo() { case $DEMO in *.py) /venv/bin/python $DEMO $1;; *) bash $DEMO $1;; esac; }
echo "== suite with change:"; (cd $W && PYTHONPATH=$W/src /venv/bin/python -m pytest -q -p no:cacheprovider --timeout=900 2>&1 | tail -1)
echo "== demo with change (expect non-zero):"; rundemo $W >/tmp/seed/$id.demo_with 2>&1; echo "exit=$?"
echo "== demo on unchanged /repo (expect 0):"; rundemo /repo >/tmp/seed/$id.demo_without 2>&1; echo "exit=$?"
# the checks are pointed at the seed's own worktree (the change is applied there) through DIPPY_REPO:
# equivalent to `git -C /repo apply` + undo, but does not disturb other work that reads /repo meanwhile
for p in "$@"; do
  cd /verif && DIPPY_REPO=$W ./check $p > /tmp/seed/$id.$p.out 2>&1; rc=$?
  echo "== check $p exit=$rc  $(grep -c '^VIOLATION' /tmp/seed/$id.$p.out) VIOLATION lines; $(grep '^VIOLATION' /tmp/seed/$id.$p.out | head -2 | tr '\n' ' ')"
done
