#!/bin/bash
# seed_eval.sh <seed worktree name under /tmp/seed> <property checks to run...>
# 1. confirm in the seed's own worktree: suite green with the change, demo fails with / passes without
# 2. run the checks against that worktree (DIPPY_REPO) from a private copy of /verif, so that neither
#    /verif/evidence nor the shared build directory is touched by a run on a changed tree
id=$1; shift
W=/tmp/seed/$id
[ -f $W/SEED/patch.diff ] || { echo "no patch"; exit 2; }
DEMO=$(ls $W/SEED/demo.* | head -1)
rundemo() { case $DEMO in *.py) /venv/bin/python $DEMO $1;; *) bash $DEMO $1;; esac; }
echo "== suite with change:"; (cd $W && PYTHONPATH=$W/src /venv/bin/python -m pytest -q -p no:cacheprovider --timeout=900 2>&1 | tail -1)
echo "== demo with change (expect non-zero):"; rundemo $W >/tmp/seed/$id.demo_with 2>&1; echo "exit=$?"
echo "== demo on unchanged /repo (expect 0):"; rundemo /repo >/tmp/seed/$id.demo_without 2>&1; echo "exit=$?"
V=/tmp/seedev/v.$id; rm -rf $V; mkdir -p $V; rsync -a --exclude .git --exclude replays /verif/ $V/
for p in "$@"; do
  (cd $V && DIPPY_REPO=$W ./check $p) > /tmp/seed/$id.$p.out 2>&1; rc=$?
  echo "== check $p exit=$rc  $(grep -c '^VIOLATION' /tmp/seed/$id.$p.out) VIOLATION lines, $(grep -c 'no-failing-input-found' /tmp/seed/$id.$p.out) without input; $(grep '^VIOLATION' /tmp/seed/$id.$p.out | head -2 | tr '\n' ' ')"
done
mkdir -p /verif/replays/seeded/$id; cp $V/replays/*.json /verif/replays/seeded/$id/ 2>/dev/null
rm -rf $V
