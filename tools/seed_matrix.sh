#!/bin/bash
# seed_matrix.sh [-j N] [seed ...]
# Replays every recorded seeded change (seeded/<id>/patch.diff) against /repo's current HEAD:
# a scratch worktree per seed under $SCRATCH (default /tmp/seedmx), the patch applied there, the seed's own
# demonstration run (must fail with the change), then the property's quick check with DIPPY_REPO pointing at
# the scratch tree, run from a private copy of /verif.  Worktree and copy are removed afterwards.  /repo itself is never touched.
# Output: one line per seed and seeded/MATRIX.json.
J=4
[ "$1" = "-j" ] && { J=$2; shift 2; }
cd /verif
SCRATCH=${SCRATCH:-/tmp/seedmx}
mkdir -p $SCRATCH
seeds=${@:-$(ls seeded | grep -v MATRIX)}
one() {
  id=$1; W=$SCRATCH/$id; S=/verif/seeded/$id
  prop=$(python3 -c "import json;print(json.load(open('$S/meta.json'))['property'])")
  checks=$(python3 -c "import json;m=json.load(open('$S/meta.json'));print(' '.join(m.get('confirmed_by_lead',{}).get('detected_by') or [m['property']]))")
  git -C /repo worktree remove --force $W >/dev/null 2>&1
  git -C /repo worktree add --detach $W HEAD >/dev/null 2>&1 || { echo "$id worktree-failed"; return; }
  if ! git -C $W apply $S/patch.diff 2>/dev/null && ! git -C $W apply --3way $S/patch.diff >/dev/null 2>&1; then
    echo "{\"seed\":\"$id\",\"property\":\"$prop\",\"applies\":false}" > $SCRATCH/$id.json
    echo "$id patch does not apply on HEAD"; git -C /repo worktree remove --force $W; return
  fi
  DEMO=$(ls $S/demo.* | head -1)
  case $DEMO in *.py) /venv/bin/python $DEMO $W >/dev/null 2>&1;; *) bash $DEMO $W >/dev/null 2>&1;; esac; drc=$?
  res=""
  # a private copy of the machinery (with its compiled files, so the rebuild is incremental): the run neither
  # overwrites /verif/evidence nor shares a build directory with a run on another tree
  V=$SCRATCH/v.$id; rm -rf $V; mkdir -p $V; rsync -a --exclude .git --exclude replays /verif/ $V/
  for p in $checks; do
    (cd $V && DIPPY_REPO=$W ./check $p) > $SCRATCH/$id.$p.out 2>&1; rc=$?
    nv=$(grep -c '^VIOLATION' $SCRATCH/$id.$p.out); nf=$(grep -c 'no-failing-input-found' $SCRATCH/$id.$p.out)
    res="$res{\"check\":\"$p\",\"exit\":$rc,\"violation_lines\":$nv,\"without_input\":$nf},"
  done
  echo "{\"seed\":\"$id\",\"property\":\"$prop\",\"applies\":true,\"demo_exit\":$drc,\"checks\":[${res%,}]}" > $SCRATCH/$id.json
  echo "$id demo_exit=$drc ${res%,}"
  git -C /repo worktree remove --force $W
  mkdir -p /verif/replays/seeded/$id; cp $V/replays/*.json /verif/replays/seeded/$id/ 2>/dev/null
  rm -rf $V
}
export -f one; export SCRATCH
echo $seeds | tr ' ' '\n' | xargs -P $J -I{} bash -c 'one {}'
python3 - <<EOF
import json,glob,subprocess
rows=[json.load(open(f)) for f in sorted(glob.glob("$SCRATCH/C*.json"))]
head=subprocess.run(["git","-C","/repo","rev-parse","--short","HEAD"],capture_output=True,text=True).stdout.strip()
vh=subprocess.run(["git","-C","/verif","rev-parse","--short","HEAD"],capture_output=True,text=True).stdout.strip()
json.dump({"repo_head":head,"verif_head":vh,"rows":rows},open("/verif/seeded/MATRIX.json","w"),indent=1)
print(len(rows),"rows written to seeded/MATRIX.json")
EOF
