#!/usr/bin/env python3
"""Fail-closed translator: literal tables of /repo's sources -> coq/Gen/Tables.v.

Reads the working tree of the repository with Python's ast module (nothing is
imported or executed from it, except the interpreter's own str predicates for
the two "runtime" tables).  If a table is not found in the expected syntactic
form the translator exits non-zero and names the table: the tie is broken.
"""
from __future__ import annotations

import ast
import os
import sys

REPO = os.environ.get("DIPPY_REPO", "/repo")
SRC = os.path.join(REPO, "src", "dippy")


class TieBroken(Exception):
    pass


def load(rel):
    p = os.path.join(SRC, rel)
    with open(p, encoding="utf-8") as f:
        return ast.parse(f.read(), p)


def const_strs(node, what):
    """A literal collection of string constants (set/list/tuple/frozenset({..}))."""
    if isinstance(node, ast.Call) and getattr(node.func, "id", None) in ("frozenset", "set", "tuple", "list"):
        if len(node.args) != 1:
            raise TieBroken(f"{what}: unexpected call shape")
        node = node.args[0]
    if isinstance(node, ast.BinOp) and isinstance(node.op, ast.Add):
        return const_strs(node.left, what) + const_strs(node.right, what)
    if isinstance(node, ast.ListComp):
        # [f"python3.{v}" for v in range(a, b)]
        try:
            gen = node.generators[0]
            a, b = [ast.literal_eval(x) for x in gen.iter.args]
            var = gen.target.id
            out = []
            for v in range(a, b):
                parts = []
                for piece in node.elt.values:
                    if isinstance(piece, ast.Constant):
                        parts.append(piece.value)
                    elif isinstance(piece, ast.FormattedValue) and piece.value.id == var:
                        parts.append(str(v))
                    else:
                        raise ValueError
                out.append("".join(parts))
            return out
        except Exception:
            raise TieBroken(f"{what}: unsupported comprehension")
    if not isinstance(node, (ast.Set, ast.List, ast.Tuple)):
        raise TieBroken(f"{what}: not a literal collection ({type(node).__name__})")
    out = []
    for e in node.elts:
        if not (isinstance(e, ast.Constant) and isinstance(e.value, str)):
            raise TieBroken(f"{what}: non-string element")
        out.append(e.value)
    return out


def module_assign(mod, name, what=None):
    for n in mod.body:
        tgt = None
        if isinstance(n, ast.Assign) and len(n.targets) == 1 and isinstance(n.targets[0], ast.Name):
            tgt, val = n.targets[0].id, n.value
        elif isinstance(n, ast.AnnAssign) and isinstance(n.target, ast.Name) and n.value is not None:
            tgt, val = n.target.id, n.value
        if tgt == name:
            return val
    raise TieBroken(f"{what or name}: module-level assignment not found")


def func(mod, name):
    for n in ast.walk(mod):
        if isinstance(n, (ast.FunctionDef,)) and n.name == name:
            return n
    raise TieBroken(f"function {name} not found")


def in_tuples(fn, what):
    """All `X in (<str consts>)` / `X not in (...)` comparator tuples inside a function, in source order."""
    out = []
    for n in ast.walk(fn):
        if isinstance(n, ast.Compare) and len(n.ops) == 1 and isinstance(n.ops[0], (ast.In, ast.NotIn)):
            c = n.comparators[0]
            if isinstance(c, (ast.Tuple, ast.Set, ast.List)) and all(
                isinstance(e, ast.Constant) and isinstance(e.value, str) for e in c.elts
            ):
                out.append((n.lineno, n.col_offset, [e.value for e in c.elts]))
    out.sort()
    return [x[2] for x in out]


def pick(tuples, must_contain, what):
    """The unique tuple containing all of must_contain."""
    hits = [t for t in tuples if all(m in t for m in must_contain)]
    uniq = []
    for h in hits:
        if h not in uniq:
            uniq.append(h)
    if len(uniq) != 1:
        raise TieBroken(f"{what}: expected exactly one literal tuple containing {must_contain}, found {len(uniq)}")
    return uniq[0]


def coq_str(s: str) -> str:
    if all(32 <= ord(c) < 127 for c in s):
        return '$"' + s.replace('"', '""') + '"'
    return "[" + ";".join(str(ord(c)) for c in s) + "]"


def coq_strs(name, items, comment):
    items = sorted(set(items))
    body = ";\n   ".join(coq_str(s) for s in items)
    return f"(* {comment} *)\nDefinition {name} : list str :=\n  [{body}].\n"


def ranges(pred):
    out = []
    start = None
    for c in range(0x110000):
        if pred(chr(c)):
            if start is None:
                start = c
        elif start is not None:
            out.append((start, c - 1))
            start = None
    if start is not None:
        out.append((start, 0x10FFFF))
    return out


def coq_ranges(name, rs, comment):
    body = "; ".join(f"({a},{b})" for a, b in rs)
    return f"(* {comment} *)\nDefinition {name} : list (N * N) :=\n  [{body}].\n"


PLUGIN_PROPERTIES = {
    # which properties depend on which plugin's tables (None = all)
    "t00_core.py": ["C01", "C02", "C03", "C04", "C05", "C06", "C07", "C08", "C12", "C13", "C14", "C19"],
    "t04_wrappers.py": ["C04", "C13"],
    "t06_hookkeys.py": ["C06", "C12", "C19"],
    "t11_configtext.py": ["C11", "C14"],
    "t15_logging.py": ["C15"],
    "t16_sql.py": ["C16"],
    "t17_python.py": ["C17"],
    "t18_cache.py": ["C18"],
    "t20_statusline.py": ["C20"],
}


def build(write_baseline=False):
    """Concatenate the tables produced by every module in tools/tables/ (sorted by name).

    A plugin that fails (its tie to the source is broken) does not stop the others: its last
    committed output (coq/Gen/baseline/<plugin>.txt) is used instead so that the rest of the
    development still builds, and the failure is returned so that the checks of the properties
    that depend on that plugin report the broken tie.  Returns (text, {plugin: error})."""
    import importlib.util

    out = [
        "(* GENERATED by tools/gen_tables.py from the working tree of the repository - do not edit. *)",
        "From DippyV Require Import Base.Str.",
        "",
    ]
    broken = {}
    here = os.path.dirname(os.path.abspath(__file__))
    basedir = os.path.join(here, "..", "coq", "Gen", "baseline")
    sys.modules.setdefault("gen_tables", sys.modules[__name__])
    for name in sorted(os.listdir(os.path.join(here, "tables"))):
        if not name.endswith(".py"):
            continue
        bfile = os.path.join(basedir, name[:-3] + ".txt")
        try:
            spec = importlib.util.spec_from_file_location("tables_" + name[:-3], os.path.join(here, "tables", name))
            mod = importlib.util.module_from_spec(spec)
            spec.loader.exec_module(mod)
            section = "\n".join(mod.build())
            if write_baseline:
                os.makedirs(basedir, exist_ok=True)
                with open(bfile, "w", encoding="utf-8") as f:
                    f.write(section)
        except (TieBroken, OSError, SyntaxError, KeyError, IndexError, AttributeError, ValueError, TypeError) as e:
            broken[name] = f"{type(e).__name__}: {e}"
            if os.path.exists(bfile):
                with open(bfile, encoding="utf-8") as f:
                    section = f"(* TIE BROKEN ({name}): baseline text used so that other properties still build *)\n" + f.read()
            else:
                section = f"(* TIE BROKEN ({name}) and no baseline available *)"
        out.append(f"(* ---- tools/tables/{name} ---- *)")
        out.append(section)
    return "\n".join(out), broken


def main():
    import json

    args = [a for a in sys.argv[1:] if not a.startswith("--")]
    write_baseline = "--write-baseline" in sys.argv
    dest = args[0] if args else os.path.join(os.path.dirname(__file__), "..", "coq", "Gen", "Tables.v")
    text, broken = build(write_baseline)
    old = None
    if os.path.exists(dest):
        with open(dest, encoding="utf-8") as f:
            old = f.read()
    if old != text:
        os.makedirs(os.path.dirname(dest), exist_ok=True)
        with open(dest, "w", encoding="utf-8") as f:
            f.write(text)
        print("gen_tables: updated", dest)
    status = {"broken": broken,
              "properties": sorted({p for n in broken for p in (PLUGIN_PROPERTIES.get(n) or ["*"])})}
    print("GEN_TABLES_STATUS " + json.dumps(status))
    for n, e in broken.items():
        print(f"TIE-BROKEN gen_tables plugin {n}: {e}", file=sys.stderr)
    return 0


if __name__ == "__main__":
    sys.exit(main())
