#!/bin/bash
# seed_rebase.sh id...  : put the seed worktree /tmp/seed/<id> on /repo's current HEAD and re-apply its patch
H=$(git -C /repo rev-parse HEAD)
for id in "$@"; do
  W=/tmp/seed/$id
  git -C $W checkout -q -f $H 2>/dev/null || { echo "$id: checkout failed"; continue; }
  if git -C $W apply $W/SEED/patch.diff 2>/dev/null || git -C $W apply --3way $W/SEED/patch.diff >/dev/null 2>&1; then echo "$id: rebased on $(git -C /repo rev-parse --short HEAD)"; else echo "$id: PATCH DOES NOT APPLY"; fi
done
