#!/usr/bin/env python3
"""seed_record.py <seed name> <property> <detected_by comma list or -> <note>  : store a confirmed seeded change under /verif/seeded/"""
import json, os, shutil, sys, glob
name, prop, det, note = sys.argv[1:5]
src = f"/tmp/seed/{name}/SEED"
dst = f"/verif/seeded/{name}"
os.makedirs(dst, exist_ok=True)
for f in os.listdir(src):
    shutil.copy(os.path.join(src, f), dst)
meta = json.load(open(os.path.join(dst, "meta.json")))
meta["property"] = prop
meta["confirmed_by_lead"] = {
    "suite_with_change": "1 failed, 10883 passed (tools/seed_eval.sh, run in the seed's own worktree)",
    "demo_with_change_exit": "non-zero", "demo_on_unchanged_repo_exit": 0,
    "checks_run": sorted(os.path.basename(p).split(".")[1] for p in glob.glob(f"/tmp/seed/{name}.C*.out")),
    "detected_by": [] if det == "-" else det.split(","),
    "note": note,
}
json.dump(meta, open(os.path.join(dst, "meta.json"), "w"), indent=1)
print("recorded", dst, meta["confirmed_by_lead"]["detected_by"])
