#!/bin/bash
# run_all.sh [quick|thorough] [-j N]  : every registered check on the current /repo, then validate evidence + manifest
tier=${1:-quick}; J=${3:-4}
cd /verif
./setup.sh >/tmp/run_all.setup.log 2>&1 || { echo "setup failed"; tail -5 /tmp/run_all.setup.log; exit 2; }
ids=$(python3 -c "import json;print(' '.join(c['property_id'] for c in json.load(open('MANIFEST.json'))['checks']))")
echo $ids | tr ' ' '\n' | xargs -P $J -I{} bash -c "./check {} --tier $tier > /tmp/run_all.{}.log 2>&1; echo \"{} exit=\$? \$(grep -c '^VIOLATION' /tmp/run_all.{}.log) VIOLATION lines; \$(grep -c '^KNOWN-FINDING' /tmp/run_all.{}.log) known; \$(tail -1 /tmp/run_all.{}.log | cut -c1-160)\""
python3-vt - <<'PY'
import json,jsonschema,glob
sch=json.load(open('/root/.vp/EVIDENCE.schema.json'))
bad=0
for f in sorted(glob.glob('/verif/evidence/*.json')):
    try: jsonschema.validate(json.load(open(f)),sch)
    except Exception as e: bad+=1; print(f,'INVALID',str(e)[:160])
jsonschema.validate(json.load(open('/verif/MANIFEST.json')),json.load(open('/root/.vp/MANIFEST.schema.json')))
print('evidence files invalid:',bad,'; manifest valid')
PY
