#!/bin/sh
# run the pinned test suite against a tree (default /repo); prints summary line
TREE=${1:-/repo}
cd "$TREE" && PYTHONPATH="$TREE/src" /venv/bin/python -m pytest -q -p no:cacheprovider --timeout=900 2>&1 | tail -4
