#!/usr/bin/env python3
"""Mutation adequacy of the checks (a self-test of the machinery, not a check of /repo).

    mutate.py gen  <src-relative file> [--funcs a,b] [--max N]     list the mutants of one source file
    mutate.py run  <src-relative file> --checks C03,C05 [-j 12] [--funcs a,b] [--only ids] [--out file.json]

For every mutant of the file (one syntactic change: comparison / boolean / constant / slice / membership
element / statement deletion / early return / variable swap / keyword dropped ...):
  1. the given checks are run (quick tier, DIPPY_REPO = the scratch tree, from a worker-private copy of /verif);
     the mutant is KILLED when one of them exits non-zero;
  2. a mutant no check kills is run through the pinned test suite (scratch copy of /repo with the mutant applied):
     one the suite kills is not a "realistic change that passes the existing tests" and is dropped, the others
     SURVIVE.  (--suite first runs the suite before the checks, --suite never skips it.)
Survivors are either equivalent (no observable change of any verdict) or show a gap in the generators.
Everything lives under $MUT_SCRATCH (default /tmp/mut) and is removed at the end; /repo is never touched."""
from __future__ import annotations

import argparse
import ast
import copy
import json
import os
import shutil
import subprocess
import sys
import time
from concurrent.futures import ThreadPoolExecutor

VERIF = os.path.dirname(os.path.dirname(os.path.abspath(__file__)))
REPO = os.environ.get("DIPPY_REPO", "/repo")
SCRATCH = os.environ.get("MUT_SCRATCH", "/tmp/mut")
PY = "/venv/bin/python"

CMP = {ast.Eq: ast.NotEq, ast.NotEq: ast.Eq, ast.Lt: ast.LtE, ast.LtE: ast.Lt, ast.Gt: ast.GtE, ast.GtE: ast.Gt,
       ast.In: ast.NotIn, ast.NotIn: ast.In, ast.Is: ast.IsNot, ast.IsNot: ast.Is}


class Site:
    def __init__(self, path, op, desc, lineno, func):
        self.path, self.op, self.desc, self.lineno, self.func = path, op, desc, lineno, func


def node_at(tree, path):
    n = tree
    for field, idx in path:
        n = getattr(n, field)
        if idx is not None:
            n = n[idx]
    return n


def set_at(tree, path, new):
    parent = node_at(tree, path[:-1])
    field, idx = path[-1]
    if idx is None:
        setattr(parent, field, new)
    else:
        getattr(parent, field)[idx] = new


def del_at(tree, path):
    parent = node_at(tree, path[:-1])
    field, idx = path[-1]
    lst = getattr(parent, field)
    del lst[idx]
    if not lst and field in ("body",):
        lst.append(ast.Pass())


def walk(node, path, func, out_nodes):
    out_nodes.append((node, path, func))
    f2 = node.name if isinstance(node, (ast.FunctionDef, ast.AsyncFunctionDef)) else func
    for field, value in ast.iter_fields(node):
        if isinstance(value, list):
            for i, v in enumerate(value):
                if isinstance(v, ast.AST):
                    walk(v, path + [(field, i)], f2, out_nodes)
        elif isinstance(value, ast.AST):
            walk(value, path + [(field, None)], f2, out_nodes)


def local_names(fn):
    names = {a.arg for a in fn.args.args + fn.args.kwonlyargs}
    for n in ast.walk(fn):
        if isinstance(n, ast.Name) and isinstance(n.ctx, ast.Store):
            names.add(n.id)
    return names


def similar(a, b):
    """variable swaps only between names that look related (cwd/body_cwd, i/j, start/end ...)."""
    if a == b:
        return False
    pa, pb = set(a.lower().split("_")), set(b.lower().split("_"))
    if pa & pb:
        return True
    groups = [{"i", "j", "k", "idx", "pos", "start", "end", "base_idx"}, {"words", "tokens", "args", "rest", "inner"},
              {"word", "token", "arg", "tok", "t", "w"}, {"node", "child", "part", "cmd", "target"}]
    return any(a in g and b in g for g in groups)


def mutants(src, funcs=None):
    """yield (Site, mutated source)"""
    tree = ast.parse(src)
    nodes = []
    walk(tree, [], None, nodes)
    fn_locals = {}
    for n in ast.walk(tree):
        if isinstance(n, (ast.FunctionDef, ast.AsyncFunctionDef)):
            fn_locals[n.name] = local_names(n)
    seen = set()

    def emit(path, op, desc, lineno, func, change):
        t = copy.deepcopy(tree)
        try:
            change(t)
            text = ast.unparse(t)
            compile(text, "<mutant>", "exec")
        except Exception:
            return None
        if text in seen:
            return None
        seen.add(text)
        return Site(path, op, desc, lineno, func), text

    for node, path, func in nodes:
        if funcs and func not in funcs:
            continue
        if func is None and not isinstance(node, (ast.Assign, ast.Tuple, ast.Set, ast.List, ast.Constant, ast.Call)):
            continue
        ln = getattr(node, "lineno", 0)
        res = []
        if isinstance(node, ast.Compare):
            for i, op in enumerate(node.ops):
                if type(op) in CMP:
                    def ch(t, i=i, new=CMP[type(op)]):
                        node_at(t, path).ops[i] = new()
                    res.append(("cmp", f"{type(op).__name__}->{CMP[type(op)].__name__}", ch))
        if isinstance(node, ast.BoolOp):
            def ch(t):
                n = node_at(t, path)
                n.op = ast.Or() if isinstance(n.op, ast.And) else ast.And()
            res.append(("bool", "and<->or", ch))
            for i in range(len(node.values)):
                def ch(t, i=i):
                    n = node_at(t, path)
                    del n.values[i]
                    if len(n.values) == 1:
                        set_at(t, path, n.values[0])
                res.append(("bool-drop", f"drop operand {i + 1}", ch))
        if isinstance(node, (ast.If, ast.While)) or isinstance(node, ast.IfExp):
            def ch(t):
                n = node_at(t, path)
                n.test = ast.UnaryOp(op=ast.Not(), operand=n.test)
            res.append(("negate", "negate condition", ch))
        if isinstance(node, ast.UnaryOp) and isinstance(node.op, ast.Not):
            def ch(t):
                set_at(t, path, node_at(t, path).operand)
            res.append(("not-drop", "drop not", ch))
        if isinstance(node, ast.Constant) and isinstance(node.value, bool):
            def ch(t):
                n = node_at(t, path)
                n.value = not n.value
            res.append(("const", f"{node.value}->{not node.value}", ch))
        elif isinstance(node, ast.Constant) and isinstance(node.value, int) and path and path[-1][0] != "value":
            for d in (1, -1):
                def ch(t, d=d):
                    node_at(t, path).value += d
                res.append(("const", f"{node.value}->{node.value + d}", ch))
        if isinstance(node, (ast.Tuple, ast.Set, ast.List)) and len(node.elts) >= 2 and all(isinstance(e, ast.Constant) for e in node.elts) \
                and isinstance(getattr(node, "ctx", ast.Load()), ast.Load):
            for i, e in enumerate(node.elts[:12]):
                def ch(t, i=i):
                    del node_at(t, path).elts[i]
                res.append(("elt-drop", f"drop element {e.value!r}", ch))
        if isinstance(node, ast.Slice):
            for fld in ("lower", "upper"):
                v = getattr(node, fld)
                if v is None:
                    continue
                def ch(t, fld=fld):
                    n = node_at(t, path)
                    setattr(n, fld, ast.BinOp(left=getattr(n, fld), op=ast.Add(), right=ast.Constant(1)))
                res.append(("slice", f"{fld}+1", ch))
                def ch2(t, fld=fld):
                    setattr(node_at(t, path), fld, None)
                res.append(("slice", f"drop {fld}", ch2))
        if isinstance(node, ast.BinOp) and isinstance(node.op, (ast.Add, ast.Sub)) and isinstance(node.right, ast.Constant) and isinstance(node.right.value, int):
            def ch(t):
                n = node_at(t, path)
                n.op = ast.Sub() if isinstance(n.op, ast.Add) else ast.Add()
            res.append(("arith", "+<->-", ch))
        if isinstance(node, ast.Call):
            if isinstance(node.func, ast.Name) and node.func.id in ("any", "all"):
                def ch(t):
                    n = node_at(t, path)
                    n.func.id = "all" if n.func.id == "any" else "any"
                res.append(("anyall", "any<->all", ch))
            for i, kw in enumerate(node.keywords):
                if kw.arg:
                    def ch(t, i=i):
                        del node_at(t, path).keywords[i]
                    res.append(("kw-drop", f"drop keyword {kw.arg}", ch))
            if isinstance(node.func, ast.Attribute) and node.func.attr in ("startswith", "endswith"):
                def ch(t):
                    n = node_at(t, path)
                    n.func.attr = "endswith" if n.func.attr == "startswith" else "startswith"
                res.append(("affix", "startswith<->endswith", ch))
        if path and path[-1][1] is not None and path[-1][0] in ("body", "orelse") and func is not None:
            if isinstance(node, ast.Expr) and isinstance(node.value, ast.Call):
                res.append(("stmt-del", "delete call statement", lambda t: del_at(t, path)))
            if isinstance(node, (ast.Continue, ast.Break)):
                def ch(t):
                    set_at(t, path, ast.Pass())
                res.append(("stmt-del", f"{type(node).__name__.lower()}->pass", ch))
            if isinstance(node, ast.If) and not node.orelse:
                res.append(("stmt-del", "delete if block", lambda t: del_at(t, path)))
            if isinstance(node, ast.If) and node.orelse:
                def ch(t):
                    node_at(t, path).orelse = []
                res.append(("stmt-del", "delete else branch", ch))
            if isinstance(node, (ast.Assign, ast.AugAssign)) and not isinstance(getattr(node, "value", None), ast.Constant):
                if isinstance(node, ast.AugAssign):
                    res.append(("stmt-del", "delete augmented assignment", lambda t: del_at(t, path)))
            if isinstance(node, ast.Return) and node.value is not None and not isinstance(node.value, ast.Constant):
                pass
        if isinstance(node, ast.Name) and isinstance(node.ctx, ast.Load) and func in fn_locals:
            for other in sorted(fn_locals[func]):
                if similar(node.id, other):
                    def ch(t, other=other):
                        node_at(t, path).id = other
                    res.append(("var-swap", f"{node.id}->{other}", ch))
        for op, desc, change in res:
            m = emit(path, op, desc, ln, func, change)
            if m:
                yield m


# ---------------------------------------------------------------------------------------------- running
def sh(cmd, **kw):
    return subprocess.run(cmd, stdout=subprocess.PIPE, stderr=subprocess.STDOUT, text=True, **kw)


def prepare_worker(w):
    """a private copy of /verif and of /repo (src, bin, tests, config files) per worker"""
    wd = os.path.join(SCRATCH, f"w{w}")
    shutil.rmtree(wd, ignore_errors=True)
    os.makedirs(wd)
    sh(["rsync", "-a", "--exclude", ".git", "--exclude", "replays", VERIF + "/", os.path.join(wd, "verif") + "/"])
    sh(["rsync", "-a", "--exclude", ".git", "--exclude", "__pycache__", "--exclude", ".pytest_cache", REPO + "/", os.path.join(wd, "repo") + "/"])
    return wd


def run_one(wd, rel, text, original, checks, skip_suite):
    tree = os.path.join(wd, "repo")
    target = os.path.join(tree, "src", rel)
    res = {"suite": None, "killed_by": None, "checks": {}}
    with open(target, "w") as f:
        f.write(text)
    def suite():
        r = sh([PY, "-m", "pytest", "-q", "-x", "-p", "no:cacheprovider", "--timeout=900", "-o", "addopts=", "-n", "3", "--deselect",
                    "tests/test_config.py::TestLoadConfig::test_unreadable_user_config"], cwd=tree, env={**os.environ, "PYTHONPATH": os.path.join(tree, "src")}, timeout=1800)
        res["suite"] = "pass" if r.returncode == 0 else "fail"
        return r.returncode == 0

    try:
        if skip_suite == "first" and not suite():
            return res
        for c in checks:
            t0 = time.time()
            try:
                r = sh(["./check", c], cwd=os.path.join(wd, "verif"), env={**os.environ, "DIPPY_REPO": tree}, timeout=1500)
                rc = r.returncode
                tail = [l for l in r.stdout.splitlines() if l.startswith(("VIOLATION", "[check]"))][-3:]
            except subprocess.TimeoutExpired:
                rc, tail = 124, ["timeout"]
            res["checks"][c] = {"exit": rc, "seconds": round(time.time() - t0, 1), "tail": tail}
            if rc != 0:
                res["killed_by"] = c
                break
        if skip_suite == "last" and res["killed_by"] is None:
            suite()  # only survivors are worth the suite's time: one it kills was never a realistic change
    finally:
        with open(target, "w") as f:
            f.write(original)
        shutil.rmtree(os.path.join(wd, "verif", "replays"), ignore_errors=True)
    return res


def main():
    ap = argparse.ArgumentParser()
    ap.add_argument("mode", choices=["gen", "run"])
    ap.add_argument("file")
    ap.add_argument("--funcs")
    ap.add_argument("--checks", default="")
    ap.add_argument("--only")
    ap.add_argument("--ops")
    ap.add_argument("--max", type=int, default=0)
    ap.add_argument("-j", type=int, default=12)
    ap.add_argument("--out")
    ap.add_argument("--suite", choices=["first", "last", "never"], default="last",
                    help="run the pinned suite before the checks, only on mutants the checks do not kill (default), or never")
    args = ap.parse_args()
    path = os.path.join(REPO, "src", args.file)
    original = open(path).read()
    funcs = set(args.funcs.split(",")) if args.funcs else None
    ms = list(mutants(original, funcs))
    if args.ops:
        ms = [m for m in ms if m[0].op in args.ops.split(",")]
    for i, (s, _) in enumerate(ms):
        s.id = i
    if args.only:
        keep = {int(x) for x in args.only.split(",")}
        ms = [m for m in ms if m[0].id in keep]
    if args.max:
        step = max(1, len(ms) // args.max)
        ms = ms[::step][:args.max]
    if args.mode == "gen":
        for s, _ in ms:
            print(f"{s.id:5d} line {s.lineno:4d} {s.func or '<module>':32s} {s.op:10s} {s.desc}")
        print(len(ms), "mutants")
        return
    checks = [c for c in args.checks.split(",") if c]
    os.makedirs(SCRATCH, exist_ok=True)
    workers = [prepare_worker(w) for w in range(args.j)]
    free = list(workers)
    results = []
    t0 = time.time()

    def job(m):
        s, text = m
        wd = free.pop()
        try:
            r = run_one(wd, args.file, text, original, checks, args.suite)
        finally:
            free.append(wd)
        r.update({"id": s.id, "line": s.lineno, "func": s.func, "op": s.op, "desc": s.desc})
        status = ("KILLED by " + r["killed_by"]) if r["killed_by"] else ("suite-killed" if r["suite"] == "fail" else "SURVIVED")
        print(f"[{time.time() - t0:6.0f}s] #{s.id} line {s.lineno} {s.func} {s.op} {s.desc}: {status}", flush=True)
        return r

    with ThreadPoolExecutor(max_workers=args.j) as ex:
        results = list(ex.map(job, ms))
    for wd in workers:
        shutil.rmtree(wd, ignore_errors=True)
    considered = [r for r in results if r["suite"] != "fail" or r["killed_by"]]
    killed = [r for r in considered if r["killed_by"]]
    summary = {"file": args.file, "checks": checks, "mutants": len(results), "suite_killed": len(results) - len(considered),
               "passing_suite": len(considered), "killed_by_checks": len(killed), "survived": len(considered) - len(killed),
               "repo_head": sh(["git", "-C", REPO, "rev-parse", "--short", "HEAD"]).stdout.strip(), "results": results}
    out = args.out or os.path.join(VERIF, "notes", "mutation", os.path.basename(args.file) + ".json")
    os.makedirs(os.path.dirname(out), exist_ok=True)
    with open(out, "w") as f:
        json.dump(summary, f, indent=1)
    print(json.dumps({k: v for k, v in summary.items() if k != "results"}))
    for r in considered:
        if not r["killed_by"]:
            print(f"SURVIVOR #{r['id']} line {r['line']} {r['func']} {r['op']} {r['desc']}")


if __name__ == "__main__":
    main()
