"""Ground truth: run a generated program under the real bash in a scratch jail whose PATH holds only
stub executables that log their argv; report what was executed and which files changed."""
from __future__ import annotations

import os
import shutil
import signal
import subprocess
import tempfile

STUB = r"""#!/bin/sh
# stub executable: log argv, steer control flow by exit status
n=0
if [ -f "$STUB_DIR/count" ]; then read n < "$STUB_DIR/count"; fi
n=$((n+1))
echo $n > "$STUB_DIR/count"
US=$(printf '\037'); RS=$(printf '\036')
rec="${0##*/}"
for a in "$@"; do rec="$rec$US$a"; done
printf '%s' "$rec$RS" >> "$STUB_DIR/log"   # one write(2) on an O_APPEND descriptor: atomic
if [ $n -gt 40 ]; then exit $((n % 2)); fi
case "$STUB_RC" in
  0) exit 0;;
  1) exit 1;;
  *) exit $((n % 2));;
esac
"""

BASH = shutil.which("bash") or "/bin/bash"


class Jail:
    """A scratch directory <root>/jail (the cwd of the commands) with out/, secret/, askme/ and
    <root>/bin stubs, <root>/ctl for the log."""

    def __init__(self, stub_names, real_tools=()):
        root = os.path.realpath(tempfile.mkdtemp(prefix="dippy-verif-"))
        self.root = root
        self.cwd = os.path.join(root, "jail")
        self.bin = os.path.join(root, "bin")
        self.ctl = os.path.join(root, "ctl")
        for d in (self.cwd, self.bin, self.ctl):
            os.makedirs(d)
        for name in stub_names:
            p = os.path.join(self.bin, name)
            with open(p, "w") as f:
                f.write(STUB)
            os.chmod(p, 0o755)
        # <root>/evilbin: the same names, logged as "evil:<name>" - what runs when PATH is redirected there
        self.evilbin = os.path.join(root, "evilbin")
        os.makedirs(self.evilbin)
        for name in stub_names:
            p = os.path.join(self.evilbin, name)
            with open(p, "w") as f:
                f.write(STUB.replace('rec="${0##*/}"', 'rec="evil:${0##*/}"'))
            os.chmod(p, 0o755)
        for sh in ("bash", "sh"):
            os.symlink(BASH, os.path.join(self.bin, sh))
        for tool in real_tools:
            real = shutil.which(tool)
            dst = os.path.join(self.bin, tool)
            if real:
                if os.path.lexists(dst):
                    os.unlink(dst)
                os.symlink(real, dst)
        self.reset()

    def reset(self):
        for name in os.listdir(self.cwd):
            p = os.path.join(self.cwd, name)
            if os.path.isdir(p) and not os.path.islink(p):
                shutil.rmtree(p, ignore_errors=True)
                if os.path.exists(p):
                    shutil.rmtree(p, ignore_errors=True)
            else:
                os.unlink(p)
        # only/ is granted at the top and not below sub/, deep/ the other way round: a verdict computed for the wrong
        # directory shows as a write no rule grants
        for d in ("out", "secret", "askme", "sub", "sub/out", "sub/sub", "sub/sub/out", "only", "sub/only", "deep", "sub/deep",
                  "sub/sub/only", "sub/sub/deep", "~"):
            os.makedirs(os.path.join(self.cwd, d), exist_ok=True)
        with open(os.path.join(self.cwd, "f"), "w") as f:
            f.write("data\n")
        for name in os.listdir(self.ctl):
            os.unlink(os.path.join(self.ctl, name))

    def snapshot(self):
        snap = {}
        for base, dirs, files in os.walk(self.cwd):
            for n in files + dirs:
                p = os.path.join(base, n)
                try:
                    st = os.lstat(p)
                    if os.path.isfile(p) and not os.path.islink(p):
                        with open(p, "rb") as f:
                            snap[p] = ("f", f.read())
                    else:
                        snap[p] = ("d" if os.path.isdir(p) else "l", st.st_mode)
                except OSError:
                    pass
        return snap

    def run(self, program: str, rc_mode="alt", timeout=3.0):
        """Returns (exec log: list of argv lists, changed paths: set, bash exit status or None on timeout, stderr)."""
        self.reset()
        before = self.snapshot()
        env = {"PATH": self.bin, "STUB_DIR": self.ctl, "STUB_RC": rc_mode, "HOME": self.root, "LC_ALL": "C.UTF-8", "DD": ".."}  # DD: a variable whose value leaves the directory
        p = subprocess.Popen([BASH, "--norc", "--noprofile", "-c", program], cwd=self.cwd, env=env,
                             stdin=subprocess.DEVNULL, stdout=subprocess.PIPE, stderr=subprocess.PIPE,
                             start_new_session=True)
        try:
            _, errb = p.communicate(timeout=timeout)
            status, err = p.returncode, errb.decode("utf-8", "replace")
        except subprocess.TimeoutExpired:
            status, err = None, ""
        # background jobs, coprocs and timed-out loops: kill the whole session's process group
        try:
            os.killpg(p.pid, signal.SIGKILL)
        except (ProcessLookupError, PermissionError):
            pass
        try:
            p.communicate(timeout=2)
        except Exception:
            pass
        log = []
        lp = os.path.join(self.ctl, "log")
        if os.path.exists(lp):
            with open(lp, "rb") as f:
                data = f.read().decode("utf-8", "replace")
            for rec in data.split("\x1e"):
                if rec:
                    log.append(rec.split("\x1f"))
        after = self.snapshot()
        changed = {p for p in set(before) | set(after) if before.get(p) != after.get(p)}
        return log, changed, status, err

    def close(self):
        shutil.rmtree(self.root, ignore_errors=True)
