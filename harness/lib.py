"""Shared harness library: wire format, model driver, AST serialiser, repo access."""
from __future__ import annotations

import hashlib
import json
import os
import subprocess
import sys
import time

VERIF = os.path.dirname(os.path.dirname(os.path.abspath(__file__)))
REPO = os.environ.get("DIPPY_REPO", "/repo")
BUILD = os.path.join(VERIF, "build")
MODELRUN = os.path.join(BUILD, "ocaml", "modelrun")


def use_repo():
    """Import dippy from the repository's working tree (never the installed copy)."""
    src = os.path.join(REPO, "src")
    if sys.path[0] != src:
        sys.path.insert(0, src)
    for name in list(sys.modules):
        if name == "dippy" or name.startswith("dippy."):
            mod = sys.modules[name]
            f = getattr(mod, "__file__", "") or ""
            if not f.startswith(src):
                del sys.modules[name]
    import dippy  # noqa: F401

    assert dippy.__file__.startswith(src), dippy.__file__


# ---------------------------------------------------------------- sx wire format
class A(str):
    """An atom (a Python str)."""

    __slots__ = ()


def enc(x) -> str:
    """Python value -> sx text. str -> atom, bool -> atom 1/0, list/tuple -> list, None -> ()."""
    if isinstance(x, bool):
        return "a49" if x else "a48"
    if isinstance(x, str):
        return "a" + ",".join(str(ord(c)) for c in x)
    if x is None:
        return "()"
    if isinstance(x, (list, tuple)):
        return "(" + " ".join(enc(y) for y in x) + ")"
    raise TypeError(type(x))


def dec(s: str):
    """sx text -> nested lists of str."""
    pos = 0
    n = len(s)

    def item():
        nonlocal pos
        while pos < n and s[pos] in " \n\r":
            pos += 1
        if s[pos] == "(":
            pos += 1
            out = []
            while True:
                while pos < n and s[pos] in " \n\r":
                    pos += 1
                if s[pos] == ")":
                    pos += 1
                    return out
                out.append(item())
        if s[pos] == "a":
            pos += 1
            start = pos
            while pos < n and (s[pos].isdigit() or s[pos] == ","):
                pos += 1
            body = s[start:pos]
            return "".join(chr(int(t)) for t in body.split(",")) if body else ""
        raise ValueError(f"bad sx at {pos}: {s[pos:pos+20]!r}")

    return item()


def opt(x):
    """Encode an optional value: None -> (), v -> (v)."""
    return [] if x is None else [x]


# ---------------------------------------------------------------- model process
class ModelError(Exception):
    pass


class Model:
    """The extracted Coq models as a co-process; oracle queries are answered by callbacks."""

    def __init__(self):
        if not os.path.exists(MODELRUN):
            raise ModelError(f"{MODELRUN} missing - run ./setup.sh")
        self.p = subprocess.Popen(
            [MODELRUN], stdin=subprocess.PIPE, stdout=subprocess.PIPE, text=True, bufsize=1 << 16
        )
        self.transcript = None  # list of (query_text, answer_text) when recording

    def call(self, request, oracles=None, record=False):
        """request: python value; oracles: dict name -> fn(*args) -> python value."""
        text = enc(request)
        self.last_request = text
        if record:
            self.transcript = []
        self.p.stdin.write(text + "\n")
        self.p.stdin.flush()
        while True:
            line = self.p.stdout.readline()
            if not line:
                raise ModelError("model process died")
            line = line.rstrip("\n")
            if line.startswith("?"):
                qv = dec(line[1:])
                name, args = qv[0], qv[1:]
                if not oracles or name not in oracles:
                    raise ModelError(f"no oracle for {name}")
                ans = enc(oracles[name](*args))
                if record:
                    self.transcript.append((line[1:], ans))
                self.p.stdin.write(ans + "\n")
                self.p.stdin.flush()
            elif line.startswith("="):
                return dec(line[1:])
            else:
                raise ModelError(f"model error: {line}")

    def close(self):
        try:
            self.p.stdin.close()
            self.p.wait(timeout=5)
        except Exception:
            self.p.kill()


# ---------------------------------------------------------------- reflective AST serialiser
class SchemaNote:
    """Collects what the serialiser saw: kinds, attribute types - reported in the evidence."""

    def __init__(self):
        self.kinds = {}
        self.odd = set()


def tree(node, note: SchemaNote | None = None):
    """Any object with a .kind and vars(): -> [kind, [[k,v]..], [[k,b]..], [[label, tree]..]].

    Reflective: every attribute holding a node or a list of nodes becomes labelled
    children (attribute order kept), str attributes become strs, bool attributes
    flags.  None, ints and other values are dropped (recorded in note.odd when not
    None/int).  Knows nothing about particular node classes.
    """
    kind = getattr(node, "kind", None)
    strs, flags, kids = [], [], []
    for k, v in vars(node).items():
        if k == "kind":
            continue
        if isinstance(v, bool):
            flags.append([k, v])
        elif isinstance(v, str):
            strs.append([k, v])
        elif v is None or isinstance(v, int):
            continue
        elif isinstance(v, list):
            for item in v:
                if hasattr(item, "kind"):
                    kids.append([k, tree(item, note)])
                elif note is not None:
                    note.odd.add(f"{kind}.{k}[]:{type(item).__name__}")
        elif hasattr(v, "kind"):
            kids.append([k, tree(v, note)])
        elif note is not None:
            note.odd.add(f"{kind}.{k}:{type(v).__name__}")
    if note is not None:
        note.kinds[kind] = note.kinds.get(kind, 0) + 1
    return [str(kind), strs, flags, kids]


# ---------------------------------------------------------------- misc
def sha(x) -> str:
    return hashlib.sha1(json.dumps(x, sort_keys=True, default=str).encode()).hexdigest()[:12]


class Timer:
    def __init__(self):
        self.t0 = time.time()

    def s(self):
        return round(time.time() - self.t0, 2)


class Timeout(Exception):
    pass


def with_timeout(fn, seconds=3.0):
    """Run fn() in the main thread under an interval timer; raises Timeout.  (The vendored parser
    needs minutes on some short inputs - e.g. nested $( or '>#\n}`|>r\n]|' - so harnesses bound
    every in-process parse.)"""
    import signal

    def handler(signum, frame):
        raise Timeout()

    old = signal.signal(signal.SIGALRM, handler)
    signal.setitimer(signal.ITIMER_REAL, seconds)
    try:
        return fn()
    finally:
        signal.setitimer(signal.ITIMER_REAL, 0)
        signal.signal(signal.SIGALRM, old)


def parser_rejects(text, timeout=3.0):
    """True if the vendored parser raises ParseError on text (the analyser then asks without analysing anything).
    Decided by calling the parser, never by the wording of a reason."""
    from dippy.vendor.parable import parse, ParseError
    try:
        with_timeout(lambda: parse(text.strip()), timeout)
        return False
    except ParseError:
        return True
    except Timeout:
        return False
    except Exception:
        return False
