"""SQL text generator for C16: statements x CTE prefixes x comments x four quoting styles x separators x
letter case, hostile lexical material (unterminated quotes/comments, SQLite variable tokens, blob literals,
exotic white space), and splits into sqlite3 command-line arguments.

The scratch database the texts are written against (see c16.make_template):
  main: t(a INTEGER PRIMARY KEY, b TEXT), u(x, y), index iu on u(x), view w
  aux : v(k, s)            (ATTACHed as "aux")
"""
from __future__ import annotations

import itertools
import random
import re

# ---------------------------------------------------------------- building blocks
RO_STMTS = [
    "SELECT * FROM t",
    "SELECT count(*) FROM u",
    "SELECT 1",
    "SELECT a, b FROM t WHERE b = {L}",
    "SELECT {L}",
    "SELECT {I} FROM t",
    "SELECT * FROM aux.v",
    "SELECT * FROM w",
    "EXPLAIN SELECT * FROM t",
    "EXPLAIN QUERY PLAN SELECT * FROM u",
    "EXPLAIN DELETE FROM t",
    "SELECT x FROM u WHERE y IN (SELECT a FROM t)",
    "SELECT {L} AS c, (SELECT max(a) FROM t)",
    "VALUES (1)",
    "SHOW TABLES",
    "DESCRIBE t",
]
WR_STMTS = [
    "DELETE FROM t",
    "INSERT INTO t VALUES (9, {L})",
    "UPDATE t SET b = {L}",
    "DROP TABLE u",
    "CREATE TABLE n(x)",
    "REPLACE INTO t VALUES (1, 'r')",
    "ALTER TABLE t ADD COLUMN c",
    "PRAGMA user_version = 5",
    "VACUUM",
    "REINDEX",
    "ANALYZE",
    "ATTACH 'third.db' AS third",
    "DETACH aux",
    "DELETE FROM aux.v",
    "INSERT INTO aux.v VALUES (7, 'n')",
    "DROP TABLE aux.v",
    "CREATE TABLE aux.n(x)",
    "CREATE INDEX it ON t(b)",
    "DROP VIEW w",
    "SELECT a INTO n FROM t",
    "INSERT INTO u SELECT a, b FROM t",
    "CREATE TRIGGER tr AFTER INSERT ON t BEGIN DELETE FROM u; END",
    "BEGIN",
    "VACUUM INTO 'copy.db'",
]
# statements that can follow a WITH prefix
CTE_MAINS = ["SELECT * FROM c", "SELECT 1", "DELETE FROM t", "INSERT INTO t SELECT 9, 'x' FROM c",
             "UPDATE t SET b = 'w'", "REPLACE INTO t SELECT 1, 'r' FROM c", "SELECT x INTO n FROM c"]
CTE_PREFIXES = [
    "WITH c AS (SELECT 1 AS x)",
    "WITH RECURSIVE c AS (SELECT 1 AS x)",
    "WITH c AS (SELECT 1 AS x), d AS (SELECT 2)",
    "WITH c(x) AS (SELECT 1)",
    "WITH c AS MATERIALIZED (SELECT 1 AS x)",
    "WITH c AS (SELECT (1) AS x, ')' AS y)",
    "WITH c AS (SELECT 1 AS x) , SELECT AS (SELECT 2)",
]
COMMENTS = ["/* c */", "-- c\n", "/* ; */", "-- ; DELETE FROM t\n", "/* ' */", "--'\n", "/**/", "/* \" */",
            "/* -- */", "--/*\n", "/*\n--*/", "/* ` [ */", "-- ]\n", "/***/", "/* ;DELETE FROM t; */"]
HOSTILE_COMMENTS = ["/*", "/* c", "/*/", "--", "/* ; DELETE FROM t", "*/", "/*'*/", "/*/ ; DELETE FROM t ; /*/"]
PAYLOADS = ["x", "a;b", "; DELETE FROM t; --", "--", "/*", "*/", "it's", 'say "hi"', "`", "[", "]", "\\", "a\\'b",
            "a\nb", "$a(", ")", "", "''", ";", "/* ; */", "-- \n; DELETE FROM t"]
STYLES = ["'", '"', "`", "["]
SEPARATORS = [";", "; ", ";\n", ";;", "; ;", " ", "\n", ";--\n", ";/**/", " ;\t", ";\r\n"]
# SQLite variable tokens: the parenthesised (Tcl) form swallows quote and comment characters
VARIABLES = ["$a(')", "@a(')", ":a(\")", "#a(`)", "$a([)", "$a(--)", "$a(/*)", "$a::b(')", "$a", ":a", "@a", "?1", "?",
             "$a(x)", "$(')", "$a( ')", "$a('", "$1(')", "@1a(\")"]
# round seven (seeded change C16v: the identifier class of the variable guard narrowed to Python's \\w): SQLite takes every byte
# >= 0x80 for an identifier character, so one representative of each Unicode class - letters, marks, digits, punctuation,
# symbols, separators, format and control characters, the ends of the planes - alone, behind and in front of an ASCII letter,
# behind every sigil, with the two quote openers that hide most
NAME_CHARS = ["\xe9", "\xdf", "\u4e00", "\u0301", "\u0663", "\u20ac", "\xd7", "\u2013", "\xb0", "\xa7", "\x80", "\x9f", "\xa0", "\u200b", "\u2028",
              "\ufeff", "\ud7ff", "\ue000", "\ufffd", "\U0001f600", "\U0010ffff", "\xaa", "\xb2", "\u2160"]
VARIABLES_WIDE = [sig + name + "(" + op + ")" for sig in "$@:#" for ch in NAME_CHARS for name in (ch, "a" + ch, ch + "a") for op in ("'", '"')]
# closers that re-balance what a variable token hid from the stripper
CLOSERS = {"'": "--')", '"': '--")', "`": "--`)", "[": "--])", "--": "", "/*": "--*/)"}
BLOBS = ["x'ab'", "X'ABCD'", "x'ab''cd'", "x'zz'", "x'a'", "x'ab", "x''"]
EXOTIC_WS = ["\x0b", "\x1c", "\x1f", "\x85", "\xa0", "\u2003", "\u3000", "\ufeff", "\u200b", "\u2028"]
SOUP = ["SELECT", "select", "DELETE FROM t", "INSERT INTO t VALUES(9,'s')", "WITH", "AS", "RECURSIVE", "INTO", "FROM", "t", "c", "1",
        "(", ")", ",", ";", "'", '"', "`", "[", "]", "--", "/*", "*/", "\n", " ", "  ", "''", '""', "``", "\\", "*", "$a(", "@x", ":",
        "::", "#", "x'", "EXPLAIN", "DROP TABLE u", "UPDATE t SET b=1", "PRAGMA", "\u017f", "\u0131", "\xa0", "\x0b", "$", "\xe9", "_", "9", ".", "-", "/"]


def quote(style: str, payload: str) -> str:
    if style == "[":
        return "[" + payload.replace("]", "") + "]"
    return style + payload.replace(style, style * 2) + style


def recase(rng: random.Random, text: str, mode: str) -> str:
    """Change the case of the bare words only (not inside quotes/comments - done before those are filled in)."""
    if mode == "upper":
        return text
    if mode == "lower":
        return re.sub(r"[A-Za-z_]+", lambda m: m.group().lower(), text)
    return re.sub(r"[A-Za-z_]+", lambda m: "".join(ch.lower() if rng.random() < 0.5 else ch.upper() for ch in m.group()), text)


def fill(rng: random.Random, tmpl: str, style=None, payload=None) -> str:
    def lit(_):
        return quote(style if style in ("'", '"') else "'", payload if payload is not None else rng.choice(PAYLOADS))

    def ident(_):
        st = style if style is not None else rng.choice(STYLES)
        return quote(st, payload if payload is not None else rng.choice(["a", "b", "no such", "a;b", "x--y"]))

    return tmpl.replace("{L}", lit("")).replace("{I}", ident(""))


def with_comment(rng: random.Random, stmt: str, comment: str, where: str) -> str:
    words = stmt.split(" ")
    if where == "before":
        return comment + " " + stmt if not comment.endswith("\n") else comment + stmt
    if where == "after":
        return stmt + " " + comment
    i = 1 if where == "afterkw" else rng.randrange(1, max(2, len(words)))
    return " ".join(words[:i]) + " " + comment + " " + " ".join(words[i:])


class Case:
    __slots__ = ("args", "shape", "flags")

    def __init__(self, args, shape, flags=()):
        self.args = list(args)      # SQL arguments, in command-line order
        self.shape = shape
        self.flags = list(flags)    # option tokens placed before the database name


def systematic(rng: random.Random):
    out = []
    # every statement alone, every case mode
    for s in RO_STMTS + WR_STMTS:
        for mode in ("upper", "lower", "mixed"):
            out.append(Case([fill(rng, recase(rng, s, mode), "'", "x")], "single"))
    # every quoting style x payload, as literal / identifier, in a read-only and in a write statement
    for st, p in itertools.product(STYLES, PAYLOADS):
        out.append(Case([fill(rng, "SELECT {I} FROM t", st, p)], "quoted"))
        out.append(Case([fill(rng, "SELECT {I} FROM t", st, p) + " ; DELETE FROM t"], "quoted+write"))
        out.append(Case(["DELETE FROM t WHERE b = " + quote(st, p)], "quoted"))
        out.append(Case([quote(st, p) + " SELECT 1"], "quoted-first"))
        out.append(Case(["SELECT 1; " + quote(st, p)], "quoted-last"))
    # comments in every position
    for c, where in itertools.product(COMMENTS + HOSTILE_COMMENTS, ("before", "afterkw", "after", "mid")):
        for s in ("SELECT * FROM t", "DELETE FROM t", "SELECT a FROM t; DELETE FROM t"):
            out.append(Case([with_comment(rng, s, c, where)], "comment"))
    # CTE prefixes x main statements
    for pre, main, mode in itertools.product(CTE_PREFIXES, CTE_MAINS, ("upper", "lower")):
        out.append(Case([recase(rng, pre + " " + main, mode)], "cte"))
        out.append(Case([recase(rng, pre + " " + main, mode) + "; DELETE FROM t"], "cte+write"))
    # two statements x every separator, as one argument and as two arguments
    for a, b, sep in itertools.product(["SELECT 1", "SELECT * FROM t", "DELETE FROM t", "EXPLAIN SELECT 1"],
                                       ["SELECT 2", "DELETE FROM t", "DROP TABLE u", "INSERT INTO aux.v VALUES (1,'z')", ""], SEPARATORS):
        out.append(Case([a + sep + b], "pair"))
        if b:
            out.append(Case([a, b], "pair-args"))
            out.append(Case([a + sep, b], "pair-args"))
    # SQLite variable tokens in front of a hidden write
    for v in VARIABLES:
        hid = next((k for k in CLOSERS if k in v), None)
        closer = CLOSERS.get(hid, "")
        out.append(Case([f"SELECT {v}, 1; DELETE FROM t; {closer}"], "variable"))
        out.append(Case([f"SELECT {v}"], "variable"))
        out.append(Case([f"SELECT 1 WHERE 1 = {v}; DROP TABLE u {closer}"], "variable"))
    for v in VARIABLES_WIDE:
        closer = CLOSERS["'" if v.endswith("')") else '"']
        out.append(Case([f"SELECT {v}, 1; DELETE FROM t; {closer}"], "variable-wide"))
        out.append(Case([f"SELECT {v} ; DROP TABLE u; {closer}"], "variable-wide"))
    for bl in BLOBS:
        out.append(Case([f"SELECT {bl}"], "blob"))
        out.append(Case([f"SELECT {bl}; DELETE FROM t; --'"], "blob"))
        out.append(Case([f"SELECT {bl} ';DELETE FROM t;--'"], "blob"))
    for w in EXOTIC_WS:
        out.append(Case([f"SELECT 1;{w}"], "exotic-ws"))
        out.append(Case([f"{w}SELECT 1"], "exotic-ws"))
        out.append(Case([f"SELECT 1;{w}DELETE FROM t"], "exotic-ws"))
        out.append(Case([f"SELECT{w}1; DELETE{w}FROM t"], "exotic-ws"))
        out.append(Case([f"DELETE{w}FROM t"], "exotic-ws"))
        out.append(Case([f"SELECT 1{w};{w}"], "exotic-ws"))
    # the guards of the repaired sqlite3 handler: case folding, word boundaries, white space before "("
    for g_ in ("SELECT \"writefile\"('x','y')", "SELECT [writefile]('x','y')", "SELECT `writefile`('x','y')", "SELECT writefile/**/('x','y')",
               "SELECT writefile--\n('x','y')", "SELECT \"edit\"('x')", "SELECT writefile /* c */ ('x','y')",
               "SELECT writefile('x','y')", "SELECT WRITEFILE ('x','y')", "SELECT WriteFile\t\n('x','y')", "SELECT xwritefile('x','y')",
               "SELECT write_file('x')", "SELECT edit('x')", "SELECT credit(1)", "SELECT load_extension('x')", "SELECT LOAD_EXTEN\u017fION('x')",
               "SELECT wr\u0131tefile('x')", "SELECT WR\u0130TEFILE('x')", "SELECT 'writefile' (1)", "SELECT writefile", "SELECT writefile\xa0('x','y')",
               "SELECT 1 -- edit(\n", "vacuum", "VACUUM INTO 'copy.db'", "VaCuUm;", "SELECT vacuum_ FROM t", "SELECT avacuum", "SELECT 'vacuum'", "SELECT \"vacuum\"x",
               "SELECT vacuum1", "SELECT 1;vacuum", "SELECT \u00e9vacuum", "SELECT $(1)", "SELECT :(1)", "SELECT x::int(1)", "SELECT a:b(1)", "SELECT $a::(1)",
               "SELECT $a:(1)", "SELECT '$a(' || 1", "SELECT #\u00e9(')", "SELECT 5 $ (1)", "SELECT @@a(1)", "SELECT $a$b(1)"):
        out.append(Case([g_], "guard-edge"))
    for kw in ("\u017fELECT 1", "DE\u017fCRIBE t", "EXPLA\u0131N DELETE FROM t", "W\u0131TH c AS (SELECT 1) DELETE FROM t", "SELECT$ 1", "SELECT$", "select_ 1",
               "SELECT\xe9 1", "1SELECT", "_SELECT", "SELECT1", "SELECT.1", "SELECT\xaa", "DELETE$ FROM t", "\ufb01", "SELECT * \u0131NTO n FROM t"):
        out.append(Case([kw], "keyword-edge"))
    return out


def rand_statement(rng: random.Random) -> str:
    r = rng.random()
    if r < 0.45:
        s = rng.choice(RO_STMTS)
    elif r < 0.75:
        s = rng.choice(WR_STMTS)
    else:
        s = rng.choice(CTE_PREFIXES) + " " + rng.choice(CTE_MAINS)
    s = recase(rng, s, rng.choice(("upper", "lower", "mixed")))
    s = fill(rng, s)
    for _ in range(rng.choice((0, 0, 1, 1, 2))):
        pool = COMMENTS if rng.random() < 0.85 else HOSTILE_COMMENTS
        s = with_comment(rng, s, rng.choice(pool), rng.choice(("before", "afterkw", "after", "mid")))
    if rng.random() < 0.12:
        words = s.split(" ")
        i = rng.randrange(0, len(words) + 1)
        words.insert(i, rng.choice(VARIABLES + BLOBS + EXOTIC_WS + [quote(rng.choice(STYLES), rng.choice(PAYLOADS))]))
        s = " ".join(words)
    return s


def rand_text(rng: random.Random):
    n = rng.choice((1, 1, 1, 2, 2, 3))
    parts = [rand_statement(rng) for _ in range(n)]
    text = parts[0]
    for p in parts[1:]:
        text += rng.choice(SEPARATORS) + p
    if rng.random() < 0.3:
        text += rng.choice(SEPARATORS + ["", " ", ";  ", "; -- end", ";/* end"])
    return text, parts


def rand_case(rng: random.Random) -> Case:
    text, parts = rand_text(rng)
    r = rng.random()
    if r < 0.5 or len(text) < 2:
        return Case([text], "random")
    if r < 0.75 and len(parts) > 1:
        return Case(parts, "random-args")          # one statement per argument
    # arbitrary split positions
    k = rng.choice((1, 1, 2))
    cuts = sorted(rng.sample(range(1, len(text)), min(k, len(text) - 1)))
    args, prev = [], 0
    for c in cuts + [len(text)]:
        args.append(text[prev:c])
        prev = c
    return Case(args, "random-split")


def soup_case(rng: random.Random) -> Case:
    n = rng.randint(1, 14)
    pieces = [rng.choice(SOUP) for _ in range(n)]
    text = "".join(p if rng.random() < 0.6 else p + " " for p in pieces)
    if rng.random() < 0.2 and len(text) > 2:
        c = rng.randrange(1, len(text))
        return Case([text[:c], text[c:]], "soup-split")
    return Case([text], "soup")


# ---------------------------------------------------------------- delimiter confusion
# For every quoting style q and every escape-like fragment e:  SELECT q..e q ; WRITE ; -- q   and variants.
# The literal bodies are RAW (not re-escaped for the style): the point is that SQLite and the stripper may
# disagree about where the literal ends; whenever the stripper runs on to the later quote it hides the write.
ESCAPE_LIKE = ["\\", "\\\\", "\\'", '\\"', "\\`", "\\]", "''", '""', "``", "]]", "--", "/*", "*/", "$", ":", "@", "#",
               "\\\n", "\\;", "$a(", ":a(", "\\x", "%\\", "\\%", "\\_"]
CONF_WRITES = ["DELETE FROM t", "DROP TABLE u", "INSERT INTO aux.v VALUES (7, 0)", "UPDATE t SET b = 0", "CREATE TABLE n(x)"]


def _closer(q):
    return "]" if q == "[" else q


def confusion_texts(q, e, w):
    o, c = q, _closer(q)
    out = []
    for body in ("x" + e, e, "C:" + e):
        lit = o + body + c
        out += [
            f"SELECT {lit}\\; {w}; --{c}",
            f"SELECT {lit} ; {w} ; /*{c}*/",
            f"SELECT {lit}\n; {w}\n; SELECT {o}z{c}",
            f"SELECT {o}a{c}, {lit}; {w}; SELECT {o}z{c}",
            f"SELECT * FROM t WHERE b LIKE {lit}; {w}; --{c}",
            f"SELECT {lit}; {w}; --{o}{c}{c}",
            f"SELECT {lit};{w};{o}",
            f"SELECT {lit}\\; {w}; --{c}",
            f"SELECT {lit}\\\n; {w}; --{c}",
            f"SELECT {o}{body}{c}{c}; {w}; --{c}",
        ]
    # the fragment in a comment, before ; and before a newline
    out += [
        f"SELECT 1 -- {e}\n; {w}; --{c}",
        f"SELECT 1 /* {e} */; {w}; /*{c}*/ --{c}",
        f"SELECT 1 {e}; {w}; --{c}",
        f"SELECT {o}x{c} {e}\n; {w}; --{c}",
        f"SELECT {o}x{c}; {w}; -- {e}{c}",
    ]
    return out


def confusion(rng: random.Random):
    out = []
    k = 0
    for q in STYLES:
        for e in ESCAPE_LIKE:
            w = CONF_WRITES[k % len(CONF_WRITES)]
            k += 1
            for t in confusion_texts(q, e, w):
                out.append(Case([t], "delimiter-confusion"))
    return out


def rand_confusion(rng: random.Random) -> Case:
    """Random member of the family: several escape-like fragments in one literal, random style and write."""
    q = rng.choice(STYLES)
    o, c = q, _closer(q)
    body = "".join(rng.choice(ESCAPE_LIKE + ["x", "C:", " ", c + c, "%"]) for _ in range(rng.randint(1, 4)))
    w = rng.choice(CONF_WRITES)
    q2 = rng.choice(STYLES)
    tail = rng.choice([f"--{c}", f"/*{c}*/", f"SELECT {o}z{c}", f"{o}", f"--{q2}{c}", f"-- {_closer(q2)} {c}", ""])
    sep = rng.choice(SEPARATORS)
    pre = rng.choice(["SELECT ", "SELECT * FROM t WHERE b = ", "SELECT 1, ", "EXPLAIN SELECT ", "WITH c AS (SELECT 1 AS x) SELECT x, "])
    text = f"{pre}{o}{body}{c}{sep}{w}; {tail}"
    return Case([recase(rng, text, rng.choice(("upper", "lower")))] if rng.random() < 0.3 else [text], "delimiter-confusion-random")
