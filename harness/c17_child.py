"""Child interpreter for C17's inertness exploration (run as `/venv/bin/python -I c17_child.py SCRIPT SAFE_CSV`).

Compiles SCRIPT exactly as CPython would (bytes -> PEP 263 decoding), installs an audit hook that
records AND vetoes dangerous events, then executes the code object as __main__ with sys.path[0] set to
the script's directory (what `python script.py` does).  The report is the last line on stderr:
    @@C17@@ {"events": [[event, detail, origin], ...], "end": "ok|exc:<type>|exit"}
"""
import builtins
import os
import sys

MARK = "@@C17@@ "
PREFIXES = ("os.", "subprocess.", "socket.", "ctypes.", "shutil.", "tempfile.", "glob.", "pathlib.", "pty.",
            "fcntl.", "mmap.", "marshal.", "pickle.", "sqlite3.", "urllib.", "http.", "ftplib.", "smtplib.",
            "imaplib.", "poplib.", "nntplib.", "telnetlib.", "webbrowser.", "signal.", "syslog.", "resource.",
            "cpython.run_", "code.__new__", "builtins.input", "builtins.breakpoint", "winreg.", "msvcrt.")
EXACT = {"open", "exec", "compile", "io.open_code"}


def js(x):
    """minimal JSON encoder (importing json here would hide a sibling json.py from the script)"""
    if isinstance(x, str):
        return '"' + "".join(c if 32 <= ord(c) < 127 and c not in '"\\' else "\\u%04x" % min(ord(c), 0xFFFF) for c in x) + '"'
    if isinstance(x, bool):
        return "true" if x else "false"
    if isinstance(x, int):
        return str(x)
    if isinstance(x, (list, tuple)):
        return "[" + ", ".join(js(y) for y in x) + "]"
    if isinstance(x, dict):
        return "{" + ", ".join(js(str(k)) + ": " + js(v) for k, v in x.items()) + "}"
    return js(repr(x))


def main():
    script = sys.argv[1]
    safe = set(sys.argv[2].split(","))
    with open(script, "rb") as f:
        src = f.read()
    events = []
    state = {"armed": False}
    getframe = sys._getframe
    sdir = os.path.dirname(os.path.abspath(script))

    def stack():
        """(innermost Python frame, requester of an import, is an import in progress between the script and here)"""
        inner = getframe(2)
        during_import = False
        req = None
        sline = 0
        g = inner
        while g is not None:
            fn = g.f_code.co_filename
            name = g.f_globals.get("__name__", "")
            if req is None and not fn.startswith("<frozen importlib") and not name.startswith("importlib"):
                req = g
            if fn == script:
                sline = g.f_lineno
                break
            if fn.startswith("<frozen importlib._bootstrap") and g.f_code.co_name in ("_find_and_load", "_gcd_import"):
                during_import = True
            g = g.f_back
        return inner, req, during_import, sline

    def where(fr):
        if fr is None:
            return "?"
        fn = fr.f_code.co_filename
        if fn == script:
            return "script"
        if fn.startswith(sdir + os.sep):
            return "sibling:%s" % os.path.basename(fn)
        return "lib:%s.%s" % (fr.f_globals.get("__name__", os.path.basename(fn)), fr.f_code.co_name)

    def hook(ev, args):
        if not state["armed"]:
            return
        if ev == "import":
            inner, req, _, sline = stack()
            mod = args[0]
            root = mod.split(".")[0]
            if req is None or not (req.f_code.co_filename == script or req.f_code.co_filename.startswith(sdir + os.sep)):
                return  # transitive import inside a library
            if mod in safe or root in safe:
                return
            events.append([ev, mod, where(req), sline])
            raise RuntimeError("C17-VETO import " + mod)
        if ev == "exec" and state.get("own") is not None and args and args[0] is state["own"]:
            state["own"] = None
            return
        if ev in EXACT or ev.startswith(PREFIXES):
            inner, req, during_import, sline = stack()
            w = where(inner)
            if during_import and w.startswith("lib:"):
                state["import_time"] = state.get("import_time", 0) + 1
                return  # a library module initialising itself / the import system reading it
            detail = ""
            try:
                a0 = args[0] if args else ""
                if isinstance(a0, (str, bytes, int)):
                    detail = repr(a0)[:80]
                else:
                    detail = type(a0).__name__
            except Exception:
                pass
            events.append([ev, detail, w, sline])
            raise RuntimeError("C17-VETO " + ev)

    try:
        code = compile(src, script, "exec")
    except SyntaxError as e:
        sys.stderr.write(MARK + js({"events": [], "end": "syntax:" + type(e).__name__}) + "\n")
        return
    sys.addaudithook(hook)
    sys.argv = [script]
    sys.path.insert(0, sdir)
    g = {"__name__": "__main__", "__builtins__": builtins, "__file__": script, "__doc__": None,
         "__package__": None, "__spec__": None, "__loader__": None, "__cached__": None}
    end = "ok"
    state["own"] = code  # builtins.exec raises ("exec", code) for our own call: let exactly that one through
    state["armed"] = True
    try:
        exec(code, g)
    except SystemExit:
        end = "exit"
    except BaseException as e:  # noqa: BLE001
        end = "exc:" + type(e).__name__
    finally:
        state["armed"] = False
    sys.stderr.write("\n" + MARK + js({"events": events, "end": end, "import_time": state.get("import_time", 0)}) + "\n")
    sys.stderr.flush()
    os._exit(0)


if __name__ == "__main__":
    main()
