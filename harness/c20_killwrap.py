"""Fault-injection wrapper for C20 (lives in the verification tree, nothing in /repo is touched):
runs bin/dippy-statusline in this process with open()/os.rename() of the *session cache* instrumented so that
the process SIGKILLs itself at one chosen point of the cache write.

usage: c20_killwrap.py <script> <point>     point in before_open | after_open | mid_write | after_close | after_rename
       | pause_mid_write (no kill: the write is split in two with a pause, so that another process overlaps it)
Only files whose path contains "/claude-statusline/" and does not contain "mcp.cache" are instrumented."""
import builtins
import os
import runpy
import signal
import sys

script, point = sys.argv[1], sys.argv[2]
real_open = builtins.open
real_rename = os.rename


def die():
    sys.stdout.flush()
    os.kill(os.getpid(), signal.SIGKILL)


def ours(path):
    try:
        p = os.fspath(path)
    except TypeError:
        return False
    return isinstance(p, str) and "/claude-statusline/" in p and "mcp.cache" not in p


class Proxy:
    def __init__(self, f):
        self._f = f

    def write(self, text):
        if point == "mid_write":
            half = text[: max(1, len(text) // 2)]
            self._f.write(half)
            self._f.flush()
            die()
        if point == "pause_mid_write":
            import time
            half = text[: max(1, len(text) // 2)]
            self._f.write(half)
            self._f.flush()
            time.sleep(0.7)
            return self._f.write(text[len(half):]) + len(half)
        return self._f.write(text)

    def __enter__(self):
        return self

    def __exit__(self, *a):
        self._f.close()
        if point == "after_close":
            die()
        return False

    def __getattr__(self, name):
        return getattr(self._f, name)


def open_(path, mode="r", *a, **kw):
    if ours(path) and isinstance(mode, str) and mode[:1] in ("w", "a", "x"):
        if point == "before_open":
            die()
        f = real_open(path, mode, *a, **kw)
        if point == "after_open":
            die()
        return Proxy(f)
    return real_open(path, mode, *a, **kw)


def rename_(src, dst, *a, **kw):
    r = real_rename(src, dst, *a, **kw)
    if ours(dst) and point == "after_rename":
        die()
    return r


builtins.open = open_
os.rename = rename_
sys.argv = [script]
runpy.run_path(script, run_name="__main__")
