"""C15 - audit logging is a pure observer, even when it fails.

The REAL hook (`/venv/bin/python <repo>/bin/dippy-hook`) is run as a subprocess in a scratch HOME and
cwd whose `.dippy` sets `set log <path>` / `set log-full`, under every fault kind at each of the two
log sinks, for every verdict class and host mode.

Implementation-level oracle (model-free):
  * stdout and exit status byte-identical to the run with no log configured and a working approvals log,
  * no "Traceback" on stderr,
  * when the decision log works: exactly one new line per decision, json.loads works, the keys are the
    documented ones, "command" present iff log-full (and the decision is about a shell command), earlier
    content untouched; when it does not work: nothing is added anywhere,
  * strace: one write(2) per log line on an O_APPEND descriptor (also for lines of 300 kB),
  * 2..32 concurrent hook processes x rounds appending to one log: every line parses, the count matches,
    each process's lines are in its own order,
  * several decisions in ONE process (harness/c18_worker.py runs main() repeatedly): every ordered pair of log
    configurations (none / file with log-full / another file / the same file without log-full / /dev/full / NUL path /
    missing directories / a directory / log-full alone) and random histories of 2..10 runs over all verdict classes and
    hosts: what each run prints and what it appends to which file is exactly what the same run does in a fresh process.
Correspondence: Model/Logging.v `hook_run` on the same scenario (fault table derived from the fault
kind) must predict stdout shape, exit, the decision-log lines byte for byte (given the timestamp), the
approvals-log records, the fallback records on stderr and the number of logging tracebacks; Model/Cache.v `effects`
on the in-process histories must predict, per run, the file that grows and whether the line carries the command
(C15_history_local: a function of the run's own configuration and faults, whatever the process did before)."""
from __future__ import annotations

import concurrent.futures as cf
import json
import os
import random
import re
import shutil
import subprocess
import tempfile

from . import core, lib

TRUSTED = [
    "Coq 8.16.1 kernel and its VM (vm_compute for closed facts: hex digits, literal keys, refutation witnesses)",
    "axioms: none (every theorem of Props/C15.v prints 'Closed under the global context')",
    "extraction: ExtrOcamlBasic only; OCaml 4.13.1; ocaml/driver.ml; cross-checked in Coq by vm_compute on a sample",
    "the model abstracts routing and analysis of main() into given data (route, verdict, reason); its control flow around the "
    "two sinks (which logging.* calls happen on which route, which exception classes each site catches) is hand-written from "
    "dippy.py / config.py and tied by the correspondence on every scenario",
    "Python's logging module (Handler.handleError swallows emit errors and prints a traceback only when logging.raiseExceptions - off since 1aa56d9; "
    "lazy basicConfig() to stderr at WARNING when no handler is installed), json.dumps(ensure_ascii) - modelled, validated by the correspondence",
    "POSIX: a single write(2) on an O_APPEND descriptor of a regular file is atomic with respect to other appenders (kernel; "
    "observed by strace and by the concurrent runs, not verified)",
    "fault injection for 'the k-th operation fails' is done by harness/c15_wrap.py (monkeypatches one call, code under test unmodified)",
]

PY = "/venv/bin/python"
HOOK = os.path.join(lib.REPO, "bin", "dippy-hook")
WRAP = os.path.join(os.path.dirname(os.path.abspath(__file__)), "c15_wrap.py")
DUCK = "\U0001f424 "
# the except clauses / raiseExceptions setting as regenerated from the working tree (Gen/Tables.v);
# Props/C15.v C15_tables_tie proves it is the `head` table the theorems speak about
MODEL_TABLE = "current"

BASE_CFG = ['deny zap "NOZAP"', "allow-mcp mcp__srv__get*", 'deny-mcp mcp__srv__del* "NODEL"',
            'ask-mcp mcp__srv__put*', 'after git commit "remember to push"']

# verdict classes: how the input is built; `route` is what the model is told main() does
CLASSES = ["allow", "ask", "deny", "bypass", "mcp_allow", "mcp_deny", "mcp_ask", "mcp_none", "mcp_bypass",
           "cfg_error", "not_shell", "bad_json", "raise", "post", "post_silent"]
SHELL_CLASSES = ["allow", "ask", "deny", "bypass", "cfg_error", "bad_json", "post"]   # meaningful in every mode
COMMANDS = {"allow": "ls -la", "ask": "rm -rf x", "deny": "zap 1", "bypass": "rm -rf x", "cfg_error": "ls -la",
            "post": "git commit -m x", "post_silent": "ls", "raise": "ls"}
MCP_TOOLS = {"mcp_allow": "mcp__srv__get_issue", "mcp_deny": "mcp__srv__delete", "mcp_ask": "mcp__srv__put_x",
             "mcp_none": "mcp__other__x", "mcp_bypass": "mcp__srv__delete"}
MCP_PATTERN = {"mcp_allow": "mcp__srv__get*", "mcp_deny": "mcp__srv__del*", "mcp_ask": "mcp__srv__put*"}
MODES = ["claude", "gemini", "cursor", "flag-claude", "flag-gemini", "flag-cursor"]

A_KINDS = ["ok", "fresh_home", "home_missing", "home_is_file", "dotdir_is_file", "log_is_dir", "devfull", "home_unset"]
D_KINDS = ["none", "ok", "ok_full", "full_only", "seeded", "seeded_full", "missing_dir", "tilde", "parent_is_file",
           "path_is_dir", "devfull", "nul", "nosuchuser", "ok_then_nosuchuser", "loop", "toolong", "two_logs"]
D_WORKING = {"ok", "ok_full", "seeded", "seeded_full", "missing_dir", "tilde", "ok_then_nosuchuser", "two_logs"}
D_FULL = {"ok_full", "seeded_full"}
SEED_LINE = '{"decision": "allow", "cmd": "earlier", "ts": "2020-01-01T00:00:00+00:00"}\n'


def mode_of(m):
    return m.split("-")[-1]


def build_input(cls, mode, cwd):
    """stdin text for a verdict class in a host mode."""
    if cls == "bad_json":
        return "{not json"
    host = mode_of(mode)
    cmd = COMMANDS.get(cls, "ls")
    if host == "cursor":
        d = {"command": cmd, "cwd": cwd}
    else:
        tool = "Bash" if host == "claude" else "run_shell_command"
        d = {"tool_name": tool, "tool_input": {"command": cmd}, "cwd": cwd, "hook_event_name": "PreToolUse"}
    if cls in MCP_TOOLS:
        d["tool_name"] = MCP_TOOLS[cls]
        d["tool_input"] = {"x": 1}
    if cls in ("bypass", "mcp_bypass"):
        d["permission_mode"] = "bypassPermissions"
    if cls == "not_shell":
        d["tool_name"] = "Read"
    if cls == "raise":
        d["tool_input"] = ["not", "a", "dict"]
    if cls in ("post", "post_silent"):
        d["hook_event_name"] = "PostToolUse"
    return json.dumps(d)


def lay_out(sc, d):
    """Create the scratch HOME / cwd / log destination of a scenario.  Returns (env, cwd, info)."""
    home = os.path.join(d, "home")
    cwd = os.path.join(d, "cwd")
    logs = os.path.join(d, "logs")
    os.makedirs(cwd)
    os.makedirs(logs)
    host_dir = "." + (mode_of(sc["mode"]) if sc["mode"].startswith("flag-") else "claude")
    a = sc["A"]
    env = {"PATH": "/usr/bin:/bin", "PYTHONHASHSEED": "0", "HOME": home}
    applog = os.path.join(home, host_dir, "hook-approvals.log")
    if a == "home_is_file":
        with open(home, "w") as f:
            f.write("")
        applog = None
    elif a == "home_missing":
        pass                 # HOME names a directory that does not exist yet: setup_logging creates it (mkdir parents)
    else:
        os.makedirs(home)
        if a == "ok":
            os.makedirs(os.path.join(home, host_dir))
        elif a == "dotdir_is_file":
            with open(os.path.join(home, host_dir), "w") as f:
                f.write("")
            applog = None
        elif a == "log_is_dir":
            os.makedirs(applog)
            applog = None
        elif a == "devfull":
            os.makedirs(os.path.join(home, host_dir))
            os.symlink("/dev/full", applog)
            applog = None
        elif a == "home_unset":
            del env["HOME"]   # Path.home() falls back to the password database
            applog = None
    # decision sink
    k = sc["D"]
    lines = list(BASE_CFG)
    if sc.get("warn"):
        lines.insert(1, "frobnicate this line")       # an invalid directive: one logging.warning
    target = None
    events = [["warn"]] if sc.get("warn") else []
    faults = []
    good = os.path.join(logs, "audit.log")
    if k in ("ok", "ok_full", "seeded", "seeded_full"):
        target = good
        lines.append(f"set log {good}")
        events.append(["setlog", good])
        if k in D_FULL:
            lines.append("set log-full")
            events.append(["setlogfull"])
        if k.startswith("seeded"):
            with open(good, "w") as f:
                f.write(SEED_LINE)
    elif k == "full_only":
        lines.append("set log-full")
        events.append(["setlogfull"])
    elif k == "missing_dir":
        target = os.path.join(logs, "m1", "m2", "audit.log")
        lines.append(f"set log {target}")
        events.append(["setlog", target])
    elif k == "tilde":
        if a in ("ok", "fresh_home", "home_missing", "log_is_dir", "devfull", "dotdir_is_file"):
            target = os.path.join(home, "dl", "audit.log")
        lines.append("set log ~/dl/audit.log")
        events.append(["setlog", "~/dl/audit.log"])
        if a == "home_is_file":
            faults.append(["cfg_mkdir", "*", "os"])
        if a == "home_unset":
            lines[-1] = f"set log {good}"         # do not write below the real home directory
            events[-1] = ["setlog", good]
            target = good
    elif k == "parent_is_file":
        with open(os.path.join(logs, "afile"), "w") as f:
            f.write("")
        p = os.path.join(logs, "afile", "audit.log")
        lines.append(f"set log {p}")
        events.append(["setlog", p])
        faults.append(["cfg_mkdir", "*", "os"])
    elif k == "path_is_dir":
        p = os.path.join(logs, "adir")
        os.makedirs(p)
        lines.append(f"set log {p}")
        events.append(["setlog", p])
        faults.append(["dec_open", "*", "os"])
    elif k == "devfull":
        lines.append("set log /dev/full")
        events.append(["setlog", "/dev/full"])
        faults.append(["dec_write", "*", "os"])
    elif k == "nul":
        p = os.path.join(logs, "a\0b", "audit.log")
        lines.append(f"set log {p}")
        events.append(["setlog", p])
        faults.append(["cfg_mkdir", "*", "value"])
    elif k == "nosuchuser":
        lines.append("set log ~nosuchuser-dippy/audit.log")
        events.append(["setlog", "~nosuchuser-dippy/audit.log"])
        faults.append(["expand", "*", "runtime"])
    elif k == "ok_then_nosuchuser":
        target = good
        lines.append(f"set log {good}")
        lines.append("set log ~nosuchuser-dippy/audit.log")
        events.append(["setlog", good])
        events.append(["setlog", "~nosuchuser-dippy/audit.log"])
        faults.append(["expand", "second", "runtime"])
    elif k == "loop":
        os.symlink("loop", os.path.join(logs, "loop"))
        p = os.path.join(logs, "loop", "audit.log")
        lines.append(f"set log {p}")
        events.append(["setlog", p])
        faults.append(["cfg_mkdir", "*", "os"])
    elif k == "toolong":
        p = os.path.join(logs, "n" * 300)
        lines.append(f"set log {p}")
        events.append(["setlog", p])
        faults.append(["dec_open", "*", "os"])
    elif k == "two_logs":
        other = os.path.join(logs, "first.log")
        target = good
        lines.append(f"set log {other}")
        lines.append(f"set log {good}")
        events.append(["setlog", other])
        events.append(["setlog", good])
    with open(os.path.join(cwd, ".dippy"), "w") as f:
        f.write("\n".join(lines) + "\n")
    if sc["cls"] == "cfg_error":
        env["DIPPY_CONFIG"] = "/proc/self/mem"     # a regular file whose read fails with EIO
    # approvals sink faults
    if a in ("home_is_file", "dotdir_is_file"):
        faults.append(["setup_mkdir", "*", "os"])
    elif a == "log_is_dir":
        faults.append(["setup_open", "*", "os"])
    elif a == "devfull":
        faults.append(["emit", "*", "os"])
    return env, cwd, {"applog": applog, "target": target, "events": events, "faults": faults, "logs": logs,
                      "other": os.path.join(logs, "first.log")}


def read(p):
    try:
        with open(p, encoding="utf-8", errors="surrogateescape") as f:
            return f.read()
    except OSError:
        return None


def snapshot(root):
    """every regular file below root -> content (to see stray partial writes)"""
    out = {}
    for dp, dn, fn in os.walk(root):
        for n in fn:
            p = os.path.join(dp, n)
            if os.path.isfile(p) and not os.path.islink(p):
                out[os.path.relpath(p, root)] = read(p)
    return out


def run_scenario(sc, root):
    d = tempfile.mkdtemp(dir=root)
    env, cwd, info = lay_out(sc, d)
    flags = ["--" + mode_of(sc["mode"])] if sc["mode"].startswith("flag-") else []
    stdin = sc.get("stdin") or build_input(sc["cls"], sc["mode"], cwd)
    if sc.get("command") is not None and sc["cls"] != "bad_json":
        dd = json.loads(stdin)
        if "tool_input" in dd and isinstance(dd["tool_input"], dict):
            dd["tool_input"]["command"] = sc["command"]
        else:
            dd["command"] = sc["command"]
        stdin = json.dumps(dd)
    if sc.get("inject"):
        env["C15_FAULT"] = json.dumps(sc["inject"])
        argv = [PY, WRAP, HOOK] + flags
    else:
        argv = [PY, HOOK] + flags
    p = subprocess.run(argv, input=stdin.encode("utf-8", "surrogatepass"), capture_output=True, env=env, cwd=cwd,
                       timeout=60)
    res = {
        "stdout": p.stdout.decode("utf-8", "replace"), "exit": p.returncode,
        "stderr": p.stderr.decode("utf-8", "replace"),
        "declog": read(info["target"]) if info["target"] else None,
        "applog": read(info["applog"]) if info["applog"] else None,
        "logs_files": snapshot(info["logs"]),
        "info": info, "stdin": stdin, "dir": d,
    }
    shutil.rmtree(d, ignore_errors=True)
    return res


def parse_stdout(text):
    """-> list of model-shaped outv, or ('raw', text)"""
    if text == "":
        return []
    try:
        j = json.loads(text)
    except ValueError:
        if text.startswith(DUCK):
            return [["msg", text[len(DUCK):].rstrip("\n")]]
        return [["raw", text]]
    if j == {}:
        return [["empty"]]
    if "hookSpecificOutput" in j:
        h = j["hookSpecificOutput"]
        return [["env", "claude", h["permissionDecision"], h["permissionDecisionReason"][len(DUCK):]]]
    if "decision" in j:
        return [["env", "gemini", j["decision"], j["reason"][len(DUCK):]]]
    if "permission" in j:
        return [["env", "cursor", j["permission"], j["user_message"][len(DUCK):]]]
    return [["raw", text]]


def route_for(sc, base_out):
    """What the model is told main() does, with verdict and reason read off the baseline run."""
    cls = sc["cls"]
    out = base_out[0] if base_out else None
    cmd = sc.get("command") if sc.get("command") is not None else COMMANDS.get(cls, "ls")
    if cls in ("allow", "ask", "deny"):
        return ["check", cmd, out[2], out[3]]
    if cls == "bypass":
        return ["bypass", "bypassPermissions", cmd]
    if cls == "mcp_bypass":
        return ["mcp_bypass", "bypassPermissions"]
    if cls in ("mcp_allow", "mcp_deny", "mcp_ask"):
        return ["mcp", out[2], out[3], MCP_PATTERN[cls]]
    if cls == "mcp_none":
        return ["mcp_none"]
    if cls == "not_shell":
        return ["not_shell"]
    if cls in ("post", "post_silent"):
        return ["post", [out[1]] if out else []]
    if cls == "raise":
        return ["raise"]
    return ["not_shell"]   # bad_json / cfg_error: route not reached


def hin_for(sc, base_out):
    explicit = sc["mode"].startswith("flag-")
    cls = sc["cls"]
    host = mode_of(sc["mode"])
    if explicit:
        mode = host
    elif cls in MCP_TOOLS or cls == "not_shell":
        mode = "claude" if host != "cursor" else "claude"
    else:
        mode = host
    unknown = (not explicit) and cls == "not_shell"
    return [cls != "bad_json", explicit, mode, unknown, None, cls == "cfg_error", route_for(sc, base_out)]


def model_faults(model, hin, faults, ts):
    """resolve the symbolic index 'second' (second operation at that site) to the global operation index"""
    out = [[site, "*", e] for site, k, e in faults if k == "*"]
    for site, k, e in faults:
        if k == "*":
            continue
        nth = 1 if k == "second" else k
        r = model.call(["hook_run", MODEL_TABLE, [f for f in out], ts, hin])
        idx = [i for i, s in enumerate(r[6]) if s == site]
        if len(idx) <= nth:
            continue     # the operation does not happen on this route
        out.append([site, chr(idx[nth]), e])
    return out


LEVEL_RE = re.compile(r"\[(INFO|WARNING|ERROR)\]")
FALLBACK_RE = re.compile(r"^(INFO|WARNING|ERROR):root:", re.M)


def check_one(out, model, sc, res, base, xcheck):
    """oracle + correspondence for one scenario against its baseline"""
    sig = f"{sc['cls']}|{sc['mode']}|A={sc['A']}|D={sc['D']}|inject={json.dumps(sc.get('inject'))}"
    common = {"scenario": sc, "stdin": res["stdin"], "stdout": res["stdout"], "exit": res["exit"],
              "stderr": res["stderr"][-1500:], "baseline_stdout": base["stdout"], "baseline_exit": base["exit"]}
    # ---- implementation-level oracle
    if res["stdout"] != base["stdout"] or res["exit"] != base["exit"]:
        out.violations.append({"kind": "observer", "what": "stdout/exit differ from the run with logging off",
                               **common, "signature_text": "observer:" + sig})
    if "Traceback" in res["stderr"]:
        where = "approvals" if "--- Logging error ---" in res["stderr"] else "crash"
        out.violations.append({"kind": "stderr-traceback", "what": "a traceback is printed on stderr",
                               **common, "signature_text": f"stderr-traceback:{where}:" + sig})
    info = res["info"]
    decides = sc["cls"] in ("allow", "ask", "deny", "bypass", "mcp_allow", "mcp_deny", "mcp_ask", "mcp_bypass")
    seeded = sc["D"].startswith("seeded")
    injected_dec = bool(sc.get("inject")) and sc["inject"]["site"] in ("cfg_mkdir", "dec_open", "dec_write", "expand")
    new_lines = None
    if sc["D"] in D_WORKING and info["target"] and not injected_dec:
        text = res["declog"] or ""
        if seeded:
            if not text.startswith(SEED_LINE):
                out.violations.append({"kind": "log-content", "what": "earlier log content was not preserved",
                                       **common, "declog": text, "signature_text": "log-overwritten:" + sig})
            text = text[len(SEED_LINE):]
        new_lines = text.split("\n")
        ok = text == "" or text.endswith("\n")
        new_lines = [l for l in new_lines if l != ""] if ok else new_lines
        want = 1 if decides else 0
        if not ok or len(new_lines) != want:
            out.violations.append({"kind": "log-lines", "what": f"expected exactly {want} new complete line(s), got {new_lines!r}",
                                   **common, "signature_text": "log-lines:" + sig})
        for l in new_lines if ok else []:
            try:
                j = json.loads(l)
            except ValueError:
                out.violations.append({"kind": "log-json", "what": "log line is not JSON", **common, "line": l,
                                       "signature_text": "log-json:" + sig})
                continue
            keys = list(j)
            shell = sc["cls"] in ("allow", "ask", "deny", "bypass")
            want_keys = ["decision", "cmd"] + (["rule"] if sc["cls"] in MCP_PATTERN else []) + \
                        (["command"] if (sc["D"] in D_FULL and shell) else []) + ["ts"]
            if keys != want_keys or not all(isinstance(v, str) for v in j.values()):
                out.violations.append({"kind": "log-keys", "what": f"keys {keys} but documented {want_keys}",
                                       **common, "line": l, "signature_text": "log-keys:" + sig})
            if "command" in j and j["command"] != (sc.get("command") if sc.get("command") is not None else COMMANDS[sc["cls"]]):
                out.violations.append({"kind": "log-command", "what": "recorded command differs from the input's",
                                       **common, "line": l, "signature_text": "log-command:" + sig})
    else:
        # no working decision log: no regular file below logs/ may have gained content
        for rel, content in res["logs_files"].items():
            allowed = SEED_LINE if seeded else ""
            if content not in ("", allowed):
                out.violations.append({"kind": "log-stray", "what": f"stray content in {rel}", **common,
                                       "content": content[:300], "signature_text": "log-stray:" + sig})
    if sc["D"] == "two_logs" and os.path.basename(info["other"]) in res["logs_files"] \
            and res["logs_files"][os.path.basename(info["other"])]:
        out.violations.append({"kind": "log-stray", "what": "the overridden first `set log` destination was written",
                               **common, "signature_text": "log-stray-first:" + sig})

    # ---- correspondence with the model
    base_out = parse_stdout(base["stdout"])
    hin = hin_for(sc, base_out)
    hin[4] = info["events"]
    ts = ""
    if new_lines:
        try:
            ts = json.loads(new_lines[0]).get("ts", "")
        except ValueError:
            ts = ""
    faults = list(info["faults"])
    if sc.get("inject"):
        faults.append([sc["inject"]["site"], sc["inject"]["k"], {"perm": "os"}.get(sc["inject"]["exn"], sc["inject"]["exn"])])
    try:
        mf = model_faults(model, hin, faults, ts)
        rec = len(xcheck) < 30 and (len(out.distinct) % 11 == 0)
        r = model.call(["hook_run", MODEL_TABLE, mf, ts, hin], record=rec)
        if rec:
            xcheck.append((model.last_request, [], r))
    except lib.ModelError as e:
        out.disagreements.append({"correspondence": "Logging.hook_run <-> bin/dippy-hook", "scenario": sc, "model": f"error {e}"})
        return
    m_out, m_exit, m_declog, m_applog, m_err, m_tbs = r[0], ord(r[1]) if r[1] else 0, r[2], r[3], r[4], ord(r[5]) if r[5] else 0
    impl_out = parse_stdout(res["stdout"])
    if sc["cls"] == "cfg_error" and impl_out and impl_out[0][0] == "env" and impl_out[0][3].startswith("config error"):
        impl_out[0][3] = "config error"      # the message text is not the model's business
    impl = {
        "stdout": impl_out, "exit": res["exit"],
        "declog": [l + "\n" for l in new_lines] if new_lines is not None else [],
        "tracebacks": res["stderr"].count("--- Logging error ---") + (1 if res["exit"] != 0 and "Traceback" in res["stderr"] else 0),
        "stderr_levels": FALLBACK_RE.findall(res["stderr"]),
    }
    mod = {"stdout": [list(o) for o in m_out], "exit": m_exit, "declog": list(m_declog), "tracebacks": m_tbs,
           "stderr_levels": list(m_err)}
    if sc["D"] not in D_WORKING or injected_dec or not info["target"]:
        # the destination is not a readable regular file: the model must say nothing was appended
        impl["declog"] = []
    if sc["A"] == "home_missing" and res["applog"] is None:
        res["applog"] = ""        # the model says the log is written: its absence must show as a difference
    if res["applog"] is not None and sc["A"] in ("ok", "fresh_home", "home_missing"):
        impl["applog"] = LEVEL_RE.findall(res["applog"])
        mod["applog"] = list(m_applog)
    if impl != mod:
        out.disagreements.append({"correspondence": "Logging.hook_run <-> bin/dippy-hook", "scenario": sc,
                                  "stdin": res["stdin"], "model": mod, "impl": impl, "faults": [[a, b if b == "*" else ord(b), c] for a, b, c in mf]})


# ---------------------------------------------------------------- strace: one write(2) per line
def strace_lines(root, sizes):
    """Run the hook under strace with log-full for commands of the given sizes; per size: number of
    write(2) calls on the O_APPEND descriptor of the decision log and whether the data is one complete line."""
    if not shutil.which("strace"):
        return None
    results = []
    for size in sizes:
        d = tempfile.mkdtemp(dir=root)
        sc = {"cls": "allow", "mode": "claude", "A": "ok", "D": "ok_full"}
        env, cwd, info = lay_out(sc, d)
        cmd = "echo " + "x" * max(0, size - 5)
        stdin = json.dumps({"tool_name": "Bash", "tool_input": {"command": cmd}, "cwd": cwd})
        trace = os.path.join(d, "trace")
        subprocess.run(["strace", "-f", "-e", "trace=openat,write", "-s", "40", "-o", trace, PY, HOOK],
                       input=stdin.encode(), capture_output=True, env=env, cwd=cwd, timeout=120)
        fd = None
        flags = ""
        writes = []
        for line in (read(trace) or "").splitlines():
            m = re.search(r'openat\(AT_FDCWD, "([^"]*)", ([A-Z_|]+)[^)]*\)\s*=\s*(\d+)', line)
            if m and m.group(1) == info["target"]:
                fd, flags = m.group(3), m.group(2)
                continue
            m = re.search(r"write\((\d+), .*?, (\d+)\)\s*=\s*(-?\d+)", line)
            if m and fd is not None and m.group(1) == fd:
                writes.append((int(m.group(2)), int(m.group(3))))
        text = read(info["target"]) or ""
        results.append({"command_bytes": len(cmd), "line_bytes": len(text.encode()), "o_append": "O_APPEND" in flags,
                        "open_flags": flags, "writes": writes, "one_line": text.count("\n") == 1 and text.endswith("\n")})
        shutil.rmtree(d, ignore_errors=True)
    return results


# ---------------------------------------------------------------- concurrency
def concurrent_round(root, nproc, rounds, cmd_size, full=True):
    d = tempfile.mkdtemp(dir=root)
    sc = {"cls": "allow", "mode": "claude", "A": "ok", "D": "ok_full" if full else "ok"}
    env, cwd, info = lay_out(sc, d)

    def worker(p):
        for r in range(rounds):
            cmd = f"echo p{p}_r{r}_" + "y" * cmd_size
            stdin = json.dumps({"tool_name": "Bash", "tool_input": {"command": cmd}, "cwd": cwd})
            subprocess.run([PY, HOOK], input=stdin.encode(), capture_output=True, env=env, cwd=cwd, timeout=120)

    with cf.ThreadPoolExecutor(max_workers=nproc) as ex:
        list(ex.map(worker, range(nproc)))
    text = read(info["target"]) or ""
    app = read(info["applog"]) or ""
    shutil.rmtree(d, ignore_errors=True)
    return text, app


def check_concurrent(out, model, root, nproc, rounds, cmd_size):
    text, app = concurrent_round(root, nproc, rounds, cmd_size)
    sig = f"concurrent|n={nproc}|rounds={rounds}|size={cmd_size}"
    out.case(sig)
    out.count("concurrency", f"{nproc}x{rounds}x{cmd_size}")
    lines = text.split("\n")
    bad = []
    tail = lines.pop()
    seen = {}
    for l in lines:
        try:
            j = json.loads(l)
            m = re.match(r"echo p(\d+)_r(\d+)_", j["command"])
            seen.setdefault(int(m.group(1)), []).append(int(m.group(2)))
        except Exception:
            bad.append(l[:200])
    order_ok = all(v == sorted(v) and v == list(range(rounds)) for v in seen.values()) and len(seen) == nproc
    if bad or tail != "" or len(lines) != nproc * rounds or not order_ok:
        out.violations.append({"kind": "concurrent-append", "what": f"{nproc} processes x {rounds} rounds: "
                               f"{len(lines)} lines (expected {nproc*rounds}), {len(bad)} unparsable, tail={tail[:80]!r}, "
                               f"per-process order ok={order_ok}", "bad_lines": bad[:5],
                               "signature_text": "concurrent:" + sig})
    # the approvals log is appended by the same processes (3 records each)
    alines = app.split("\n")
    atail = alines.pop()
    if atail != "" or len(alines) != 3 * nproc * rounds or not all(LEVEL_RE.search(l) for l in alines):
        out.violations.append({"kind": "concurrent-append", "what": f"approvals log: {len(alines)} records "
                               f"(expected {3*nproc*rounds}), tail={atail[:80]!r}", "signature_text": "concurrent-approvals:" + sig})
    # the model's line splitter on the real bytes (small files only)
    if len(text) < 20000 and text.isascii():
        r = model.call(["lines_of", text])
        if r[1] != "" or [l for l in r[0]] != [l + "\n" for l in lines]:
            out.disagreements.append({"correspondence": "Logging.lines_of <-> str.split on the real log", "sig": sig})


# ---------------------------------------------------------------- JSON rendering correspondence
def json_cases(rng, n):
    alphabet = ['"', "\\", "\n", "\r", "\t", "\b", "\f", "\x00", "\x1f", " ", "~", "\x7f", "\x80", "é", " ",
                "\ud800", "\udfff", "￿", "\U00010000", "\U0001f424", "\U0010ffff", "a", "/", "<", "{", "}"]
    for _ in range(n):
        k = rng.randint(1, 4)
        e = []
        for i in range(k):
            key = "".join(rng.choice(alphabet) for _ in range(rng.randint(0, 3))) + str(i)
            val = "".join(rng.choice(alphabet) for _ in range(rng.randint(0, 12)))
            e.append([key, val])
        yield e


def utf16_units(s):
    out = []
    for ch in s:
        c = ord(ch)
        if c < 0x10000:
            out.append(c)
        else:
            c -= 0x10000
            out += [0xD800 + (c >> 10), 0xDC00 + (c & 0x3FF)]
    return "".join(chr(u) for u in out)


# ---------------------------------------------------------------- several decisions in ONE process
# (library use / a test harness: the dimension the one-shot hook never shows).  What a decision appends to the
# decision log - where, how many lines, with or without the command text - and what it prints must be what the
# same decision does in a fresh process: nothing may be carried over from the decisions, configurations and
# failed writes before it (log-full of an earlier config, an earlier destination, a disabled flag, an open handle).
WORKER18 = os.path.join(os.path.dirname(os.path.abspath(__file__)), "c18_worker.py")
IP_KINDS = ["none", "a_full", "b_plain", "a_plain", "devfull", "nul", "missing_full", "isdir", "full_only"]
IP_WATCH = ["a.log", "b.log", os.path.join("m1", "m2", "c.log")]
IP_CLASSES = ["allow", "ask", "deny", "bypass", "mcp_allow", "mcp_deny", "mcp_none", "mcp_bypass", "not_shell", "bad_json", "post", "raise"]
IP_DECIDING = ["allow", "ask", "deny", "bypass", "mcp_allow", "mcp_deny", "mcp_bypass"]


def ip_spec(kind, logs):
    """(config lines, model log spec or None, configure fails, write fails)"""
    return {
        "none": ([], None, False, False),
        "a_full": ([f"set log {logs}/a.log", "set log-full"], [f"{logs}/a.log", True], False, False),
        "b_plain": ([f"set log {logs}/b.log"], [f"{logs}/b.log", False], False, False),
        "a_plain": ([f"set log {logs}/a.log"], [f"{logs}/a.log", False], False, False),
        "devfull": (["set log /dev/full", "set log-full"], ["/dev/full", True], False, True),
        "nul": ([f"set log {logs}/a\0b/x.log"], [f"{logs}/a\0b/x.log", False], True, False),
        "missing_full": ([f"set log {logs}/m1/m2/c.log", "set log-full"], [f"{logs}/m1/m2/c.log", True], False, False),
        "isdir": ([f"set log {logs}/adir"], [f"{logs}/adir", False], False, True),
        "full_only": (["set log-full"], None, False, False),
    }[kind]


def ip_world(root):
    d = tempfile.mkdtemp(dir=root)
    home = os.path.join(d, "home")
    logs = os.path.join(d, "logs")
    os.makedirs(os.path.join(home, ".claude"))
    os.makedirs(os.path.join(logs, "adir"))
    cwds = {}
    for k in IP_KINDS:
        c = os.path.join(d, "cwd_" + k)
        os.makedirs(c)
        with open(os.path.join(c, ".dippy"), "w") as f:
            f.write("\n".join(BASE_CFG + ip_spec(k, logs)[0]) + "\n")
        cwds[k] = c
    return {"dir": d, "home": home, "logs": logs, "cwds": cwds}


def ip_norm(growth):
    """[[file index, complete?, [line without its timestamp...]]...]"""
    out = []
    for i, a, b, text in growth:
        lines = []
        for l in text.split("\n")[:-1] if text.endswith("\n") else text.split("\n"):
            try:
                j = json.loads(l)
                j.pop("ts", None)
                lines.append(json.dumps(j))
            except ValueError:
                lines.append("RAW:" + l)
        out.append([IP_WATCH[i], text.endswith("\n") and b > a, lines])
    return out


def ip_run(root, steps, argv=(), fresh=False):
    """the steps as main() runs of one process, in a world of their own -> [[stdout, normalised growth]...];
    fresh: each step in its own child forked from a process that has imported dippy and decided nothing"""
    w = ip_world(root)
    try:
        final = [{"k": "main", "stdin": build_input(st["cls"], st["mode"], w["cwds"][st["K"]])} for st in steps]
        job = {"src": os.path.join(lib.REPO, "src"), "argv": list(argv), "history": [], "final": final, "snapshot": False,
               "watch": [os.path.join(w["logs"], x) for x in IP_WATCH]}
        if fresh:
            job = {"src": job["src"], "argv": job["argv"], "forkpool": final, "watch": job["watch"]}
        env = {"PATH": "/usr/bin:/bin", "HOME": w["home"], "PYTHONHASHSEED": "0"}
        p = subprocess.run([PY, WORKER18], input=json.dumps(job).encode(), capture_output=True, env=env, cwd=w["home"], timeout=300)
        if p.returncode != 0:
            raise RuntimeError("worker failed: " + p.stderr.decode("utf-8", "replace")[-1500:])
        r = json.loads(p.stdout.decode())
        pairs = r["answers"] if fresh else zip(r["answers"], r["growth"])
        return [[a.replace(w["dir"], "{W}"), ip_norm(g)] for a, g in pairs], w["logs"]
    finally:
        shutil.rmtree(w["dir"], ignore_errors=True)


def ip_model_queries(st, logs, stdout):
    spec, cfail, dfail = ip_spec(st["K"], logs)[1:]
    log = [spec] if spec else []
    cls = st["cls"]
    host = st["mode"]
    if cls == "bad_json":
        return []
    det = host if cls in ("allow", "ask", "deny", "bypass", "post", "raise") else "claude"
    if cls in ("allow", "ask", "deny"):
        o = parse_stdout(stdout)
        v = o[0][2] if o and o[0][0] == "env" else "ask"
        return [["main", det, [], v, "", log, cfail, dfail]]
    qs = [["setmode", det], ["configure", log, cfail]]
    if cls in ("bypass", "mcp_allow", "mcp_deny", "mcp_bypass"):
        qs.append(["log_decision", dfail])
    return qs


def direct_calls(out, model, root, tier, rng, xcheck):
    """config.configure_logging / config.log_decision called directly in one process (harness/c18_worker.py):
    (i) log_decision as a function: every subset of its optional arguments x log-full x awkward texts: the line that
        appears is Logging.jline (Logging.entry ...) of the model, byte for byte (given the timestamp);
    (ii) the disabled flag with a fault that comes and goes (a directory in the way of the log file, removed later):
        per call, a line appears exactly where Cache.effects says one does - a failure silences the calls after it
        until the next configure_logging, also when the sink works again."""
    texts = ["ls -la", 'say "hi"', "a\\b", "tab\there", "nl\nx", "é\U0001f424", "\ud800", "", "}{", "x" * 300]
    d = tempfile.mkdtemp(dir=root)
    home = os.path.join(d, "home")
    logs = os.path.join(d, "logs")
    os.makedirs(home)
    os.makedirs(logs)
    env = {"PATH": "/usr/bin:/bin", "HOME": home, "PYTHONHASHSEED": "0"}

    def run(final, watch):
        job = {"src": os.path.join(lib.REPO, "src"), "argv": [], "history": [], "final": final, "snapshot": False, "watch": watch}
        p = subprocess.run([PY, WORKER18], input=json.dumps(job).encode("utf-8", "surrogatepass"), capture_output=True, env=env, cwd=home, timeout=300)
        if p.returncode != 0:
            raise RuntimeError("worker failed: " + p.stderr.decode("utf-8", "replace")[-1500:])
        return json.loads(p.stdout.decode())["growth"]

    # (i) the entry as a function
    calls = []
    n = 0
    for full in (True, False):
        for rule in (None, "R"):
            for message in (None, "M"):
                for command in (None, "C"):
                    for rep in range(1 if tier == "quick" else 6):
                        t = lambda: texts[rng.randrange(len(texts))]   # noqa: E731
                        calls.append({"full": full, "decision": rng.choice(["allow", "ask", "deny"]), "cmd": t(),
                                      "rule": t() if rule else None, "message": t() if message else None,
                                      "command": t() if command else None})
                        n += 1
    final, idx = [], []
    path = os.path.join(logs, "direct.log")
    for c in calls:
        final.append({"k": "configure", "log": path, "full": c["full"]})
        final.append({"k": "log_call", **{k: c[k] for k in ("decision", "cmd", "rule", "message", "command")}})
        idx.append(len(final) - 1)
    growth = run(final, [path])
    for c, i in zip(calls, idx):
        out.case("direct:" + json.dumps(c, sort_keys=True))
        out.count("direct_optional_args", "".join(k[0] for k in ("rule", "message", "command") if c[k] is not None) or "-")
        g = growth[i]
        text = g[0][3] if g else ""
        try:
            ts = json.loads(text)["ts"]
        except (ValueError, KeyError):
            ts = ""
        if any(0xD800 <= ord(ch) < 0xE000 for k in ("cmd", "rule", "message", "command") if c[k] for ch in c[k]):
            text = None       # a lone surrogate does not survive the UTF-8 log file; the JSON stream covers the rendering
        rec = len(xcheck) < 60
        want = model.call(["log_entry", c["full"], c["decision"], c["cmd"], lib.opt(c["rule"]), lib.opt(c["message"]), lib.opt(c["command"]), ts], record=rec)
        if rec:
            xcheck.append((model.last_request, [], want))
        if text is not None and text != want:
            out.disagreements.append({"correspondence": "Logging.entry/jline <-> config.log_decision called directly", "call": c, "model": want, "impl": text})
        if text is not None:
            keys = list(json.loads(text)) if text else []
            want_keys = ["decision", "cmd"] + [k for k in ("rule", "message") if c[k] is not None] + \
                        (["command"] if c["full"] and c["command"] is not None else []) + ["ts"]
            if keys != want_keys or not text.endswith("\n") or text.count("\n") != 1:
                out.violations.append({"kind": "log-keys", "what": f"log_decision wrote keys {keys}, documented {want_keys}", "call": c, "line": text,
                                       "signature_text": "direct-keys:" + json.dumps({k: c[k] is not None for k in ("rule", "message", "command")}) + str(c["full"])})
    # (ii) a fault that comes and goes
    call = {"k": "log_call", "decision": "allow", "cmd": "x", "rule": None, "message": None, "command": "x"}
    scripts = []
    for full in (True, False):
        p1 = os.path.join(logs, f"t1_{full}")
        os.mkdir(p1)
        scripts.append((p1, [({"k": "configure", "log": p1, "full": full}, ["configure", [[p1, full]], False]),
                             (call, ["log_decision", True]),                      # a directory is in the way: the write fails
                             ({"k": "fs", "op": "rmdir", "path": p1}, None),     # the fault goes away
                             (call, ["log_decision", False]), (call, ["log_decision", False]),   # still silent
                             ({"k": "configure", "log": p1, "full": full}, ["configure", [[p1, full]], False]),
                             (call, ["log_decision", False]), (call, ["log_decision", False])]))
        p2 = os.path.join(logs, f"t2_{full}")
        scripts.append((p2, [({"k": "configure", "log": p2, "full": full}, ["configure", [[p2, full]], False]),
                             (call, ["log_decision", False]),
                             ({"k": "fs", "op": "unlink", "path": p2}, None), ({"k": "fs", "op": "mkdir", "path": p2}, None),
                             (call, ["log_decision", True]),
                             ({"k": "fs", "op": "rmdir", "path": p2}, None),
                             (call, ["log_decision", False]),
                             ({"k": "configure", "log": None, "full": False}, ["configure", [], False]),
                             (call, ["log_decision", False]),
                             ({"k": "configure", "log": p2, "full": not full}, ["configure", [[p2, not full]], False]),
                             (call, ["log_decision", False])]))
    for path, script in scripts:
        growth = run([q for q, _ in script], [path])
        mq = [m for _, m in script if m is not None]
        eff = model.call(["cache_effects", [], mq], record=True)
        xcheck.append((model.last_request, [], eff))
        it = iter(eff)
        out.case("direct-transient:" + json.dumps([q for q, _ in script]))
        out.count("direct_optional_args", "transient-fault script")
        for (q, m), g in zip(script, growth):
            e = next(it) if m is not None else []
            if q["k"] != "log_call":
                continue
            wrote = [[x[3].count("\n"), '"command"' in x[3]] for x in g if x[2] > x[1]]
            want = [[1, e[1] == "1"]] if e else []
            if wrote != want:
                out.disagreements.append({"correspondence": "Cache.effects <-> direct log_decision calls around a fault that comes and goes",
                                          "script": [q for q, _ in script], "at": q, "model": want, "impl": wrote})
    shutil.rmtree(d, ignore_errors=True)


def inproc_histories(out, model, root, tier, rng, xcheck, replay=None):
    quick = tier == "quick"
    modes = ["claude", "gemini", "cursor"]

    def classes_for(mode):
        # (a Cursor-shaped input has no tool_input to be malformed: "raise" is a plain allow there)
        return IP_CLASSES if mode == "claude" else [c for c in IP_CLASSES if c in SHELL_CLASSES or (c == "raise" and mode == "gemini")]

    hists = []
    if replay is not None:
        hists = [replay]
    else:
        # every ordered pair of log configurations, a deciding class each, and back to the first
        n = 0
        for k1 in IP_KINDS:
            for k2 in IP_KINDS:
                for rep in range(1 if quick else 3):
                    m1, m2 = modes[n % 3], modes[(n // 3) % 3]
                    c1 = [c for c in IP_DECIDING if c in classes_for(m1)][n % len([c for c in IP_DECIDING if c in classes_for(m1)])]
                    c2 = [c for c in IP_DECIDING if c in classes_for(m2)][(n // 2) % len([c for c in IP_DECIDING if c in classes_for(m2)])]
                    n += 1
                    a, b = {"K": k1, "cls": c1, "mode": m1}, {"K": k2, "cls": c2, "mode": m2}
                    hists.append([a, b, a])
        for _ in range(40 if quick else 400):
            h = []
            for _ in range(rng.randint(2, 10)):
                m = rng.choice(modes)
                h.append({"K": rng.choice(IP_KINDS), "cls": rng.choice(classes_for(m)), "mode": m})
            hists.append(h)
    keys = {}
    for h in hists:
        for st in h:
            keys.setdefault(json.dumps(st, sort_keys=True), st)
    with cf.ThreadPoolExecutor(max_workers=12) as ex:
        # fresh effects: forked children in 6 worlds; every 10th step also in a really fresh interpreter
        ks = list(keys)
        parts = [ks[j::6] for j in range(6)]
        fresh = {}
        for part, res in zip(parts, ex.map(lambda part: ip_run(root, [keys[k] for k in part], fresh=True)[0], parts)):
            fresh.update(zip(part, res))
        for k, res in zip(ks[::10], ex.map(lambda k: ip_run(root, [keys[k]])[0][0], ks[::10])):
            if res != fresh[k]:
                out.violations.append({"kind": "fresh-nondeterministic", "what": "a fresh interpreter and a child forked before any decision differ",
                                       "inproc": [keys[k]], "a": res, "b": fresh[k], "signature_text": "inproc-fresh:" + k})
        runs = list(ex.map(lambda h: ip_run(root, h), hists))
    for h, (res, logs) in zip(hists, runs):
        out.case("inproc:" + json.dumps(h, sort_keys=True))
        out.count("inprocess_history_length", str(len(h)) if len(h) <= 3 else "4-10")
        mq, at = [], []
        for i, (st, (stdout, growth)) in enumerate(zip(h, res)):
            out.count("inprocess_step", st["K"] + "/" + ("decides" if st["cls"] in IP_DECIDING else "silent"))
            f_stdout, f_growth = fresh[json.dumps(st, sort_keys=True)]
            if stdout != f_stdout or growth != f_growth:
                what = ("stdout of a decision" if stdout != f_stdout else "what a decision appends to the decision log") + \
                       " in a process that decided before differs from the same decision in a fresh process"
                out.violations.append({"kind": "inprocess-history", "what": what, "inproc": h, "step": i, "stdout": stdout, "fresh_stdout": f_stdout,
                                       "appended": growth, "fresh_appended": f_growth,
                                       "signature_text": "inproc:" + json.dumps(st, sort_keys=True)})
            one = ip_model_queries(st, logs, stdout)
            at.append((len(mq), len(one)))
            mq += one
        rec = len(xcheck) < 52 and len(mq) <= 8
        eff = model.call(["cache_effects", [], mq], record=rec) if mq else []
        if rec and mq:
            xcheck.append((model.last_request, [], eff))
        for st, (stdout, growth), (start, cnt) in zip(h, res, at):
            want = [e for e in eff[start:start + cnt] if e]
            shell = st["cls"] in ("allow", "ask", "deny", "bypass")
            m = [[os.path.relpath(want[0][0], logs), want[0][1] == "1" and shell]] if want else []
            got = [[f, any('"command"' in l for l in lines)] for f, ok, lines in growth if ok and len(lines) == 1]
            if m != got or len(got) != len(growth):
                out.disagreements.append({"correspondence": "Cache.effects <-> lines appended per main() run of one process",
                                          "history": h, "step": st, "model": m, "impl": growth})


def run(tier, seed, replay=None):
    rng = random.Random(seed)
    out = core.Outcome("C15")
    root = tempfile.mkdtemp(prefix="dippy-verif-")
    model = lib.Model()
    xcheck = []
    try:
        scenarios = []
        if replay and replay.get("inproc"):
            inproc_histories(out, model, root, tier, rng, xcheck, replay["inproc"])
            replay = {"scenario": None, "skip": True}
        elif replay and replay.get("scenario"):
            scenarios = [replay["scenario"]]
        else:
            quick = tier == "quick"
            # systematic: every verdict class x every fault kind at the approvals sink x at the decision sink (claude)
            for cls in CLASSES:
                for a in A_KINDS:
                    if a in ("home_unset", "home_missing") and cls not in ("allow", "deny", "mcp_allow", "bypass", "cfg_error", "bad_json"):
                        continue
                    for dk in D_KINDS:
                        if a == "home_unset" and dk not in ("none", "ok_full", "devfull", "nul"):
                            continue
                        if a == "home_missing" and dk not in ("none", "ok_full", "devfull", "nul", "tilde"):
                            continue
                        scenarios.append({"cls": cls, "mode": "claude", "A": a, "D": dk})
            # every mode (auto-detected and by flag) x shell verdict classes x a cross of fault kinds
            for mode in MODES[1:]:
                for cls in SHELL_CLASSES:
                    pairs = [("ok", "ok_full"), ("devfull", "devfull"), ("home_is_file", "nul"), ("log_is_dir", "path_is_dir"),
                             ("ok", "nosuchuser"), ("dotdir_is_file", "parent_is_file"), ("fresh_home", "seeded")]
                    if not quick:
                        pairs = [(a, dk) for a in A_KINDS[:-1] for dk in D_KINDS]
                    for a, dk in pairs:
                        scenarios.append({"cls": cls, "mode": mode, "A": a, "D": dk})
            # a warning while the config is read (an invalid line), with every approvals fault
            for cls in ("allow", "deny", "cfg_error", "mcp_allow"):
                for a in A_KINDS[:-1]:
                    for dk in ("none", "ok_full", "nosuchuser", "devfull"):
                        scenarios.append({"cls": cls, "mode": "claude", "A": a, "D": dk, "warn": True})
            # the k-th operation at each site fails, with each exception class the call can raise
            inj = []
            for site, ks, exns in (("setup_mkdir", [0], ["os", "perm"]), ("setup_open", [0], ["os", "perm"]),
                                   ("emit", [0, 1, 2, 3, "*"], ["os", "value", "runtime"]),
                                   ("expand", [0], ["runtime", "value"]), ("cfg_mkdir", [0], ["os", "perm", "value"]),
                                   ("dec_open", [0], ["os", "perm", "value"]), ("dec_write", [0], ["os", "value"])):
                for k in ks:
                    for e in exns:
                        inj.append({"site": site, "k": k, "exn": e})
            for cls in ("allow", "ask", "deny", "bypass", "mcp_allow", "mcp_deny", "mcp_bypass", "cfg_error", "bad_json", "raise", "post"):
                for i in inj:
                    for dk in (("ok_full",) if quick else ("ok_full", "seeded", "none")):
                        scenarios.append({"cls": cls, "mode": "claude", "A": "ok", "D": dk, "inject": i})
            for mode in ("gemini", "cursor", "flag-gemini"):
                for cls in ("allow", "deny"):
                    for i in inj[:: (3 if quick else 1)]:
                        scenarios.append({"cls": cls, "mode": mode, "A": "ok", "D": "ok_full", "inject": i, "warn": True})
            # random commands with awkward text (quotes, newlines, non-ASCII, surrogates) under log-full
            texts = ['echo "a b"', "echo 'x\ny'", "echo é\U0001f424", "echo \ud800", "printf '\\x00'", "echo \t\x7f",
                     "echo " + "z" * 9000, "ls -la", "echo }{\"", ""]
            n_rand = 20 if quick else 200
            for i in range(n_rand):
                c = rng.choice(texts) if i < len(texts) * 2 else "echo " + "".join(
                    rng.choice(["a", " ", '"', "'", "\\", "\n", "é", "\U0001f424", "\ud800", "$", "`"]) for _ in range(rng.randint(1, 30)))
                scenarios.append({"cls": "allow", "mode": rng.choice(MODES[:3]), "A": rng.choice(A_KINDS[:-1]),
                                  "D": rng.choice(["ok_full", "seeded_full", "ok", "devfull"]), "command": c})
        # baselines: same class / mode / warn / command with logging off and a working approvals log
        def base_key(sc):
            return (sc["cls"], sc["mode"], bool(sc.get("warn")), sc.get("command"))
        bases = {}
        for sc in scenarios:
            bases.setdefault(base_key(sc), {"cls": sc["cls"], "mode": sc["mode"], "A": "ok", "D": "none",
                                            "warn": sc.get("warn", False), "command": sc.get("command")})
        jobs = list(bases.values()) + scenarios
        with cf.ThreadPoolExecutor(max_workers=12) as ex:
            results = list(ex.map(lambda s: run_scenario(s, root), jobs))
        base_res = {base_key(s): r for s, r in zip(jobs[:len(bases)], results[:len(bases)])}
        # the baseline itself must be deterministic
        for k, b in list(base_res.items())[:40]:
            again = run_scenario(bases[k], root)
            if again["stdout"] != b["stdout"] or again["exit"] != b["exit"]:
                out.violations.append({"kind": "baseline", "what": "the no-logging run is not deterministic",
                                       "scenario": bases[k], "signature_text": f"baseline:{k}"})
        for sc, res in zip(scenarios, results[len(bases):]):
            out.case(json.dumps(sc, sort_keys=True), nontrivial=(sc["A"] != "ok" or sc["D"] != "none" or bool(sc.get("inject"))))
            out.count("verdict_class", sc["cls"])
            out.count("mode", sc["mode"])
            out.count("approvals_sink", sc["A"])
            out.count("decision_sink", sc["D"])
            out.count("injected_site", (sc.get("inject") or {}).get("site", "-"))
            out.count("stdout_shape", (parse_stdout(res["stdout"]) or [["(nothing)"]])[0][0])
            out.sample({"scenario": sc, "stdout": res["stdout"][:160], "exit": res["exit"],
                        "declog": (res["declog"] or "")[-200:]})
            check_one(out, model, sc, res, base_res[base_key(sc)], xcheck)

        if not (replay and (replay.get("scenario") or replay.get("skip"))):
            inproc_histories(out, model, root, tier, rng, xcheck)
            direct_calls(out, model, root, tier, rng, xcheck)
            # JSON writer: model jline == json.dumps, model reader == UTF-16 units, python reads it back
            n_json = 300 if tier == "quick" else 5000
            for e in json_cases(rng, n_json):
                out.case("json:" + json.dumps(e), nontrivial=True)
                out.count("json_entries", len(e))
                want = json.dumps(dict(e)) + "\n"
                rec = len(xcheck) < 45
                got = model.call(["json_line", e], record=rec)
                if rec:
                    xcheck.append((model.last_request, [], got))
                if got != want:
                    out.disagreements.append({"correspondence": "Logging.jline <-> json.dumps", "entry": e, "model": got, "impl": want})
                    continue
                back = model.call(["read_line", got])
                if back != [[[utf16_units(k), utf16_units(v)] for k, v in e]]:
                    out.disagreements.append({"correspondence": "Logging.read_line . jline <-> UTF-16 of the entry", "entry": e, "model": back})
                if json.loads(want) != {k: v for k, v in dict(e).items()} and not any(0xD800 <= ord(c) < 0xE000 for k, v in e for c in k + v):
                    out.violations.append({"kind": "json", "what": "json.loads(json.dumps(entry)) != entry", "entry": e,
                                           "signature_text": "json-roundtrip"})
            # strace
            sizes = [10, 4000, 8100, 8300, 20000, 70000, 300000] if tier == "quick" else \
                    [10, 1000, 4000, 4090, 4100, 8000, 8180, 8200, 8300, 16400, 20000, 65536, 70000, 131072, 300000, 1000000]
            st = strace_lines(root, sizes)
            out.extra["strace"] = st if st is not None else "strace not available"
            for s in st or []:
                out.case(f"strace:{s['command_bytes']}")
                out.count("strace_writes_per_line", len(s["writes"]))
                if not s["o_append"] or len(s["writes"]) != 1 or not s["one_line"] or s["writes"][0][0] != s["writes"][0][1]:
                    out.violations.append({"kind": "write-atomicity", "what": "a log line is not written by exactly one complete "
                                           "write(2) on an O_APPEND descriptor", "measured": s,
                                           "signature_text": f"write-split:{s['command_bytes']}"})
            # concurrency
            plan = [(2, 5, 10), (8, 4, 10), (32, 2, 10), (8, 3, 20000)] if tier == "quick" else \
                   [(2, 50, 10), (8, 50, 10), (16, 50, 10), (32, 50, 10), (32, 10, 20000), (16, 10, 300000)]
            for nproc, rounds, size in plan:
                check_concurrent(out, model, root, nproc, rounds, size)
            # the model of appends against itself: a torn schedule with two-chunk lines is visible to lines_of
            torn = model.call(["append_exec", [["a", "b\n"], ["c", "d\n"]], [chr(0), chr(1), chr(0), chr(1)]])
            if torn != "acb\nd\n":
                out.disagreements.append({"correspondence": "Logging.exec (extracted) <-> expected bytes", "model": torn})
    finally:
        model.close()
        shutil.rmtree(root, ignore_errors=True)
    n, mism = core.coq_crosscheck("C15", xcheck)
    out.extra["coq_vm_crosscheck"] = {"cases": n, "mismatches": len(mism)}
    if mism:
        out.disagreements.append({"correspondence": "extracted OCaml model <-> vm_compute in Coq", "detail": mism[:5]})
    out.extra["rule"] = (
        "systematic: 15 verdict classes (allow/ask/deny/bypass/5 mcp/config error/not-shell/bad JSON/exception/2 PostToolUse) x "
        "8 approvals-sink states (ok, fresh HOME, HOME not yet existing, HOME is a file, ~/.claude is a file, log path is a directory, /dev/full, HOME unset) x "
        "17 decision-sink states (none, ok, log-full, seeded, missing dir, ~, parent is a file, path is a directory, /dev/full, NUL, "
        "~nosuchuser, ok-then-~nosuchuser, symlink loop, name too long, two `set log`) in claude mode; a cross of these for the five other "
        "mode spellings; a config warning variant; injected failure of the k-th operation at each of the 7 sites with each exception "
        "class; random awkward command texts under log-full; random JSON entries; strace per line size; concurrent appenders; "
        "in-process histories: every ordered pair of 9 log configurations (first, second, first again) with a deciding class each and random "
        "histories of 2..10 main() runs over 12 verdict classes x 3 hosts, each run compared with the same run in a fresh process. "
        "distinct = distinct scenario descriptors; non-trivial = some sink is faulty or some operation is made to fail.  NB the HOME-unset scenarios (24 in quick) make the hook fall back to the password database, i.e. they append a few records to the "
        "approvals log below the real home of the uid running the check; everything else stays in the scratch directory")
    return out
