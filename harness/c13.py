"""C13 - remote delegation relaxes only local-path checks, only for the inner command.

Implementation-level oracles (model-free):
  (a) for an inner command I without local-path dependence, analyze(<exec> I) == analyze(I) under
      the same rule set (deny/ask/allow rules included);
  (b) only path checks are relaxed: an inner command that differs from a path-free one only by a
      redirect to / argument naming a local path is judged at most as strictly as (a)'s verdict of
      its path-free part, never more leniently than the path-free part itself;
  (c) everything outside the delegated command keeps full local checking: the verdict of
      `<exec> I <outer redirect>`, `<exec> I; S`, `S | <exec> I`, `echo $(S); <exec> I` is
      max(analyze(<exec> I), verdict of the outer part alone).
Correspondence: Ladder model on the exec words and walker model on the whole command."""
from __future__ import annotations

import itertools
import random
from pathlib import Path

from . import bashgen as bg
from . import core, lib
from .walk_oracles import make_ladder_oracles, model_analyze

TRUSTED = [
    "Coq 8.16.1 kernel and VM; axioms: none",
    "tools/gen_tables.py; extraction + driver; AST serialiser",
    "modelled, not verified: the docker/kubectl handlers are oracles of the ladder theorems here (their extraction of the inner command is proved against a spec in the C04 package, Props/C13H.v); parser and rule lookup are oracles",
]

CFG = 'deny zap "NOZAP"\nallow okcmd\nask askcmd\nallow-redirect /jail/out/*\ndeny-redirect /jail/secret/*\ndeny rm /etc/*\n'
EXECS = [
    "docker exec c", "docker exec -it c", "docker exec -i -t c", "docker exec -e A=1 c", "docker exec --env=A=1 c", "docker exec -w /app c",
    "docker exec -u root c", "docker exec --user=root -it c", "docker exec --workdir /app -e B=2 c", "podman exec c", "podman exec -it c",
    "docker exec -d c", "docker exec --privileged c",
    "kubectl exec pod --", "kubectl exec -it pod --", "kubectl exec -n ns pod --", "kubectl exec pod -c ctr --", "kubectl exec -i -t -n ns pod -c ctr --",
    "kubectl exec --namespace=ns pod --", "kubectl exec deploy/app --", "kubectl -n ns exec pod --", "kubectl --context prod exec pod --",
]
# spellings Dippy does NOT treat as a delegation (the docker handler knows `exec` only as a top-level
# subcommand): nothing is relaxed for them, the whole line is an unknown docker subcommand.  They were in EXECS
# at first; the thorough tier then reported `docker container exec c zap` = ask against `zap` = deny, which
# demands more than the property states (it speaks of commands that ARE delegated).  Control oracle instead:
# such a line is never approved, whatever the inner command.
NOT_DELEGATED = ["docker container exec c", "podman container exec c", "docker compose exec svc"]
# a short option of exec with its value attached, the value ending in (or being) a letter that is itself an option of
# exec: -eDEBUG=true, -w/var/www, -uwww, -itw/home/me (docker/podman: e u w take a value; kubectl: c n)
ATTACHED = [f"{tool} exec -{pre}{L}{val}{M} c" for tool in ("docker", "podman") for pre in ("", "it") for L in "euw" for val in ("x", "A=", "/v/") for M in "euwitd"] \
    + [f"kubectl exec pod -{pre}{L}{val}{M} --" for pre in ("", "it") for L in "cn" for val in ("x", "m-") for M in "cnitq"]
INNER_PLAIN = ["ls", "ls -la", "cat f", "echo hi", "git status", "okcmd a", "rm x", "git push", "frobnicate a", "askcmd", "zap", "zap a b",
               "sh -c ls", "sh -c 'rm x'", "bash -c 'zap'", "env ls", "env rm x", "timeout 5 ls", "nice zap", "time rm x", "xargs ls",
               "sh -c 'ls; zap'", "X=1 zap", "command -- git push", "nohup frobnicate a", "ls --help", "frobnicate --help",
               # nested shells and wrappers whose inner text carries its own substitutions / redirections:
               # everything but the local-path lookup must still be analysed inside the container
               "sh -c 'echo hi > $(rm x)'", "sh -c 'cat < <(zap)'", "bash -c 'ls > /tmp/$(zap)'", "sh -c 'echo $(rm x)'", "sh -c 'cat <<EOF\n$(zap)\nEOF'",
               "env sh -c 'echo hi >> $(frobnicate a)'", "sh -c 'ls 2> `rm x`'", "sh -c 'echo ${v:-$(zap)}'", "sh -c '{ ls; } > $(rm x)'",
               "timeout 5 sh -c 'ls > >(zap)'", "sh -c 'sh -c \"echo > \\$(rm x)\"'", "sh -c 'ls; cd /; rm x'", "sh -c 'if ls; then zap; fi'"]
# user rules whose pattern contains a path-shaped or slash-containing word of every kind: the delegated command is
# still matched against them (textually - the words are container paths), exactly as it would be locally
SLASH_WORDS = ["s/enforcing/disabled/", "example.com/install.sh", "./x", "a/b", "/etc/shadow", "~/k", "../y", "x/", "//z", "http://h/p", "a/../b",
               "/", ".", "..", "~", "*/c", "d/*.txt"]
WS_RULES = 'deny  wsa  x  "W1"\nask wsb\t-v  y\ndeny\twsc   --force *\nallow   wsd   run\n'
WS_INNER = ["wsa x", "wsa x y", "wsb -v y", "wsc --force z", "wsd run", "timeout 5 wsa x", "sh -c 'wsa x'"]
SLASH_RULES = "".join(f'deny frob{i} {w} "M{i}"\nask quux{i} -v {w}\n' for i, w in enumerate(SLASH_WORDS))
INNER_PATHY = [("rm /etc/passwd", "rm x"), ("cat /etc/passwd", "cat f"), ("ls /jail/secret", "ls")]
OUTER = [  # (template with {E} = the exec command, text of the outer part judged alone)
    ("{E} > nogrant", "echo > nogrant"), ("{E} > /jail/out/f", "echo > /jail/out/f"), ("{E} 2> /jail/secret/s", "echo 2> /jail/secret/s"),
    ("{E}; rm x", "rm x"), ("rm x; {E}", "rm x"), ("{E} && zap", "zap"), ("ls | {E}", "ls"), ("{E} | rm x", "rm x"), ("{E} | cat > nogrant", "cat > nogrant"),
    ("echo $(rm x); {E}", "echo $(rm x)"), ("( {E} ) > nogrant", "echo > nogrant"), ("if {E}; then zap; fi", "zap"),
    ("{E} $(zap)", "echo $(zap)"), ("{E} <(rm x)", "echo <(rm x)"), ("cd sub; {E}; ls > out/g", "cd sub; ls > out/g"),
    ("{E}\nls > nogrant", "ls > nogrant"), ("{E} & frobnicate a", "frobnicate a"),
]


def run(tier, seed, replay=None):
    lib.use_repo()
    from dippy.core import analyzer as an
    from dippy.core.config import parse_config

    rng = random.Random(seed)
    out = core.Outcome("C13")
    cwd = "/jail"
    cfg = parse_config(CFG)
    model = lib.Model()
    orc = make_ladder_oracles(cfg)
    xcheck = []

    def verdict(text):
        return an.analyze(text, cfg, Path(cwd)).action

    def correspond(text):
        rec = len(xcheck) < 30 and out.evaluations % 19 == 0
        mv = model_analyze(model, cfg, text, cwd, record=rec)
        iv = verdict(text)
        if rec and model.transcript is not None and len(model.transcript) < 60:
            xcheck.append((model.last_request, list(model.transcript), mv))
        if mv != iv:
            out.disagreements.append({"correspondence": "Walker.analyze_nodes <-> analyzer.analyze", "program": text, "model": mv, "impl": iv})

    execs = (EXECS + ATTACHED) if tier == "thorough" else (EXECS[::2] + ATTACHED[seed % 5::5])
    # (a) inner judged as locally
    for e, inner in itertools.product(execs, INNER_PLAIN):
        text = f"{e} {inner}"
        v_exec, v_in = verdict(text), verdict(inner)
        out.case(["inner", text])
        out.count("shape", "inner-plain")
        out.count("verdict", v_exec)
        if v_exec != v_in:
            out.violations.append({"kind": "inner-differs", "what": f"{text!r} is judged {v_exec} but the inner command alone {v_in}",
                                   "program": text, "inner": inner, "config": CFG, "signature_text": text})
        correspond(text)
        words = text.split() if "'" not in text else None
        if words:
            lv = an._analyze_simple_command(words, cfg, Path(cwd)).action
            mv = model.call(["ladder", cwd, False, words], orc)
            if mv != lv:
                out.disagreements.append({"correspondence": "Ladder.ladder <-> _analyze_simple_command", "words": words, "model": mv, "impl": lv})
        if out.evaluations % 61 == 0:
            out.sample({"program": text, "verdict": v_exec, "inner_alone": v_in})
    for e, inner in itertools.product(NOT_DELEGATED, INNER_PLAIN[:12]):
        text = f"{e} {inner}"
        v = verdict(text)
        out.case(["not-delegated", text])
        out.count("shape", "not-delegated-control")
        if v == "allow":
            out.violations.append({"kind": "undelegated-approved", "what": f"{text!r} is approved although Dippy does not analyse its inner command",
                                   "program": text, "config": CFG, "signature_text": text})
        correspond(text)
    # (a') rules with path-shaped words still decide inside the container
    cfg_ws = parse_config(CFG + WS_RULES)
    for e, inner in itertools.product(execs, WS_INNER):
        text = f"{e} {inner}"
        v_exec = an.analyze(text, cfg_ws, Path(cwd)).action
        v_in = an.analyze(inner, cfg_ws, Path(cwd)).action
        out.case(["ws-rule", text])
        out.count("shape", "rule-with-blanks")
        if v_exec != v_in:
            out.violations.append({"kind": "inner-differs", "what": f"{text!r} is judged {v_exec} but the inner command alone {v_in} (a rule written with several blanks decides it)",
                                   "program": text, "inner": inner, "config": CFG + WS_RULES, "signature_text": text})
    cfg_slash = parse_config(CFG + SLASH_RULES)
    for e, (i, w) in itertools.product(execs, list(enumerate(SLASH_WORDS))):
        for inner in (f"frob{i} {w}", f"frob{i} {w} extra", f"quux{i} -v {w}", f"timeout 5 frob{i} {w}", f"sh -c 'frob{i} {w}'"):
            text = f"{e} {inner}"
            v_exec = an.analyze(text, cfg_slash, Path(cwd)).action
            v_in = an.analyze(inner, cfg_slash, Path(cwd)).action
            out.case(["slash-rule", text])
            out.count("shape", "rule-with-path-word")
            if v_exec != v_in:
                out.violations.append({"kind": "inner-differs", "what": f"{text!r} is judged {v_exec} but the inner command alone {v_in} (a rule with the word {w!r} decides it)",
                                       "program": text, "inner": inner, "config": CFG + SLASH_RULES, "signature_text": text})
            mv = model_analyze(model, cfg_slash, text, cwd)
            if mv != v_exec:
                out.disagreements.append({"correspondence": "Walker.analyze_nodes <-> analyzer.analyze", "program": text, "model": mv, "impl": v_exec})
    # (a") compound inner commands: a nested shell whose text has a redirect / a command at every evaluation position is
    # judged inside the container exactly as the same nested shell is judged locally (Dippy analyses the text of a
    # nested shell in local mode: stricter than the property needs, and equal to the local verdict)
    from . import bashgen_ext as bx
    for e in execs[::3]:
        for pos, tmpl in bx.EXEC_POSITIONS:
            for x in ("ls > nogrant", "rm x", "zap"):
                if "{Xq}" in tmpl or "'" in tmpl:
                    continue
                inner = bx.fill(tmpl, x)
                if "'" in inner:
                    continue
                text = f"{e} sh -c '{inner}'"
                v, local = verdict(text), verdict(f"sh -c '{inner}'")
                out.case(["remote-position", text])
                out.count("shape", "compound-inner")
                if v != local:
                    out.violations.append({"kind": "inner-differs", "what": f"{text!r} is judged {v} but the nested shell alone {local} (position {pos})",
                                           "program": text, "config": CFG, "signature_text": text})
                if out.evaluations % 5 == 0:
                    correspond(text)
    # (b) only path checks are relaxed
    for e, (pathy, plain) in itertools.product(execs, INNER_PATHY):
        text = f"{e} {pathy}"
        v = verdict(text)
        out.case(["pathy", text])
        out.count("shape", "inner-path")
        # a path-shaped rule may still match the container path textually (stricter, fine); what must not
        # happen is that naming a path makes the delegated command MORE lenient than its path-free form
        if bg.ORDER[v] < bg.ORDER[verdict(f"{e} {plain}")]:
            out.violations.append({"kind": "path-relaxation", "what": f"{text!r} is judged {v}, its path-free form {plain!r} in the container {verdict(e + ' ' + plain)}: remote mode must ignore local-path rules only",
                                   "program": text, "config": CFG, "signature_text": text})
        correspond(text)
    # (c) the outer command line keeps full local checking
    for e, inner, (tmpl, outer_alone) in itertools.product(execs[:: (1 if tier == "thorough" else 2)], ["ls", "rm x", "zap"], OUTER):
        ecmd = f"{e} {inner}"
        text = tmpl.replace("{E}", ecmd)
        v = verdict(text)
        expect = bg.vmax([verdict(ecmd), verdict(outer_alone)])
        out.case(["outer", text])
        out.count("shape", "outer")
        out.count("verdict", v)
        if v != expect:
            out.violations.append({"kind": "outer-context", "what": f"{text!r} is judged {v}; the delegated part needs {verdict(ecmd)}, the outer part alone {verdict(outer_alone)}",
                                   "program": text, "config": CFG, "signature_text": text})
        correspond(text)
    # (d) the SAME text delegated and local on one command line: what remote mode relaxed for the delegated copy must
    # not leak to the local copy (nor the other way round), whatever wrapper or nested shell the local copy is run through.
    # Every verdict of this stream is computed with a freshly parsed configuration, so that the expectation cannot share
    # state with the command line under test.
    def fresh(text):
        return an.analyze(text, parse_config(CFG), Path(cwd)).action

    RELAXED = ["sed -i s/a/b/ conf", "tee /etc/hosts", "sort -o out f", "curl -o x http://h/p", "rm /etc/passwd", "cat f > nogrant", "ls > /jail/secret/s"]
    LOCAL = ["{I}", "env {I}", "sh -c '{I}'", "bash -c '{I}'", "nice {I}", "timeout 5 {I}", "command {I}", "time {I}", "X=1 {I}", "( {I} )", "echo $({I})"]
    for k, (e, inner, wrap, j_) in enumerate(itertools.product(execs[:: (1 if tier == "thorough" else 4)], RELAXED, LOCAL, ["; ", " && ", " | ", "\n"])):
        if tier == "quick" and k % 3 != seed % 3:
            continue
        ecmd, lcmd = f"{e} {inner}", wrap.replace("{I}", inner)
        for text in (f"{ecmd}{j_}{lcmd}", f"{lcmd}{j_}{ecmd}"):
            v = fresh(text)
            expect = bg.vmax([fresh(ecmd), fresh(lcmd)])
            out.case(["same-text", text])
            out.count("shape", "same-text-sibling")
            if v != expect:
                out.violations.append({"kind": "sibling-shares-delegated-verdict",
                                       "what": f"{text!r} is judged {v}; the delegated part alone needs {fresh(ecmd)}, the local part alone {fresh(lcmd)}",
                                       "program": text, "config": CFG, "signature_text": text})
    # (e) podman exec --latest / -l names no container: the words after the options ARE the command.  The handler reads
    # podman's command line with docker's option grammar (which has no such flag) and drops the first word as the
    # container name.  Expected: the verdict of the same inner command delegated the ordinary way.
    for e, inner in itertools.product(["podman exec -l", "podman exec --latest", "podman exec -il", "podman exec -l -it", "podman exec --latest -e A=1"],
                                      ["rm ls", "zap", "zap ls", "rm x", "ls", "frobnicate ls"]):
        text = f"{e} {inner}"
        v, expect = fresh(text), fresh(f"podman exec c {inner}")
        out.case(["podman-latest", text])
        out.count("shape", "podman-latest")
        if bg.ORDER[v] < bg.ORDER[expect]:
            out.violations.append({"kind": "podman-latest", "what": f"{text!r} is judged {v}: the first word of the command is taken for a container name; the command {inner!r} delegated the ordinary way is judged {expect}",
                                   "program": text, "config": CFG, "signature_text": "podman-latest: " + text})
    model.close()
    n, mism = core.coq_crosscheck("C13", xcheck)
    out.extra["coq_vm_crosscheck"] = {"cases": n, "mismatches": len(mism)}
    if mism:
        out.disagreements.append({"correspondence": "extracted OCaml model <-> vm_compute in Coq", "detail": mism[:5]})
    out.extra["rule"] = (f"{len(EXECS)} exec option spellings (docker/podman/kubectl) x {len(INNER_PLAIN)} inner commands (all verdict classes, nested shells "
                         f"and wrappers) ; x {len(INNER_PATHY)} inner commands with local-path arguments ; x {len(OUTER)} outer contexts (redirects, lists, pipelines, "
                         "substitutions, cd). distinct = distinct command texts (all non-trivial)")
    return out
