"""One Python process in which a whole history of Dippy calls is executed (C18).

stdin : {"src": <repo>/src, "argv": [...], and either
           "history": [query...], "final": [query...], "snapshot": bool, "watch": [file...]   (a history, then the query;
                                          "growth": per final query, what it appended to each watched file)
         or "pool": [query...], "seq": [pool index...], "residue": bool, "share_config": bool (a walk over a pool)
         or "forkpool": [query...], "watch": [file...]   (each query in its own child forked before anything was analysed;
                                          with watch every answer is [answer, growth of the watched files])}
stdout, history form:
        {"answers": [...for the final queries...], "loads": [[module, hit]...] per call of _load_handler,
         "loads_per_query": [n...], "cache_info": [hits, misses, maxsize, currsize], "state": {...},
         "changed": [[path, before, after, detail]...]  (harness/c18_state.py: whole history)}
stdout, pool form:
        {"seen": {pool index: [[answer, first position, count]...]},       every distinct answer an item ever got
         "residue": [[position, pool index, [[path, before, after, detail]...]]...]   per analysis, when asked for,
         "steps": [[[handler module asked for...], answer]...]                         per analysis, when residue is asked for,
         "shims": [labels of the functools caches found], "snap_ms": average cost of a snapshot, "state": {...}}
Queries:
  {"k": "analyze", "command", "config", "cwd", "remote"}   analyzer.analyze -> [action, reason]
  {"k": "main", "stdin"}                                     dippy.main() with stdin/stdout replaced -> stdout text
  {"k": "check", "command", "config", "cwd"}                 dippy.check_command -> envelope dict
  {"k": "setmode", "mode"}                                   dippy.MODE = mode
  {"k": "configure", "log", "full"}                          config.configure_logging
  {"k": "log_decision"}                                      config.log_decision("allow", "x", command="x")
  {"k": "log_call", "decision", "cmd", "rule", "message", "command"}   config.log_decision with those arguments
  {"k": "fs", "op": rmdir|mkdir|unlink, "path"}              the file system changes between two calls
With share_config the Config object of a config text is parsed once and handed to every analysis that uses
that text (what a long-lived caller does); it is then one of the snapshot roots (`input:config[i]`).
"""
import contextlib
import io
import json
import os
import sys
import time

job = json.loads(sys.stdin.read())
sys.path.insert(0, job["src"])
sys.argv = ["dippy-hook"] + job.get("argv", [])
sys.path.insert(1, os.path.dirname(os.path.abspath(__file__)))

import dippy.cli as cli  # noqa: E402
import dippy.core.analyzer as analyzer  # noqa: E402
import dippy.core.config as config  # noqa: E402
import dippy.dippy as hook  # noqa: E402
import dippy.vendor.parable as parable  # noqa: E402,F401
from pathlib import Path  # noqa: E402

import c18_state as st  # noqa: E402

assert cli.__file__.startswith(job["src"]), cli.__file__

shims = st.install_shims()
LOADER = "cli:_load_handler"


def loads():
    return [[c[1], c[2]] for c in st.CALLS if c[0] == LOADER]


shared = {}
share_config = bool(job.get("share_config"))


def cfg(text):
    if not share_config:
        # parse afresh every time: the Config object is an explicit argument, not process state
        return config.parse_config(text)
    if text not in shared:
        shared[text] = config.parse_config(text)
    return shared[text]


def roots():
    return {f"input:config[{i}]": c for i, c in enumerate(shared.values())}


def run(q):
    k = q["k"]
    if k == "analyze":
        d = analyzer.analyze(q["command"], cfg(q["config"]), Path(q["cwd"]), remote=q.get("remote", False))
        return [d.action, d.reason]
    if k == "main":
        old = sys.stdin
        buf = io.StringIO()
        sys.stdin = io.StringIO(q["stdin"])
        try:
            with contextlib.redirect_stdout(buf):
                hook.main()
        finally:
            sys.stdin = old
        return buf.getvalue()
    if k == "check":
        return hook.check_command(q["command"], cfg(q["config"]), Path(q["cwd"]))
    if k == "setmode":
        hook.MODE = q["mode"]
        return None
    if k == "configure":
        c = config.Config(log=Path(q["log"]) if q.get("log") else None, log_full=bool(q.get("full")))
        config.configure_logging(c)
        return None
    if k == "log_decision":
        config.log_decision("allow", "x", command="x")
        return None
    if k == "log_call":          # config.log_decision with any subset of its optional arguments
        kw = {n: q[n] for n in ("rule", "message", "command") if q.get(n) is not None}
        config.log_decision(q["decision"], q["cmd"], **kw)
        return None
    if k == "fs":                # the file system changes under the process (a transient fault comes or goes)
        {"rmdir": os.rmdir, "mkdir": os.mkdir, "unlink": os.unlink}[q["op"]](q["path"])
        return None
    raise ValueError(k)


def state():
    return {"MODE": hook.MODE, "explicit": hook._EXPLICIT_MODE, "log_config": config._log_config is not None,
            "log_disabled": config._log_disabled}


def cache_info():
    real = getattr(cli._load_handler, "__c18_real__", cli._load_handler)
    ci = real.cache_info()
    return [ci.hits, ci.misses, ci.maxsize, ci.currsize]


watch = job.get("watch") or []


def sizes():
    out = []
    for p in watch:
        try:
            out.append(os.path.getsize(p) if os.path.isfile(p) else 0)
        except OSError:
            out.append(0)
    return out


def grown(s0):
    g = []
    for i, (a, b) in enumerate(zip(s0, sizes())):
        if b > a:
            with open(watch[i], "rb") as f:
                f.seek(a)
                g.append([i, a, b, f.read().decode("utf-8", "replace")])
        elif b < a:
            g.append([i, a, b, ""])      # truncated, removed or replaced
    return g


if "forkpool" in job:
    # every query in its own child forked from this process, which has imported dippy and analysed nothing
    answers = []
    for q in job["forkpool"]:
        r, w = os.pipe()
        pid = os.fork()
        if pid == 0:
            try:
                os.close(r)
                s0 = sizes()
                a = run(q)
                data = json.dumps([a, grown(s0)] if watch else a).encode()
                os.write(w, data)
            finally:
                os._exit(0)
        os.close(w)
        buf = b""
        while True:
            chunk = os.read(r, 1 << 16)
            if not chunk:
                break
            buf += chunk
        os.close(r)
        os.waitpid(pid, 0)
        answers.append(json.loads(buf.decode()) if buf else ["?", "child failed"])
    print(json.dumps({"answers": answers}))
    sys.exit(0)

if "pool" in job:
    pool = job["pool"]
    seen = {}
    residue = []
    snap_s, snaps = 0.0, 0
    prev = None
    if job.get("residue"):
        if share_config:
            for q in pool:                      # the shared objects exist before the first snapshot
                if "config" in q:
                    cfg(q["config"])
        prev = st.snapshot(roots())
    steps = []
    for pos, idx in enumerate(job["seq"]):
        n0 = len(st.CALLS)
        a = run(pool[idx])
        if prev is not None:
            steps.append([[c[1] for c in st.CALLS[n0:] if c[0] == LOADER], a])
        key = json.dumps(a, sort_keys=True)
        e = seen.setdefault(idx, {})
        if key in e:
            e[key][2] += 1
        else:
            e[key] = [a, pos, 1]
        if prev is not None:
            t0 = time.time()
            cur = st.snapshot(roots())
            snap_s += time.time() - t0
            snaps += 1
            d = st.diff(prev, cur)
            if d:
                residue.append([pos, idx, d[:40]])
            prev = cur
    print(json.dumps({"seen": {str(i): list(e.values()) for i, e in seen.items()}, "residue": residue, "steps": steps, "shims": shims,
                      "snap_ms": round(1000 * snap_s / snaps, 2) if snaps else None, "state": state(),
                      "cache_info": cache_info(), "paths": len(prev.fp) if prev is not None else None}))
    sys.exit(0)

if share_config:
    for q in job["history"] + job["final"]:     # the shared objects exist before the first snapshot
        if "config" in q:
            cfg(q["config"])
before = st.snapshot(roots()) if job.get("snapshot") else None
per_query = []
for q in job["history"]:
    n0 = len(st.CALLS)
    run(q)
    per_query.append(len([c for c in st.CALLS[n0:] if c[0] == LOADER]))
answers = []
growth = []

for q in job["final"]:
    n0 = len(st.CALLS)
    s0 = sizes()
    answers.append(run(q))
    per_query.append(len([c for c in st.CALLS[n0:] if c[0] == LOADER]))
    if watch:
        growth.append(grown(s0))
changed = []
if before is not None:
    changed = st.diff(before, st.snapshot(roots()))[:60]
print(json.dumps({
    "answers": answers, "loads": loads(), "loads_per_query": per_query,
    "cache_info": cache_info(), "state": state(), "changed": changed, "shims": shims, "growth": growth,
}))
