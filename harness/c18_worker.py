"""One Python process in which a whole history of Dippy calls is executed (C18).

stdin : {"src": <repo>/src, "history": [query...], "final": [query...], "snapshot": bool}
stdout: {"answers": [...for the final queries...], "loads": [[module, hit]...] per call of _load_handler,
         "loads_per_query": [n...], "cache_info": [hits, misses, maxsize, currsize], "state": {...},
         "changed": [[module, name, before, after]...]}
Queries:
  {"k": "analyze", "command", "config", "cwd", "remote"}   analyzer.analyze -> [action, reason]
  {"k": "main", "stdin"}                                     dippy.main() with stdin/stdout replaced -> stdout text
  {"k": "check", "command", "config", "cwd"}                 dippy.check_command -> envelope dict
  {"k": "setmode", "mode"}                                   dippy.MODE = mode
  {"k": "configure", "log", "full"}                          config.configure_logging
  {"k": "log_decision"}                                      config.log_decision("allow", "x", command="x")
"""
import contextlib
import io
import json
import sys
import types

job = json.loads(sys.stdin.read())
sys.path.insert(0, job["src"])
sys.argv = ["dippy-hook"] + job.get("argv", [])

import dippy.cli as cli  # noqa: E402
import dippy.core.analyzer as analyzer  # noqa: E402
import dippy.core.config as config  # noqa: E402
import dippy.dippy as hook  # noqa: E402
import dippy.vendor.parable as parable  # noqa: E402
from pathlib import Path  # noqa: E402

assert cli.__file__.startswith(job["src"]), cli.__file__

loads = []
real_load = cli._load_handler


def shim(module_name):
    before = real_load.cache_info().hits
    r = real_load(module_name)
    loads.append([module_name, real_load.cache_info().hits > before])
    return r


shim.cache_info = real_load.cache_info
cli._load_handler = shim


def fingerprint(v, depth=0):
    if isinstance(v, (str, int, float, bool, bytes, type(None))):
        return repr(v)
    if isinstance(v, (list, tuple)):
        if depth > 3:
            return f"<{type(v).__name__} len {len(v)}>"
        return type(v).__name__ + "[" + ",".join(fingerprint(x, depth + 1) for x in v) + "]"
    if isinstance(v, (set, frozenset)):
        return type(v).__name__ + "{" + ",".join(sorted(fingerprint(x, depth + 1) for x in v)) + "}"
    if isinstance(v, dict):
        if depth > 3:
            return f"<dict len {len(v)}>"
        return "dict{" + ",".join(sorted(fingerprint(k, depth + 1) + ":" + fingerprint(x, depth + 1) for k, x in v.items())) + "}"
    if isinstance(v, (types.FunctionType, types.BuiltinFunctionType, type, types.ModuleType)):
        return f"<{type(v).__name__} {getattr(v, '__name__', '?')} @{id(v)}>"
    if hasattr(v, "__dict__") and depth <= 3:
        return f"<{type(v).__name__} " + fingerprint(vars(v), depth + 1) + ">"
    return f"<{type(v).__name__}>"


def snapshot():
    mods = {"analyzer": analyzer, "cli": cli, "config": config, "dippy": hook, "parable": parable}
    for name, m in list(sys.modules.items()):
        if name.startswith("dippy.") and m is not None and name not in ("dippy.cli", "dippy.core.analyzer", "dippy.core.config",
                                                                       "dippy.dippy", "dippy.vendor.parable"):
            mods[name] = m
    out = {}
    for mn, m in mods.items():
        for k, v in list(vars(m).items()):
            if k.startswith("__") and k.endswith("__"):
                continue
            out[f"{mn}:{k}"] = fingerprint(v)
    # class attributes of the classes defined in the five main modules (dataclass defaults etc.)
    for mn in ("analyzer", "cli", "config", "dippy"):
        for k, v in list(vars(mods[mn]).items()):
            if isinstance(v, type) and getattr(v, "__module__", "").startswith("dippy"):
                for a, av in list(vars(v).items()):
                    if not (a.startswith("__") and a.endswith("__")) and not callable(av):
                        out[f"{mn}:{k}.{a}"] = fingerprint(av)
    return out


cfg_cache = {}


def cfg(text):
    # parse afresh every time: the Config object is an explicit argument, not process state
    return config.parse_config(text)


def run(q):
    k = q["k"]
    if k == "analyze":
        d = analyzer.analyze(q["command"], cfg(q["config"]), Path(q["cwd"]), remote=q.get("remote", False))
        return [d.action, d.reason]
    if k == "main":
        old = sys.stdin
        buf = io.StringIO()
        sys.stdin = io.StringIO(q["stdin"])
        try:
            with contextlib.redirect_stdout(buf):
                hook.main()
        finally:
            sys.stdin = old
        return buf.getvalue()
    if k == "check":
        return hook.check_command(q["command"], cfg(q["config"]), Path(q["cwd"]))
    if k == "setmode":
        hook.MODE = q["mode"]
        return None
    if k == "configure":
        c = config.Config(log=Path(q["log"]) if q.get("log") else None, log_full=bool(q.get("full")))
        config.configure_logging(c)
        return None
    if k == "log_decision":
        config.log_decision("allow", "x", command="x")
        return None
    raise ValueError(k)


before = snapshot() if job.get("snapshot") else None
per_query = []
for q in job["history"]:
    n0 = len(loads)
    run(q)
    per_query.append(len(loads) - n0)
answers = []
for q in job["final"]:
    n0 = len(loads)
    answers.append(run(q))
    per_query.append(len(loads) - n0)
changed = []
if before is not None:
    after = snapshot()
    for k in sorted(set(before) | set(after)):
        if before.get(k) != after.get(k):
            changed.append([k, (before.get(k) or "<absent>")[:200], (after.get(k) or "<absent>")[:200]])
ci = real_load.cache_info()
print(json.dumps({
    "answers": answers, "loads": loads, "loads_per_query": per_query,
    "cache_info": [ci.hits, ci.misses, ci.maxsize, ci.currsize],
    "state": {"MODE": hook.MODE, "explicit": hook._EXPLICIT_MODE, "log_config": config._log_config is not None,
              "log_disabled": config._log_disabled},
    "changed": changed,
}))
