"""Check framework: build (tables, Coq, extraction, driver), proof accounting, evidence,
violation / known-finding protocol."""
from __future__ import annotations

import fcntl
import glob
import hashlib
import json
import os
import re
import subprocess
import sys
import time

from . import lib

VERIF = lib.VERIF
COQ = os.path.join(VERIF, "coq")
BUILD = lib.BUILD
PY = "/venv/bin/python"

FORBIDDEN = re.compile(
    r"\b(Admitted|admit|Axiom|Axioms|Parameter|Parameters|Conjecture|Conjectures|Hypothesis|Hypotheses)\b"
    r"|Unset\s+Guard|bypass_check|type-in-type|impredicative-set|Admit\s+Obligations|Unset\s+Positivity|Unset\s+Universe"
)
# stdlib axioms a property may depend on, if any (none so far)
ALLOWED_AXIOMS: set[str] = set()


class BuildBroken(Exception):
    def __init__(self, what, detail=""):
        super().__init__(what)
        self.what = what
        self.detail = detail


def run(cmd, cwd=None, timeout=600, env=None):
    p = subprocess.run(cmd, cwd=cwd, timeout=timeout, capture_output=True, text=True, env=env)
    return p.returncode, p.stdout + p.stderr


def coq_sources():
    out = []
    for root, _, files in os.walk(COQ):
        for f in files:
            if f.endswith(".v"):
                out.append(os.path.join(root, f))
    return sorted(out)


def scan_forbidden():
    """Axiom-declaring words anywhere; Variable/Hypothesis only outside a Section (inside a Section
    they are discharged as explicit premises of every lemma that uses them)."""
    hits = []
    for p in coq_sources():
        rel = os.path.relpath(p, COQ)
        with open(p, encoding="utf-8") as f:
            text = f.read()
        text = re.sub(r"\(\*.*?\*\)", lambda m: "\n" * m.group(0).count("\n"), text, flags=re.S)
        depth = 0
        for ln, line in enumerate(text.splitlines(), 1):
            if re.match(r"\s*(Section|Module)\s+\w+", line) and ":=" not in line:
                depth += 1
            elif re.match(r"\s*End\s+\w+\s*\.", line):
                depth = max(0, depth - 1)
            for m in FORBIDDEN.finditer(line):
                word = m.group(0)
                if word.startswith("Hypothes") and depth > 0:
                    continue
                hits.append(f"{rel}:{ln}: {word}")
            if depth == 0 and re.match(r"\s*(Variable|Variables|Context)\b", line):
                hits.append(f"{rel}:{ln}: Variable outside a Section")
    return hits


def sources_hash():
    h = hashlib.sha1()
    for p in coq_sources():
        with open(p, "rb") as f:
            h.update(p.encode())
            h.update(f.read())
    with open(os.path.join(VERIF, "ocaml", "driver.ml"), "rb") as f:
        h.update(f.read())
    return h.hexdigest()


def build(log=None):
    """Regenerate tables from /repo, full .vo build, extraction, OCaml driver.  Serialised by a lock."""
    os.makedirs(BUILD, exist_ok=True)
    os.makedirs(os.path.join(BUILD, "ocaml"), exist_ok=True)
    with open(os.path.join(BUILD, "lock"), "w") as lk:
        fcntl.flock(lk, fcntl.LOCK_EX)
        t0 = time.time()
        rc, out = run([PY, os.path.join(VERIF, "tools", "gen_tables.py")], timeout=120,
                      env={**os.environ, "DIPPY_REPO": lib.REPO})
        if rc != 0:
            raise BuildBroken("translator tools/gen_tables.py (tables of /repo no longer in the expected form)", out)
        bad = scan_forbidden()
        if bad:
            raise BuildBroken("forbidden declarations in the Coq development", "\n".join(bad))
        if not os.path.exists(os.path.join(COQ, "Makefile")):
            vs = [os.path.relpath(p, COQ) for p in coq_sources() if not p.endswith("Extract.v")]
            with open(os.path.join(COQ, "_CoqProject")) as f:
                base = [l for l in f.read().splitlines() if l.startswith("-")]
            with open(os.path.join(COQ, "_CoqProject.full"), "w") as f:
                f.write("\n".join(base + vs) + "\n")
            rc, out = run(["coq_makefile", "-f", "_CoqProject.full", "-o", "Makefile"], cwd=COQ)
            if rc != 0:
                raise BuildBroken("coq_makefile", out)
        else:
            # new .v files appear over time: regenerate when the file list changed
            vs = [os.path.relpath(p, COQ) for p in coq_sources() if not p.endswith("Extract.v")]
            full = os.path.join(COQ, "_CoqProject.full")
            old = open(full).read().splitlines() if os.path.exists(full) else []
            if [l for l in old if l.endswith(".v")] != vs:
                os.remove(os.path.join(COQ, "Makefile"))
                fcntl.flock(lk, fcntl.LOCK_UN)
                return build(log)
        # a failed coqc leaves a .glob without .vo, which makes the grouped pattern rule look done
        for v in coq_sources():
            if not os.path.exists(v + "o"):
                for ext in (".glob", ".vok", ".vos"):
                    try:
                        os.remove(v[:-2] + ext)
                    except OSError:
                        pass
        rc, out = run(["timeout", "1500", "make", "-j16"], cwd=COQ, timeout=1600)
        if log is not None:
            log.append(out[-4000:])
        if rc != 0:
            m = re.findall(r'File "\./([^"]+)", line (\d+)', out)
            where = f"{m[-1][0]}:{m[-1][1]}" if m else "?"
            raise BuildBroken(f"Coq build failed at {where}", out[-3000:])
        # extraction + driver, cached on the hash of all sources
        stamp = os.path.join(BUILD, "ocaml", "stamp")
        h = sources_hash()
        if not (os.path.exists(stamp) and open(stamp).read() == h and os.path.exists(lib.MODELRUN)):
            ob = os.path.join(BUILD, "ocaml")
            rc, out = run(["timeout", "300", "coqc", "-Q", COQ, "DippyV", os.path.join(COQ, "Extract.v")], cwd=ob)
            if rc != 0:
                raise BuildBroken("extraction (coq/Extract.v)", out[-3000:])
            with open(os.path.join(VERIF, "ocaml", "driver.ml")) as f:
                drv = f.read()
            with open(os.path.join(ob, "driver.ml"), "w") as f:
                f.write(drv)
            rc, out = run(["timeout", "300", "ocamlfind", "ocamlopt", "-O3", "-w", "-a", "model.mli", "model.ml",
                           "driver.ml", "-o", "modelrun"], cwd=ob)
            if rc != 0:
                raise BuildBroken("OCaml build of the extracted model", out[-3000:])
            with open(stamp, "w") as f:
                f.write(h)
        return round(time.time() - t0, 1)


def proof_accounting(pid: str):
    """Re-check Props/<pid>.v and read its Print Assumptions output.
    Returns dict(obligations, discharged, theorems, axioms, lemma_count)."""
    src = os.path.join(COQ, "Props", f"{pid}.v")
    with open(src, encoding="utf-8") as f:
        text = f.read()
    text_nc = re.sub(r"\(\*.*?\*\)", "", text, flags=re.S)
    theorems = re.findall(r"^\s*Theorem\s+(\w+)", text_nc, flags=re.M)
    printed = re.findall(r"^\s*Print Assumptions\s+(\w+)", text_nc, flags=re.M)
    missing = [t for t in theorems if t not in printed]
    rc, out = run(["timeout", "600", "coqc", "-Q", COQ, "DippyV", src], cwd=COQ)
    if rc != 0:
        raise BuildBroken(f"Props/{pid}.v no longer checks", out[-3000:])
    closed = out.count("Closed under the global context")
    axioms = []
    if "Axioms:" in out:
        for blk in out.split("Axioms:")[1:]:
            for line in blk.splitlines():
                m = re.match(r"^(\S+)\s*:", line)
                if m:
                    axioms.append(m.group(1))
    bad_axioms = [a for a in axioms if a not in ALLOWED_AXIOMS]
    if missing:
        raise BuildBroken(f"Props/{pid}.v: theorems without Print Assumptions: {missing}")
    if bad_axioms:
        raise BuildBroken(f"Props/{pid}.v depends on axioms {sorted(set(bad_axioms))}")
    # each theorem must be closed by `exact`
    bodies = re.findall(r"Theorem\s+\w+.*?Qed\.", text_nc, flags=re.S)
    for b in bodies:
        if not re.search(r"Proof\.\s*exact\s", b):
            raise BuildBroken(f"Props/{pid}.v: a theorem is not closed by `exact <lemma>`")
    # lemmas in the Proofs/ files this property file imports (transitively counted by coqdep)
    rc, dep = run(["coqdep", "-Q", COQ, "DippyV", src], cwd=COQ)
    lemma_count = 0
    for f in set(re.findall(r"(\S+)\.vo", dep)):
        vf = os.path.join(COQ, f + ".v") if not os.path.isabs(f) else f + ".v"
        if "/Proofs/" in vf and os.path.exists(vf):
            with open(vf, encoding="utf-8") as fh:
                lemma_count += len(re.findall(r"^\s*(Lemma|Theorem|Corollary)\s", fh.read(), flags=re.M))
    return {
        "theorems": theorems,
        "obligations": len(theorems),
        "discharged": min(closed, len(theorems)) if closed >= len(printed) else closed,
        "axioms": sorted(set(axioms)),
        "supporting_lemmas": lemma_count,
    }


# ---------------------------------------------------------------- known findings
def known_findings(pid):
    p = os.path.join(VERIF, "known_findings.json")
    if not os.path.exists(p):
        return []
    with open(p) as f:
        data = json.load(f)
    return [e for e in data.get("findings", []) if e.get("property") == pid]


class Outcome:
    """What a property's harness reports back."""

    def __init__(self, pid):
        self.pid = pid
        self.evaluations = 0
        self.distinct = set()
        self.samples = []
        self.violations = []  # list of dict(kind, what, input..., sig)
        self.disagreements = []  # model/impl differences (not by themselves violations)
        self.known_hits = {}  # finding id -> count
        self.dist = {}
        self.notes = []
        self.extra = {}

    def count(self, dim, key):
        d = self.dist.setdefault(dim, {})
        d[key] = d.get(key, 0) + 1

    def case(self, canonical, nontrivial=True):
        self.evaluations += 1
        if nontrivial:
            self.distinct.add(lib.sha(canonical))

    def sample(self, x, limit=12):
        if len(self.samples) < limit:
            self.samples.append(x)


def match_known(finding, violation) -> bool:
    m = finding.get("match", {})
    kind = m.get("kind")
    text = violation.get("signature_text", "")
    if kind == "exact":
        return text == m.get("value")
    if kind == "regex":
        return re.search(m.get("value", "$^"), text, flags=re.S) is not None
    if kind == "call-site":
        return violation.get("call_site") == m.get("value")
    return False


def write_replay(pid, payload):
    os.makedirs(os.path.join(VERIF, "replays"), exist_ok=True)
    name = f"{pid}-{lib.sha(payload)}.json"
    path = os.path.join(VERIF, "replays", name)
    with open(path, "w") as f:
        json.dump(payload, f, indent=1, default=str)
    return os.path.join("replays", name)


def finish(pid, tier, seed, outcome: Outcome | None, proof, broken: BuildBroken | None, wall, level="proof",
           trusted=None, checker_cmd=None):
    """Write evidence, print VIOLATION / KNOWN-FINDING lines, return exit code."""
    os.makedirs(os.path.join(VERIF, "evidence"), exist_ok=True)
    viol_lines = []
    known = known_findings(pid)
    known_active = [k for k in known if k.get("status") == "known"]
    reported = []
    n_viol = 0
    if outcome is not None:
        seen_known = set()
        # smallest failing inputs first: they are the most useful replays
        outcome.violations.sort(key=lambda v: len(str(v.get("signature_text", ""))))
        for v in outcome.violations:
            hit = None
            for k in known_active:
                if match_known(k, v):
                    hit = k
                    break
            if hit:
                seen_known.add(hit["id"])
                outcome.known_hits[hit["id"]] = outcome.known_hits.get(hit["id"], 0) + 1
                continue
            n_viol += 1
            if len(reported) < 5:
                path = write_replay(pid, {"property": pid, "seed": seed, "tier": tier, **v,
                                          "replay_cmd": f"./check {pid} --replay <this file>"})
                reported.append(path)
                viol_lines.append(f"VIOLATION property={pid} replay={path}")
        for k in known_active:
            # every listed finding is re-demonstrated by the harness from its witness
            if k["id"] in seen_known:
                print(f"KNOWN-FINDING: property={pid} {k['what']}")
            else:
                outcome.notes.append(f"known finding {k['id']} was not re-demonstrated in this run")
    if broken is not None:
        # a proof obligation / the tie is broken: the property is no longer shown to hold
        if n_viol == 0:
            path = write_replay(pid, {"property": pid, "seed": seed, "tier": tier, "kind": "unproved",
                                      "broken": broken.what, "detail": broken.detail[-3000:],
                                      "note": "the search over the implementation found no failing input"})
            viol_lines.append(f"VIOLATION property={pid} replay={path} no-failing-input-found")
            n_viol += 1
    if outcome is not None and outcome.disagreements and n_viol == 0:
        d0 = outcome.disagreements[0]
        path = write_replay(pid, {"property": pid, "seed": seed, "tier": tier, "kind": "correspondence",
                                  "broken": d0.get("correspondence", "model <-> implementation"),
                                  "first_disagreement": d0, "count": len(outcome.disagreements),
                                  "note": "model and implementation disagree; the implementation-level search found no failing input"})
        viol_lines.append(f"VIOLATION property={pid} replay={path} no-failing-input-found")
        n_viol += 1

    cov = {}
    if proof is not None:
        cov.update({
            "obligations": proof["obligations"],
            "discharged": proof["discharged"] if broken is None else 0,
            "checker_cmd": checker_cmd or f"make -C coq (coqc 8.16.1, full .vo build) && coqc -Q coq DippyV coq/Props/{pid}.v",
            "trusted_base": trusted or [],
            "theorems": proof["theorems"],
            "axioms": proof["axioms"],
            "supporting_lemmas": proof["supporting_lemmas"],
        })
    else:
        cov.update({"obligations": 1, "discharged": 0, "checker_cmd": checker_cmd or "make -C coq",
                    "trusted_base": trusted or []})
    if outcome is not None:
        cov.update({
            "evaluations": outcome.evaluations,
            "distinct_nontrivial": len(outcome.distinct),
            "samples": outcome.samples or ["(none)"],
            "disagreements_checked": len(outcome.disagreements),
            "input_distribution": outcome.dist,
            "known_findings_redemonstrated": outcome.known_hits,
            "notes": outcome.notes,
        })
        cov.update(outcome.extra)
    else:
        cov.update({"evaluations": 0, "distinct_nontrivial": 0, "samples": ["(build broken before any case ran)"]})
    ev = {
        "property_id": pid,
        "tier": tier,
        "seed": seed,
        "level": level,
        "coverage": cov,
        "assumptions": trusted or [],
        "wall_s": wall,
        "violations": n_viol,
    }
    with open(os.path.join(VERIF, "evidence", f"{pid}.json"), "w") as f:
        json.dump(ev, f, indent=1, default=str)
    for l in viol_lines:
        print(l)
    sys.stdout.flush()
    return 1 if n_viol else 0


# ---------------------------------------------------------------- in-Coq cross-check of the extraction
def coq_term(x) -> str:
    """nested python lists/str (decoded sx) -> Coq sx term."""
    if isinstance(x, str):
        return "(A [" + ";".join(str(ord(c)) for c in x) + "])"
    return "(L [" + "; ".join(coq_term(y) for y in x) + "])"


def coq_crosscheck(pid, cases):
    """cases: list of (request_sx_text, transcript [(q_text, a_text)], result_python).
    Evaluates Run.run inside Coq (vm_compute) with the recorded oracle transcript and compares with
    what the extracted OCaml model answered.  Returns (checked, mismatches)."""
    if not cases:
        return 0, []
    d = os.path.join(BUILD, "cases")
    os.makedirs(d, exist_ok=True)
    src = os.path.join(d, f"{pid}_cases.v")
    lines = ["From DippyV Require Import Base.Str Base.Sx Run.", "Open Scope N_scope."]
    for i, (req, tr, res) in enumerate(cases):
        tbl = "[" + "; ".join(f"({coq_term(lib.dec(q))}, {coq_term(lib.dec(a))})" for q, a in tr) + "]"
        lines.append(f"Definition tbl{i} : list (sx * sx) := {tbl}.")
        lines.append(f"Eval vm_compute in (sx_eqb (run (lookup tbl{i}) {coq_term(lib.dec(req))}) {coq_term(res)}).")
    with open(src, "w") as f:
        f.write("\n".join(lines) + "\n")
    rc, out = run(["timeout", "600", "coqc", "-Q", COQ, "DippyV", "-Q", d, "Cases", src], cwd=d)
    if rc != 0:
        return 0, [f"coqc failed: {out[-500:]}"]
    vals = re.findall(r"=\s*(true|false)", out)
    mism = [i for i, v in enumerate(vals) if v != "true"]
    if len(vals) != len(cases):
        mism.append(f"expected {len(cases)} results, got {len(vals)}")
    return len(vals), mism
