"""Generator of Python sources for C17: every access path to dangerous functionality the property names,
from the handler's own safe-module set.

A Script is (family, text, siblings, raw).  `family` names the access path; `siblings` are extra files
placed next to the script (import shadowing); `raw` overrides the bytes written (encoding tricks).
Nothing here imports dippy: the safe-module list is passed in by the harness from the real handler.
"""
from __future__ import annotations

import importlib
import types
from typing import NamedTuple


class Script(NamedTuple):
    family: str
    text: str
    siblings: tuple = ()
    raw: bytes | None = None


CANARY = "CANARY_script"

# ---------------------------------------------------------------- directly written dangerous constructs
# expressions that raise an audit event when evaluated
DIRECT_EXPR = [
    ("open", f"open('{CANARY}', 'w')"),
    ("eval", "eval('1+1')"),
    ("exec", "exec('_z = 1')"),
    ("compile", "compile('1', 'f', 'eval')"),
    ("__import__", "__import__('socket')"),
    ("getattr", "getattr(__import__, '__call__')('socket')"),
    ("__builtins__", f"__builtins__.open('{CANARY}', 'w')"),
]
DIRECT_STMT = [
    ("import-os", "import os\nos.system('true')"),
    ("import-os.path", "import os.path\nos.system('true')"),
    ("from-os", "from os import system\nsystem('true')"),
    ("import-subprocess", "import subprocess\nsubprocess.run(['true'])"),
    ("import-socket", "import socket\nsocket.socket()"),
    ("import-ctypes", "import ctypes\nctypes.CDLL(None)"),
    ("import-sys", f"import sys\nsys.modules['os'].system('true')"),
    ("import-io", f"import io\nio.open('{CANARY}', 'w')"),
    ("import-as", "import os as _o\n_o.system('true')"),
    ("from-as", "from os import system as _s\n_s('true')"),
    ("import-pathlib", f"import pathlib\npathlib.Path('{CANARY}').touch()"),
    ("import-unknown", "import not_a_module_xyz"),
    ("import-multi", "import json, os\nos.system('true')"),
    ("from-star", "from os import *\nsystem('true')"),
    ("with-open", f"with open('{CANARY}', 'w') as _f:\n    pass"),
    ("with-open-2", f"import contextlib\nwith contextlib.nullcontext(), open('{CANARY}', 'w') as _f:\n    pass"),
]
ASYNC_STMT = [
    ("async-def", "async def _co():\n    return 1"),
    ("await", "async def _co():\n    await _co()"),
    ("async-for", "async def _co():\n    async for _ in _co():\n        pass"),
    ("async-with", "async def _co():\n    async with _co():\n        pass"),
    ("async-comp", "async def _co():\n    return [_x async for _x in _co()]"),
]
REFLECTION = ["__globals__", "__code__", "__closure__", "__dict__", "__class__", "__bases__", "__mro__",
              "__subclasses__", "__reduce__", "__reduce_ex__", "__builtins__", "tb_frame", "tb_next", "f_back",
              "f_builtins", "f_code", "f_globals", "f_locals", "f_trace", "co_code", "gi_frame", "gi_code",
              "gi_yieldfrom", "cr_await", "cr_frame", "cr_code"]
# a dangerous script that needs exactly one reflection attribute
REFLECTION_USE = [
    ("__globals__", f"_b = (lambda: 0).__globals__['__builtins__']\n_f = _b.open\n_f('{CANARY}', 'w')"),
    ("__builtins__", f"_b = (lambda: 0).__builtins__\n_f = _b['open']\n_f('{CANARY}', 'w')"),
    ("__class__", f"_t = (0).__class__\n_t.mro()[-1]\n"),
    ("__subclasses__", "_l = object.__subclasses__()\n"),
    ("__dict__", f"import json\n_f = json.codecs.__dict__['open']\n_f('{CANARY}', 'w')"),
    ("f_back", "def _g():\n    yield 1\n_x = _g()\n_y = _x.gi_frame"),
    ("__code__", "_c = (lambda: 0).__code__"),
    ("__mro__", "_o = int.__mro__[-1]"),
    ("__bases__", "_o = int.__bases__[0]"),
]

# syntactic positions for an expression E (the result always evaluates E when run)
EXPR_CTX = [
    ("stmt", "{E}"),
    ("assign", "_v = {E}"),
    ("annassign", "_v: int = {E}"),
    ("augassign", "_v = 0\n_v += 0 if {E} else 0"),
    ("tuple-assign", "_a, _b = 0, {E}"),
    ("starred-assign", "*_a, = [{E}]"),
    ("func-body", "def _f():\n    return {E}\n_f()"),
    ("nested-func", "def _f():\n    def _g():\n        return {E}\n    return _g()\n_f()"),
    ("method", "class _K:\n    def m(self):\n        return {E}\n_K().m()"),
    ("class-body", "class _K:\n    _a = {E}"),
    ("class-base", "class _K(object if {E} else object):\n    pass"),
    ("class-kw", "class _K(metaclass=type if {E} else type):\n    pass"),
    ("lambda", "(lambda: {E})()"),
    ("lambda-default", "(lambda a={E}: a)()"),
    ("listcomp-elt", "[{E} for _ in range(1)]"),
    ("listcomp-iter", "[_ for _ in [{E}]]"),
    ("listcomp-if", "[0 for _ in range(1) if {E}]"),
    ("setcomp", "{{0 for _ in range(1) if {E}}}"),
    ("dictcomp", "{{0: {E} for _ in range(1)}}"),
    ("genexp", "list({E} for _ in range(1))"),
    ("nested-comp", "[[{E} for _ in range(1)] for _ in range(1)]"),
    ("decorator", "@(lambda f: {E})\ndef _g():\n    pass"),
    ("class-decorator", "@(lambda c: {E})\nclass _K:\n    pass"),
    ("default-arg", "def _f(a={E}):\n    pass"),
    ("kwonly-default", "def _f(*, a={E}):\n    pass"),
    ("annotation", "def _f(a: {E}):\n    pass"),
    ("return-annotation", "def _f() -> {E}:\n    pass"),
    ("walrus", "(_w := {E})"),
    ("walrus-in-comp", "[(_w := {E}) for _ in range(1)]"),
    ("match-subject", "match {E}:\n    case _:\n        pass"),
    ("match-guard", "match 1:\n    case _ if {E}:\n        pass"),
    ("match-body", "match 1:\n    case 1:\n        {E}"),
    ("match-value", "class _C:\n    v = 1\nmatch 1:\n    case _C.v if {E}:\n        pass"),
    ("fstring", 'f"{{{E}}}"'),
    ("fstring-spec", 'f"{{1:{{{E}}}}}"'),
    ("fstring-nested", 'f"{{f\'{{{E}}}\'}}"'),
    ("try-body", "try:\n    {E}\nexcept Exception:\n    pass"),
    ("except-body", "try:\n    1 / 0\nexcept ZeroDivisionError:\n    {E}"),
    ("except-type", "try:\n    1 / 0\nexcept (ZeroDivisionError if {E} else ZeroDivisionError):\n    pass"),
    ("finally-body", "try:\n    pass\nfinally:\n    {E}"),
    ("try-else", "try:\n    pass\nexcept Exception:\n    pass\nelse:\n    {E}"),
    ("try-star", "try:\n    pass\nexcept* ValueError:\n    pass\nelse:\n    {E}"),
    ("with-item", "import contextlib\nwith contextlib.nullcontext({E}):\n    pass"),
    ("with-body", "import contextlib\nwith contextlib.nullcontext():\n    {E}"),
    ("with-target", "import contextlib\n_l = [0]\nwith contextlib.nullcontext() as _l[0 if {E} else 0]:\n    pass"),
    ("for-iter", "for _ in [{E}]:\n    pass"),
    ("for-body", "for _ in range(1):\n    {E}"),
    ("for-else", "for _ in range(0):\n    pass\nelse:\n    {E}"),
    ("while-test", "while {E}:\n    break"),
    ("while-body", "while True:\n    {E}\n    break"),
    ("if-test", "if {E}:\n    pass"),
    ("if-body", "if True:\n    {E}"),
    ("elif-else", "if False:\n    pass\nelif False:\n    pass\nelse:\n    {E}"),
    ("ternary", "0 if {E} else 1"),
    ("boolop", "0 or {E}"),
    ("compare", "0 == {E}"),
    ("chained-compare", "0 < 1 < ({E} and 2)"),
    ("binop", "[] + [{E}]"),
    ("unaryop", "not {E}"),
    ("subscript", "[0][0 if {E} else 0]"),
    ("slice", "[0][0 if {E} else 0:1]"),
    ("attribute-base", "({E}).real"),
    ("call-arg", "len([{E}])"),
    ("call-kwarg", "dict(a={E})"),
    ("call-star", "print(*[{E}])"),
    ("call-dstar", "dict(**{{'a': {E}}})"),
    ("call-func", "(lambda x: x)({E})"),
    ("call-of-call", "(lambda: (lambda: {E}))()()"),
    ("assert", "assert {E} or True"),
    ("assert-msg", "try:\n    assert False, {E}\nexcept Exception:\n    pass"),
    ("raise", "try:\n    raise ValueError({E})\nexcept Exception:\n    pass"),
    ("raise-from", "try:\n    raise ValueError() from ({E} and None)\nexcept Exception:\n    pass"),
    ("del", "_l = [0]\ndel _l[0 if {E} else 0]"),
    ("global-fn", "def _f():\n    global _q\n    _q = {E}\n_f()"),
    ("nonlocal-fn", "def _f():\n    _q = 0\n    def _g():\n        nonlocal _q\n        _q = {E}\n    _g()\n_f()"),
    ("yield", "def _g():\n    yield {E}\nlist(_g())"),
    ("yield-from", "def _g():\n    yield from [{E}]\nlist(_g())"),
    ("return", "def _f():\n    return {E}\n_f()"),
    ("dict-display", "{{'a': {E}}}"),
    ("dict-key", "{{({E} and 0): 1}}"),
    ("set-display", "{{0 if {E} else 1}}"),
    ("tuple-display", "(0, {E})"),
    ("list-display", "[{E}]"),
    ("starred-display", "[*[{E}]]"),
    ("dstar-display", "{{**{{'a': {E}}}}}"),
    ("paren", "(({E}))"),
    ("semicolon", "_a = 1; {E}"),
    ("type-params", "def _f[T]():\n    return {E}\n_f()"),
    ("property", "class _K:\n    @property\n    def p(self):\n        return {E}\n_K().p"),
    ("dunder-method", "class _K:\n    def __repr__(self):\n        {E}\n        return ''\nrepr(_K())"),
    ("init-subclass", "class _K:\n    def __init_subclass__(cls):\n        {E}\nclass _L(_K):\n    pass"),
    ("class-in-func", "def _f():\n    class _K:\n        _a = {E}\n_f()"),
    ("lambda-in-comp", "[(lambda: {E})() for _ in range(1)]"),
    ("comp-in-lambda", "(lambda: [{E} for _ in range(1)])()"),
    ("sorted-key", "sorted([0], key=lambda _x: {E})"),
    ("map-lambda", "list(map(lambda _x: {E}, [0]))"),
]
# positions for a (possibly multi-line) statement S
STMT_CTX = [
    ("module", "{S}"),
    ("func", "def _f():\n{S4}\n_f()"),
    ("class", "class _K:\n{S4}"),
    ("if", "if True:\n{S4}"),
    ("else", "if False:\n    pass\nelse:\n{S4}"),
    ("for", "for _ in range(1):\n{S4}"),
    ("while", "while True:\n{S4}\n    break"),
    ("try", "try:\n{S4}\nexcept ImportError:\n    pass"),
    ("except", "try:\n    1 / 0\nexcept ZeroDivisionError:\n{S4}"),
    ("finally", "try:\n    pass\nfinally:\n{S4}"),
    ("with", "import contextlib\nwith contextlib.nullcontext():\n{S4}"),
    ("match", "match 1:\n    case _:\n{S8}"),
    ("nested-def", "def _f():\n    def _g():\n{S8}\n    _g()\n_f()"),
    ("method", "class _K:\n    def m(self):\n{S8}\n_K().m()"),
    ("after-global", "def _f():\n    global _q\n{S4}\n_f()"),
]


def indent(s, n):
    return "\n".join(" " * n + l for l in s.split("\n"))


def fill(tpl, key, value):
    """str.format for one key, without touching the value's own braces"""
    return tpl.replace(key, "\x02").replace("{{", "{").replace("}}", "}").replace("\x02", value)


def in_expr_ctx(ctx_tpl, e):
    return fill(ctx_tpl, "{E}", e)


def in_stmt_ctx(ctx_tpl, s):
    return ctx_tpl.replace("{S4}", indent(s, 4)).replace("{S8}", indent(s, 8)).replace("{S}", s)


def direct_scripts():
    out = []
    for cname, ctpl in EXPR_CTX:
        for ename, e in DIRECT_EXPR:
            out.append(Script(f"direct/{ename}@{cname}", in_expr_ctx(ctpl, e)))
    for cname, ctpl in STMT_CTX:
        for sname, s in DIRECT_STMT + ASYNC_STMT:
            out.append(Script(f"direct/{sname}@{cname}", in_stmt_ctx(ctpl, s)))
    for attr in REFLECTION:
        out.append(Script(f"direct/reflection-{attr}", f"_x = (lambda: 0)\n_y = _x.{attr}"))
        out.append(Script(f"direct/reflection-call-{attr}", f"_x = (lambda: 0)\n_y = _x.{attr}()"))
    for attr, s in REFLECTION_USE:
        out.append(Script(f"direct/reflection-use-{attr}", s))
    for name in ("__builtins__", "__loader__", "__spec__"):
        out.append(Script(f"direct/name-{name}", f"_x = {name}"))
    out.append(Script("direct/relative-import", "from . import _x"))
    out.append(Script("direct/relative-import-2", "from .. import _x"))
    out.append(Script("direct/print", "print('hello')"))
    return out


# ---------------------------------------------------------------- escapes: dangerous object reached indirectly
BUILTIN_PAYLOAD = {
    "open": f"('{CANARY}', 'w')",
    "eval": "('1+1')",
    "exec": "('_z = 1')",
    "compile": "('1', 'f', 'eval')",
    "__import__": "('socket')",
}


def alias_scripts():
    """a dangerous builtin is never *called by name*: it is bound, passed or stored first"""
    out = []
    for b, args in BUILTIN_PAYLOAD.items():
        a = args
        inner = args[1:-1]
        forms = [
            ("assign", f"_x = {b}\n_x{a}"),
            ("tuple-assign", f"_x, _y = {b}, 0\n_x{a}"),
            ("walrus", f"(_x := {b}){a}"),
            ("for-target", f"for _x in [{b}]:\n    _x{a}"),
            ("default-arg", f"def _f(_x={b}):\n    return _x{a}\n_f()"),
            ("lambda-arg", f"(lambda _x: _x{a})({b})"),
            ("list-index", f"[{b}][0]{a}"),
            ("dict-value", f"{{'k': {b}}}['k']{a}"),
            ("ternary", f"({b} if True else None){a}"),
            ("boolop", f"(None or {b}){a}"),
            ("comp", f"[_x{a} for _x in [{b}]]"),
            ("class-attr", f"class _K:\n    _x = staticmethod({b})\n_K._x{a}"),
            ("global-fn", f"def _f():\n    global _x\n    _x = {b}\n_f()\n_x{a}"),
            ("decorator-arg", f"@(lambda f, _x={b}: _x{a})\ndef _g():\n    pass"),
            ("with-as", f"import contextlib\nwith contextlib.nullcontext({b}) as _x:\n    _x{a}"),
            ("match-capture", f"match {b}:\n    case _x:\n        _x{a}"),
            ("starred", f"*_x, = [{b}]\n_x[0]{a}"),
            ("return-value", f"def _f():\n    return {b}\n_f(){a}"),
            ("map", f"import itertools\nlist(itertools.starmap({b}, [({inner},)]))" if "," not in inner
             else f"import itertools\nlist(itertools.starmap({b}, [({inner})]))"),
            ("partial", f"import functools\nfunctools.partial({b}, {inner})()"),
            ("reduce", f"import functools\nfunctools.reduce(lambda f, _a: f(*_a), [({inner},)], {b})" if "," not in inner
             else f"import functools\nfunctools.reduce(lambda f, _a: f(*_a), [({inner})], {b})"),
            ("operator-call", f"import operator\noperator.call({b}, {inner})"),
            ("sorted-key", f"sorted([{inner.split(',')[0]}], key={b})" if b in ("eval", "exec", "__import__", "open") else None),
            ("fstring", f"_x = {b}\nf\"{{_x{a}}}\""),
        ]
        for name, text in forms:
            if text:
                out.append(Script(f"alias-builtin/{b}/{name}", text))
    # getattr / vars / globals are "dangerous builtins" too: aliased, they rebuild any name from strings
    out.append(Script("alias-builtin/getattr/computed-string",
                      f"import ast\n_g = getattr\n_s = _g(ast, 's' + 'ys')\n_o = _g(_s.modules['o' + 's'], 'sys' + 'tem')\n_o('true')"))
    out.append(Script("alias-builtin/getattr/reduce",
                      "import functools, ast\n_o = functools.reduce(getattr, ['sys', 'modules'], ast)['os']\n_f = functools.reduce(getattr, ['system'], _o)\n_f('true')"))
    out.append(Script("alias-builtin/globals/lookup", f"_g = globals\n_f = _g()['__builtins__'].open\n_f('{CANARY}', 'w')"))
    out.append(Script("alias-builtin/vars/lookup", f"import ast\n_v = vars\n_f = _v(_v(ast)['sys'].modules['os'])['system']\n_f('true')"))
    return out


# what to do with a module object once it has been reached; (label, direct-call tail, alias form)
# "direct" tails use an attribute that the handler's DANGEROUS_ATTRS may or may not list
MODULE_PAYLOADS = {
    "os": [("system", "{M}.system('true')"), ("popen", "{M}.popen('true')"), ("remove", f"{{M}}.remove('{CANARY}')"),
           ("listdir", "{M}.listdir('.')"), ("scandir", "{M}.scandir('.')"), ("putenv", "{M}.putenv('C17', '1')"),
           ("posix_spawn", "{M}.posix_spawn('/bin/true', ['true'], {{}})"), ("utime", f"{{M}}.utime('{CANARY}')"),
           ("removedirs", f"{{M}}.removedirs('{CANARY}')"), ("execv", "{M}.execv('/bin/true', ['true'])"),
           ("alias-system", "_f = {M}.system\n_f('true')"), ("alias-open", f"_f = {{M}}.open\n_f('{CANARY}', 0)")],
    "sys": [("modules-os", "_f = {M}.modules['os'].system\n_f('true')"),
            ("modules-os-direct", "{M}.modules['os'].listdir('.')"),
            ("modules-os-flagged", "{M}.modules['os'].system('true')")],
    "io": [("alias-open", f"_f = {{M}}.open\n_f('{CANARY}', 'w')"), ("FileIO", f"{{M}}.FileIO('{CANARY}', 'w')"),
           ("open", f"{{M}}.open('{CANARY}', 'w')"), ("open_code", "{M}.open_code('/etc/hostname')")],
    "_io": [("FileIO", f"{{M}}.FileIO('{CANARY}', 'w')"), ("alias-open", f"_f = {{M}}.open\n_f('{CANARY}', 'w')")],
    "codecs": [("alias-open", f"_f = {{M}}.open\n_f('{CANARY}', 'w')"), ("open", f"{{M}}.open('{CANARY}', 'w')")],
    "builtins": [("alias-open", f"_f = {{M}}.open\n_f('{CANARY}', 'w')"), ("alias-eval", "_f = {M}.eval\n_f('1')"),
                 ("alias-import", "_f = {M}.__import__\n_f('socket')"), ("open", f"{{M}}.open('{CANARY}', 'w')")],
    "importlib": [("import_module", "{M}.import_module('socket')")],
    "linecache": [("getlines", "{M}.getlines('/etc/hostname')")],
    "tokenize": [("_builtin_open", f"{{M}}._builtin_open('{CANARY}', 'w')"), ("alias-open", "_f = {M}.open\n_f('/etc/hostname')")],
    "subprocess": [("alias-run", "_f = {M}.run\n_f(['true'])"), ("getoutput-flagged", "{M}.getoutput('true')")],
    "shutil": [("copyfile", f"{{M}}.copyfile('/etc/hostname', '{CANARY}')")],
    "pathlib": [("touch", f"{{M}}.Path('{CANARY}').touch()")],
    "socket": [("socket", "{M}.socket()")],
    "ctypes": [("CDLL", "{M}.CDLL(None)")],
    "tempfile": [("mkstemp", "{M}.mkstemp()")],
    "glob": [("glob", "{M}.glob('*')")],
    "posix": [("listdir", "{M}.listdir('.')"), ("alias-system", "_f = {M}.system\n_f('true')")],
    "marshal": [("loads", "{M}.loads(b'N')")],
    "pickle": [("loads", "{M}.loads(b'cos\\nsystem\\n(S\"true\"\\ntR.')")],
    "inspect": [("getsource", "{M}.getsource({M})")],
    "gzip": [("alias-open", f"_f = {{M}}.open\n_f('{CANARY}', 'w')")],
    "bz2": [("alias-open", f"_f = {{M}}.open\n_f('{CANARY}', 'w')")],
    "lzma": [("alias-open", f"_f = {{M}}.open\n_f('{CANARY}', 'w')")],
    "logging": [("FileHandler", f"{{M}}.FileHandler('{CANARY}')")],
    "sysconfig": [],
    "threading": [],
    "signal": [],
    "locale": [],
    "warnings": [],
}
TARGETS = set(MODULE_PAYLOADS)


def module_paths(safe_modules, max_depth=2, per_target=6):
    """attribute chains  <safe module>.a.b  (no dunder names) that are module objects of interest,
    discovered by introspection of this interpreter's standard library"""
    found = {}  # target module name -> list of (root, chain)
    for root in sorted(safe_modules):
        try:
            m = importlib.import_module(root)
        except Exception:
            continue
        seen = {id(m)}
        frontier = [(m, [])]
        for depth in range(max_depth):
            nxt = []
            for obj, chain in frontier:
                try:
                    items = sorted(vars(obj).items())
                except TypeError:
                    continue
                for name, val in items:
                    if not isinstance(val, types.ModuleType) or name.startswith("__"):
                        continue
                    if id(val) in seen:
                        continue
                    seen.add(id(val))
                    tname = getattr(val, "__name__", "")
                    if tname in TARGETS:
                        found.setdefault(tname, []).append((root, chain + [name], depth + 1))
                    nxt.append((val, chain + [name]))
            frontier = nxt
    out = {}
    for t, lst in found.items():
        lst.sort(key=lambda x: (x[2], x[0], x[1]))
        out[t] = [(r, c) for r, c, _ in lst[:per_target]]
        out[t + "#count"] = len(lst)
    return out


def chain_scripts(safe_modules, per_target=6):
    out = []
    paths = module_paths(safe_modules, per_target=per_target)
    stats = {k[:-6]: v for k, v in paths.items() if k.endswith("#count")}
    for target, lst in paths.items():
        if target.endswith("#count"):
            continue
        for root, chain in lst:
            expr = ".".join([root] + chain)
            for label, tpl in MODULE_PAYLOADS[target]:
                body = fill(tpl, "{M}", expr)
                out.append(Script(f"module-chain/{target}/{label}", f"import {root}\n{body}"))
            # the same module object through a from-import and through an alias
        if lst:
            root, chain = lst[0]
            label, tpl = (MODULE_PAYLOADS[target] or [(None, None)])[0]
            if tpl and len(chain) == 1:
                body = fill(tpl, "{M}", "_m")
                out.append(Script(f"module-chain/{target}/from-import-{label}", f"from {root} import {chain[0]} as _m\n{body}"))
                out.append(Script(f"module-chain/{target}/import-as-{label}", f"import {root} as _r\n_m = _r.{chain[0]}\n{body}"))
    # the loader of a safe module reads arbitrary files
    out.append(Script("module-chain/loader/get_data", "import re\nre.__loader__.get_data('/etc/hostname')"))
    out.append(Script("module-chain/loader/spec", "import re\nre.__spec__.loader.get_data('/etc/hostname')"))
    return out, stats


def string_indirection_scripts():
    return [
        Script("string-indirection/attrgetter-sys", "import operator, ast\n_o = operator.attrgetter('sys.modules')(ast)['os']\n_f = operator.attrgetter('system')(_o)\n_f('true')"),
        Script("string-indirection/methodcaller", "import operator, random\noperator.methodcaller('system', 'true')(random._os)"),
        Script("string-indirection/attrgetter-reflection",
               f"import operator\n_g = operator.attrgetter('__globals__')(lambda: 0)\n_f = operator.attrgetter('open')(_g['__builtins__'])\n_f('{CANARY}', 'w')"),
        Script("string-indirection/attrgetter-subclasses",
               "import operator\n_l = operator.attrgetter('__subclasses__')(object)()\n_c = [c for c in _l if c.__name__ == 'BuiltinImporter'][0]\n_m = _c.load_module('posix')\n_f = operator.attrgetter('system')(_m)\n_f('true')"),
        Script("string-indirection/getattribute",
               f"_g = (lambda: 0).__getattribute__('__globals__')\n_f = _g['__builtins__'].__getattribute__('open')\n_f('{CANARY}', 'w')"),
        Script("string-indirection/type-mro-walk",
               "_o = type(0).mro()[-1]\n_s = _o.__getattribute__(_o, '__subclasses__')()\n_c = [c for c in _s if c.__name__ == 'BuiltinImporter'][0]\n_m = _c.load_module('posix')\n_f = _m.system\n_f('true')"),
        Script("string-indirection/format-spec", "import ast\n_s = '{0.sys.modules[os].sep}'.format(ast)"),
        Script("string-indirection/typing-forward-ref",
               f"import typing\nclass _A:\n    x: \"open('{CANARY}', 'w')\"\ntyping.get_type_hints(_A)"),
        Script("string-indirection/typing-forward-ref-fn",
               f"import typing\ndef _f(x: \"__import__('os').system('true')\"):\n    pass\ntyping.get_type_hints(_f)"),
    ]


def residual_scripts():
    """access paths that a name blacklist does not see: attribute names carried by strings in
    other syntactic positions, bound builtins, safe-module functions that open or evaluate"""
    return [
        Script("residual/safe-function-alias", "import tokenize\n_f = tokenize.open\n_f('/etc/hostname')"),
        Script("residual/builtin-self", "_b = print.__self__\n_f = _b.exec\n_f('_z = 1')"),
        Script("residual/builtin-self-open", f"_b = len.__self__\n_f = _b.open\n_f('{CANARY}', 'w')"),
        Script("residual/match-class-pattern",
               "match (lambda: 0):\n    case object(__globals__=_g):\n        _b = _g['__builtins__']\n        _f = _b.exec\n        _f('_z = 1')"),
        Script("residual/match-class-pattern-subclasses",
               "match object:\n    case type(__subclasses__=_s):\n        _c = [c for c in _s() if c.__name__ == 'BuiltinImporter'][0]\n"
               "        match _c:\n            case type(load_module=_l):\n                _m = _l('posix')\n                _f = _m.listdir\n                _f('.')"),
        Script("residual/singledispatch-annotation",
               "import functools\n@functools.singledispatch\ndef _f(x):\n    pass\n@_f.register\ndef _(x: \"exec('_z = 1')\"):\n    pass"),
        Script("residual/formatter-get-field",
               "import string\n_o = string.Formatter().get_field('0.__globals__', [lambda: 0], {})[0]\n_f = _o['__builtins__'].exec\n_f('_z = 1')"),
        Script("residual/site-builtin-license", "license()"),
        Script("residual/site-builtin-help", "help('json')"),
        Script("residual/typing-eval-type", "import typing\n_t = typing._eval_type(typing.Optional['exec'], {'exec': 1}, {})"),
        Script("residual/dataclass-string-annotation",
               "import dataclasses\n@dataclasses.dataclass\nclass _A:\n    x: \"exec('_z = 1')\" = 0"),
        Script("residual/namedtuple-rename", "import collections\n_P = collections.namedtuple('P', ['x', 'class'], rename=True)"),
        Script("residual/json-load-needs-file", "import json\n_f = json.load"),
        Script("residual/types-functiontype",
               "import types\ndef _g():\n    return 1\n_h = types.FunctionType"),
        Script("residual/statistics-random-os", "import statistics\nstatistics.random._os.listdir('.')"),
        Script("residual/subscript-modules", "import ast\n_m = ast.__dict__"),
        Script("residual/star-import-module", f"from json import *\nfrom json.decoder import *\n"),
        Script("residual/import-as-shadowing-name", f"import json as open\n"),
        Script("residual/exception-traceback", "try:\n    1 / 0\nexcept Exception as e:\n    _t = e.__traceback__\n    _f = _t.tb_frame"),
        Script("residual/zoneinfo", "import zoneinfo\nzoneinfo.ZoneInfo('UTC')"),
        Script("residual/contextlib-chdir", "import contextlib\nwith contextlib.chdir('/'):\n    pass"),
    ]


def file_level_scripts():
    body = f"_x = 1\n"
    evil_sibling = f"open('{CANARY}', 'w')\n".encode()
    out = [
        # a sibling file shadows a safe-listed module name: `python script.py` puts the script's
        # directory first on sys.path
        Script("import-shadow/json", "import json\n", siblings=(("json.py", evil_sibling),)),
        Script("import-shadow/from-collections", "from collections import abc\n", siblings=(("collections.py", evil_sibling + b"abc = 1\n"),)),
        Script("import-shadow/package", "import html.parser\n", siblings=(("html/__init__.py", evil_sibling), ("html/parser.py", b""))),
        Script("import-shadow/submodule-of-safe-root", "import string.evil\n", siblings=()),
        # PEP 263: the analyser decodes as UTF-8, CPython honours the coding cookie
        Script("encoding/utf-7-cookie", "", raw=f"# coding: utf-7\n# +AAo-open('{CANARY}', 'w')\n_x = 1\n".encode()),
        Script("encoding/utf-7-docstring", "", raw=f"# -*- coding: utf_7 -*-\n'''x+ACcAJwAn-\nopen(+ACc-{CANARY}+ACc-, +ACc-w+ACc-)\n+ACcAJwAn-'''\n".encode()),
        Script("encoding/latin-1-cookie", "", raw="# coding: latin-1\n_x = '\xe9'\n".encode("latin-1")),
        Script("encoding/utf-8-bom", "", raw=b"\xef\xbb\xbf_x = 1\n"),
        Script("encoding/utf-16-cookie", "", raw=b"# coding: utf-16\n_x = 1\n"),
        Script("encoding/unicode-escape-cookie", "", raw=f"# coding: unicode_escape\n# \\nopen('{CANARY}', 'w')\n_x = 1\n".encode()),
        Script("encoding/raw-unicode-escape-cookie", "", raw=f"# coding: raw_unicode_escape\n# \\u000aopen('{CANARY}', 'w')\n_x = 1\n".encode()),
        Script("encoding/form-feed", f"_x = 1\n\x0c_y = 2\n"),
        Script("encoding/cr-only", "", raw=f"_x = 1 #\ropen('{CANARY}', 'w')\n".encode()),
        Script("encoding/nul-byte", "", raw=b"_x = 1\n\x00\n"),
    ]
    return out


SAFE_FILLER = [
    "import json\n_j = json.dumps({'a': [1, 2, 3]})",
    "import re\n_m = re.match(r'a+', 'aaa')",
    "import math\n_r = math.sqrt(16)",
    "from collections import Counter\n_c = Counter('abracadabra')",
    "import itertools\n_p = list(itertools.permutations([1, 2, 3], 2))",
    "def _fib(n):\n    return n if n < 2 else _fib(n - 1) + _fib(n - 2)\n_f10 = _fib(10)",
    "class _Point:\n    def __init__(self, x, y):\n        self.x, self.y = x, y\n    def norm(self):\n        return (self.x ** 2 + self.y ** 2) ** 0.5\n_n = _Point(3, 4).norm()",
    "print('total', sum(range(10)))",
    "_sq = [i * i for i in range(5) if i % 2]",
    "import datetime\n_d = datetime.date(2020, 1, 1).isoformat()",
    "import base64\n_b = base64.b64encode(b'hi')",
    "import hashlib\n_h = hashlib.sha256(b'x').hexdigest()",
    "try:\n    _q = 1 / 0\nexcept ZeroDivisionError:\n    _q = 0",
    "import string\n_t = string.Template('$a').substitute(a=1)",
    "_d = {k: v for k, v in zip('abc', range(3))}",
    "import functools\n@functools.lru_cache(maxsize=None)\ndef _sq2(x):\n    return x * x\n_sq2(3)",
    "import random\nrandom.seed(1)\n_rr = random.randint(1, 6)",
    "match (1, 2):\n    case (a, b) if a < b:\n        _mm = a\n    case _:\n        _mm = 0",
    "global_counter = 0\ndef _bump():\n    global global_counter\n    global_counter += 1\n_bump()",
]


def random_scripts(rng, n, pool, max_depth=3):
    """fillers + one fragment pushed through a random stack of syntactic contexts"""
    out = []
    exprs = DIRECT_EXPR
    for _ in range(n):
        k = rng.random()
        if k < 0.45:
            # nested contexts around a directly dangerous expression
            name, e = rng.choice(exprs)
            depth = rng.randint(1, max_depth)
            labels = []
            cur = e
            ok = True
            for d in range(depth):
                cname, ctpl = rng.choice(EXPR_CTX)
                labels.append(cname)
                if d < depth - 1:
                    # only single-line expression contexts can nest further
                    cands = [(n_, t) for n_, t in EXPR_CTX if "\n" not in t and not t.startswith(("_v", "_a", "*", "assert"))
                             and "=" not in t.split("{E}")[0][:3] and not t.startswith("@")]
                    cname, ctpl = rng.choice(cands)
                    labels[-1] = cname
                    cur = "(" + in_expr_ctx(ctpl, cur) + ")"
                else:
                    cur = in_expr_ctx(ctpl, cur)
            frag = Script(f"random/direct/{name}@" + ">".join(labels), cur)
        elif k < 0.6:
            sname, s = rng.choice(DIRECT_STMT + ASYNC_STMT)
            depth = rng.randint(1, max_depth)
            labels = []
            cur = s
            for d in range(depth):
                cname, ctpl = rng.choice(STMT_CTX)
                labels.append(cname)
                cur = in_stmt_ctx(ctpl, cur)
            frag = Script(f"random/direct/{sname}@" + ">".join(labels), cur)
        else:
            frag = rng.choice(pool)
            frag = Script("random/" + frag.family, frag.text, frag.siblings, frag.raw)
        if frag.raw is not None:
            out.append(frag)
            continue
        before = [rng.choice(SAFE_FILLER) for _ in range(rng.randint(0, 3))]
        after = [rng.choice(SAFE_FILLER) for _ in range(rng.randint(0, 2))]
        text = "\n".join(before + [frag.text] + after) + "\n"
        out.append(Script(frag.family, text, frag.siblings, None))
    return out


# ---------------------------------------------------------------- public API of the safe modules
ARG_SHAPES = [
    ("none", "()"),
    ("str", "('x')"),
    ("path", "('/etc/hostname')"),
    ("two-paths", f"('/etc/hostname', '{CANARY}')"),
    ("code", "('1+1')"),
    ("int", "(0)"),
]


def api_members(safe_modules):
    """(module, attribute) for the public callables of the safe modules (this interpreter)"""
    out = []
    for root in sorted(safe_modules):
        try:
            m = importlib.import_module(root)
        except Exception:
            continue
        names = getattr(m, "__all__", None) or [n for n in vars(m) if not n.startswith("_")]
        for n in sorted(set(names)):
            v = getattr(m, n, None)
            if callable(v) and not isinstance(v, types.ModuleType):
                out.append((root, n))
    return out


def api_batch_script(module, names, shape):
    """one script calling every public callable of a module with one argument shape, each in its own try"""
    lines = [f"import {module}"]
    for n in names:
        lines.append(f"try:\n    {module}.{n}{shape}\nexcept BaseException:\n    pass")
    return "\n".join(lines) + "\n"


def api_single_script(module, name, shape):
    return f"import {module}\n{module}.{name}{shape}\n"
