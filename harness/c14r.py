"""C14 (routing half) - MCP tool calls are decided solely by the *-mcp rules (no match => {}), shell
commands solely by the command / redirect rules.

Implementation-level oracle (model-free, metamorphic), on real subprocess runs of bin/dippy-hook:
  * an MCP call's answer is unchanged when the rules of the shell family (allow / ask / deny /
    *-redirect / alias / after) are replaced, and when analyze / tokenize / match_after are made to raise;
  * a shell call's answer is unchanged when the *-mcp / after-mcp rules are replaced, and when
    match_mcp / match_after_mcp are made to raise;
  * an MCP call that no *-mcp rule matches is answered {}; a tool that is neither is answered {}.
Correspondence: Model/Hook.v main == the real process on the same runs.
(Helpers for the C14 package: routing_cases(), check_routing().)"""
from __future__ import annotations

import random

from . import core, lib
from . import hookgen as g
from . import hooklib as H

TRUSTED = [
    "Coq 8.16.1 kernel and its VM",
    "axioms: none (every theorem of Props/C14R.v prints 'Closed under the global context')",
    "tools/gen_tables.py (SHELL_TOOL_NAMES regenerated from dippy.py on every run)",
    "extraction: ExtrOcamlBasic only; OCaml 4.13.1; ocaml/driver.ml",
    "modelled, not verified: that analyze() reads only the shell part of the configuration and match_mcp only mcp_rules is how the "
    "model passes the configuration to its oracles; the harness checks it on the real code by replacing the other family's rules",
]

SHELL_RULES = ['allow okcmd', 'deny zap "NOZAP"', 'ask git push "careful"', 'allow *', 'deny *', 'ask * "all"', 'allow-redirect /tmp/*',
               'deny-redirect * "nope"', 'alias g git', 'after git "fb"', 'allow mcp__ok__x', 'deny mcp__*', 'allow Bash']
MCP_RULES = ['allow-mcp mcp__ok__*', 'deny-mcp mcp__ok__bad "no"', 'ask-mcp mcp__q__* "sure?"', 'allow-mcp *', 'deny-mcp *', 'ask-mcp *',
             'after-mcp * "fb"', 'deny-mcp ls', 'deny-mcp Bash', 'allow-mcp rm*', 'deny-mcp git*']
MCP_NAMES = ["mcp__ok__x", "mcp__ok__bad", "mcp__q__y", "mcp__none", "mcp__"]
COMMANDS = ["ls", "rm x", "git push", "zap it", "okcmd", "frobnicate a", "cat f > /tmp/x", "git status", "echo $("]
OTHER_TOOLS = ["Read", "Write", "Edit", "Task", "WebFetch", "bash", ""]


def cfg(lines):
    return "".join(l + "\n" for l in lines)


def routing_cases(sc, tier, rng):
    """-> list of (kind, base case, [variant cases that must answer the same])"""
    wd = sc.proj(None)
    n_var = 3 if tier == "quick" else 12
    groups = []
    mcp_sets = [[], MCP_RULES[:3], ['deny-mcp *'], ['allow-mcp *']] + [rng.sample(MCP_RULES, rng.randrange(1, 5)) for _ in range(2 if tier == "quick" else 10)]
    shell_sets = [[], SHELL_RULES[:3], ['deny *'], ['allow *']] + [rng.sample(SHELL_RULES, rng.randrange(1, 6)) for _ in range(2 if tier == "quick" else 10)]
    for ev in ("PreToolUse", "PostToolUse"):
        for mrules in mcp_sets:
            for tn in MCP_NAMES:
                flags = rng.choice([(), ("--claude",), ("--gemini",)])
                d = {"tool_name": tn, "tool_input": {"command": "ls"}, "cwd": wd, "hook_event_name": ev}
                base = H.Case(g.dumps(d), label=f"mcp:{ev}", flags=flags, user_cfg=cfg(mrules))
                vs = []
                for _ in range(n_var):
                    srules = rng.choice(shell_sets[1:])
                    lines = list(mrules)
                    for r in srules:
                        lines.insert(rng.randrange(len(lines) + 1), r)
                    vs.append(H.Case(base.data, label="mcp:+shell-rules", flags=flags, user_cfg=cfg(lines)))
                if ev == "PreToolUse":
                    vs.append(H.Case(base.data, label="mcp:analyze-raises", flags=flags, user_cfg=cfg(mrules), fault=("analyze", "RuntimeError")))
                else:
                    vs.append(H.Case(base.data, label="mcp:match_after-raises", flags=flags, user_cfg=cfg(mrules), fault=("match_after", "RuntimeError")))
                    vs.append(H.Case(base.data, label="mcp:tokenize-raises", flags=flags, user_cfg=cfg(mrules), fault=("tokenize", "RuntimeError")))
                groups.append(("mcp", base, vs, mrules))
        for srules in shell_sets:
            for cmd in (COMMANDS if tier == "thorough" else rng.sample(COMMANDS, 4)):
                shape = rng.choice(g.SHAPES)
                base = H.Case(g.dumps(g.base_input(shape, cmd, wd, hook_event_name=ev)), label=f"shell:{ev}", user_cfg=cfg(srules))
                vs = []
                for _ in range(n_var):
                    mrules = rng.choice(mcp_sets[1:])
                    lines = list(srules)
                    for r in mrules:
                        lines.insert(rng.randrange(len(lines) + 1), r)
                    vs.append(H.Case(base.data, label="shell:+mcp-rules", user_cfg=cfg(lines)))
                vs.append(H.Case(base.data, label="shell:match_mcp-raises", user_cfg=cfg(srules), fault=("match_mcp", "RuntimeError")))
                vs.append(H.Case(base.data, label="shell:match_after_mcp-raises", user_cfg=cfg(srules), fault=("match_after_mcp", "RuntimeError")))
                groups.append(("shell", base, vs, srules))
        for tn in OTHER_TOOLS:
            base = H.Case(g.dumps({"tool_name": tn, "tool_input": {"command": "rm -rf /"}, "hook_event_name": ev}), label=f"other:{ev}", user_cfg="")
            vs = [H.Case(base.data, label="other:+rules", user_cfg=cfg(rng.sample(SHELL_RULES, 3) + rng.sample(MCP_RULES, 3))) for _ in range(n_var)]
            groups.append(("other", base, vs, []))
    return groups


def check_routing(sc, out, groups):
    import fnmatch

    for kind, base, vs, rules in groups:
        a = H.parse_stdout(base.out)
        out.case(base.key(), nontrivial=True)
        out.count("kind", base.label)
        ok = base.rc == 0 and not H.has_traceback(base)
        for v in vs:
            out.case(v.key(), nontrivial=True)
            out.count("variant", v.label)
            b = H.parse_stdout(v.out)
            if a != b or v.rc != base.rc or not ok:
                out.violations.append({"kind": "routing", "what": f"{kind} call answered {a}, but {b} after changing only the other family ({v.label})",
                                       **H.describe(v, sc), "base": H.describe(base, sc), "signature_text": f"routing-{kind} | {v.label}"})
        is_pre = b'"PreToolUse"' in base.data
        if kind == "other" and a != [("J", {})]:
            out.violations.append({"kind": "routing", "what": f"a tool that is neither shell nor MCP was answered {a}", **H.describe(base, sc),
                                   "signature_text": "routing-other | not-empty"})
        if kind == "mcp" and is_pre:
            import json
            tn = json.loads(base.data)["tool_name"]
            hits = [r for r in rules if r.split()[0] in ("allow-mcp", "ask-mcp", "deny-mcp") and fnmatch.fnmatch(tn, r.split()[1])]
            out.count("mcp_match", "some" if hits else "none")
            if not hits and a != [("J", {})]:
                out.violations.append({"kind": "routing", "what": f"no *-mcp rule matches {tn} but the answer is {a}", **H.describe(base, sc),
                                       "signature_text": "routing-mcp | no-match-not-empty"})
            if hits:
                want = hits[-1].split()[0].split("-")[0]
                d = H.any_decision(a[0][1]) if a and a[0][0] == "J" else None
                if d is None or d[1] != want:
                    out.violations.append({"kind": "routing", "what": f"last matching rule {hits[-1]!r} but the answer is {a}", **H.describe(base, sc),
                                           "signature_text": "routing-mcp | not-last"})


def run(tier, seed, replay=None):
    lib.use_repo()
    rng = random.Random(seed)
    out = core.Outcome("C14R")
    sc = H.Scratch()
    hm = None
    try:
        if replay:
            kind = replay["signature_text"].split("|")[0].strip().replace("routing-", "")
            v = H.replay_case(sc, replay)
            if "base" in replay:
                base = H.replay_case(sc, replay["base"])
                groups = [(kind, base, [v], [l for l in (base.user_cfg or "").split("\n") if l])]
            else:
                groups = [(kind, v, [], [l for l in (v.user_cfg or "").split("\n") if l])]
        else:
            groups = routing_cases(sc, tier, rng)
        allc = [c for _, b, vs, _ in groups for c in [b] + vs]
        H.run_cases(sc, allc)
        check_routing(sc, out, groups)
        for i, c in enumerate(allc):
            if i % 211 == 0:
                out.sample({"label": c.label, "stdin": c.data[:150].decode(), "config": c.user_cfg, "fault": c.fault, "stdout": c.out[:150].decode("utf-8", "replace")})
        hm = H.HookModel(sc)
        step = 1 if tier == "thorough" else 3
        for c in allc[::step]:
            if c.fault and c.fault[0] in ("match_mcp", "match_after_mcp"):
                continue
            try:
                mi, rc, tb = hm.main(c)
            except lib.ModelError as e:
                out.disagreements.append({"correspondence": "Hook.main <-> bin/dippy-hook", "model": f"error {e}", **H.describe(c, sc)})
                hm.restart()
                continue
            out.count("correspondence", "compared")
            if not H.same_items(mi, H.parse_stdout(c.out)) or rc != c.rc:
                out.disagreements.append({"correspondence": "Hook.main <-> bin/dippy-hook", "model": str(H.canon_items(mi)),
                                          "impl": str(H.canon_items(H.parse_stdout(c.out))), **H.describe(c, sc)})
    finally:
        if hm:
            hm.close()
        sc.close()
    out.extra["rule"] = (
        "real subprocess runs, metamorphic: MCP calls (5 names x hand-written and random *-mcp rule lists x PreToolUse / PostToolUse x "
        "flags) re-run with random rules of the shell family inserted at random positions and with analyze / tokenize / match_after "
        "raising; shell calls (9 commands x rule lists x 3 shapes) re-run with *-mcp rules inserted and with match_mcp / match_after_mcp "
        "raising; 7 other tool names with random rules of both families. distinct = distinct (stdin, config, fault); every case is a "
        "member of a comparison")
    return out
