"""C02 - no unapproved file writes.

Implementation-level oracle = ground truth: every approved program is run under real bash (with the
real tee/sort/sed/awk/iconv/find in PATH) in a scratch jail and the file tree is diffed: every
created/modified/removed path must be granted by the redirect rules.  Correspondence: walker model
== analyzer.analyze on the same programs."""
from __future__ import annotations

import itertools
import os
import random
from pathlib import Path

from . import bashgen_ext as bx
from . import core, lib
from .jail import Jail
from .walk_oracles import model_analyze

TRUSTED = [
    "Coq 8.16.1 kernel and VM; axioms: none",
    "spec Model/BashRedirSpec.v (bash's redirection operator table) - validated by the ground-truth runs under bash 5.2.15",
    "tools/gen_tables.py; extraction + driver; AST serialiser; jail runner with real GNU tee/sort/sed/mawk/iconv/find",
    "modelled, not verified: parser (oracle), redirect-rule lookup match_redirect (oracle here; modelled in the C07/C09 package), the tools' own option grammars and sed/awk script languages (only tested by execution)",
]

REAL_TOOLS = ["tee", "sort", "sed", "awk", "iconv", "find", "cat", "mkdir", "touch", "env", "strace", "ltrace", "time"]

OPS = [">", ">>", ">|", "&>", "&>>", ">&", "<>", "<", "2>", "2>>", "1>", "3>", "3>>", "10>", "{v}>", "{v}>>", "{v}<>", "2>|", "1>&", "2<>"]
TARGETS = [  # (spelling, expectation class) ; @J@ is the jail directory
    ("out/g", "granted"), ("@J@/out/f", "granted"), ("./out/../out/h", "granted"), ("out//i", "granted"), ('"out/q"', "granted"),
    ("nogrant", "ungranted"), ("@J@/other", "ungranted"), ("out/../escape", "ungranted"), ("sub/out/x", "ungranted"),
    ("secret/s", "denied"), ("@J@/secret/../secret/t", "denied"), ("askme/a", "ungranted"),
    ("/dev/null", "sink"), ("&1", "sink"), ("&2", "sink"), ("&-", "sink"), ("-", "ungranted"), ("/dev/stdout", "sink"),
    ('"&2"', "ungranted"), ("2", "ungranted"), ("out/$(ls)", "ungranted"),
    # a quoted or escaped ~ is not the home directory (which the configuration grants): the file is ./~/q
    ('"~/q"', "ungranted"), ("'~/q'", "ungranted"), ("\\~/q", "ungranted"), ('"~"/q', "ungranted"), ("~/q", "granted"),
    # words bash rewrites before it opens the file: read as text they lie in sub/out/ (granted), expanded they name ./eN
    ("sub/out/$'..'/../e1", "rewritten"), ('sub/out/$".."/../e2', "rewritten"), ("sub/out/${nope:-..}/../e3", "rewritten"),
    ("sub/out/${nope-..}/../e4", "rewritten"), ("sub/out/$'\\x2e\\x2e'/../e5", "rewritten"), ("sub/out/$DD/../e6", "rewritten"),
    ("sub/out/`printf ..`/../e7", "rewritten"), ("sub/out/$(printf ..)/../e8", "rewritten"), ("sub/out/../../[f]", "rewritten"),
    ("sub/out/$((1))", "rewritten"), ("out/${#nope}", "rewritten"), ('"sub/out/$DD/../e9"', "rewritten"),
]
NODES = [
    ("simple", "ls {R}"), ("simple-pre", "{R} ls"), ("only-redirect", "{R}"), ("brace", "{ ls; } {R}"), ("subshell", "( ls ) {R}"),
    ("while", "while ls; do ls; done {R}"), ("until", "until ls; do ls; done {R}"), ("for", "for v in a; do ls; done {R}"),
    ("if", "if ls; then ls; fi {R}"), ("case", "case a in a) ls;; esac {R}"), ("cond", "[[ -n a ]] {R}"), ("arith", "(( 1 )) {R}"),
    ("select", "select v in a; do ls; done {R} <<< 1"), ("forarith", "for ((i=0;i<1;i++)); do ls; done {R}"),
    ("pipe-stage", "ls {R} | cat"), ("fn-body", "fn() { ls; } {R}"), ("in-cmdsub", "echo $(ls {R})"), ("in-procsub", "cat <(ls {R})"),
    ("list-second", "ls; ls {R}"), ("bg", "ls {R} &"), ("coproc", "coproc ls {R}"), ("negation", "! ls {R}"), ("time", "time ls {R}"),
    ("assign-only", "x=1 {R}"), ("nested-brace", "{ { ls; } {R}; }"), ("if-inner", "if ls {R}; then ls; fi"), ("elif", "if false; then ls; elif ls {R}; then ls; fi"),
]
CD_SEQS = [
    "cd sub; ls > out/g", "ls; cd sub; ls > out/g", "cd sub\nls > out/g", "ls && cd sub && ls > out/g", "cd sub; cd ..; ls > out/g",
    "cd sub && ls > ../out/g", "cd /; ls > @J@/out/g", "cd out; ls > g", "cd out; ls > ../nogrant", "cd sub || ls; ls > out/g",
    "cd ./sub/; ls > out/g", 'cd "sub"; ls > out/g', "cd sub; ( cd ..; ls > out/g )", "( cd sub ); ls > out/g",
    "{ cd sub; }; ls > out/g", "if cd sub; then ls > out/g; fi", "cd sub && { ls > out/g; }", "cd -- sub; ls > out/g",
    "cd $PWD/sub; ls > out/g", "pushd sub; ls > out/g", "cd sub; ls | cat > out/g", "ls | cd sub; ls > out/g",
    "while cd sub; do ls > out/g; break; done", "fn() { cd sub; }; fn; ls > out/g", "cd sub & ls > out/g",
    # the second iteration runs where the first one ended (sub/out is granted, sub/sub/out is not)
    "while cd sub; do ls > out/g; done", "until ! cd sub; do ls > out/g; done", "for d in a b; do cd sub; ls > out/g; done",
    "for d in a b; do ls > out/g; cd sub; done", "while ls; do cd sub; ls > out/g; done", "cd sub; while cd sub; do ls > out/g; done",
    "for ((i=0;i<2;i++)); do cd sub; ls > out/g; done", "if cd sub; then ls > out/g; fi; ls > out/g", "cd sub; ls > out/g; cd sub; ls > out/g",
    "while cd sub && ls; do ls > out/g; done", "select d in a b; do cd sub; ls > out/g; done <<< 1",
]
TOOLS = [  # programs using the file-writing options Dippy models (stdin from a file so nothing blocks)
    "cat f | env -C sub tee {T}", "cat f | env --chdir=sub tee {T}", "cat f | env --chdir sub tee -a {T}", "cat f | env -iC sub tee {T}",
    "cat f | tee {T}", "cat f | tee -a {T}", "cat f | tee -- {T}", "cat f | tee out/g {T}", "cat f | tee -i {T}",
    "sort -o {T} f", "sort -o{T} f", "sort --output={T} f", "sort --output {T} f", "sort -r -o {T} f", "sort -ro {T} f", "sort f -o {T}",
    "sort f --ou={T}", "sort -u f",
    "sed -i s/a/b/ {T}", "sed -i.bak s/a/b/ {T}", "sed --in-place s/a/b/ {T}", "sed -n -i s/a/b/ {T}", "sed -ni s/a/b/ {T}",
    "sed -n 'w {T}' f", "sed -n 'w{T}' f", "sed 's/d/e/w {T}' f", "sed -e 'w {T}' f", "sed -n '/d/w {T}' f", "sed -E -i s/a/b/ {T}",
    "sed --in-place=.b s/a/b/ {T}", "sed -s -i s/a/b/ {T}", "sed -n p f",
    "awk '{print > \"{T}\"}' f", "awk '{print >> \"{T}\"}' f", "awk '{printf \"x\" > \"{T}\"}' f", "awk -v o={T} '{print > o}' f",
    "awk '{print > f}' f={T} f", "awk 'BEGIN{o=\"{T}\"; print 1 > o}'", "awk '{print | \"cat > {T}\"}' f", "awk '{print}' f",
    "iconv -f utf8 -t latin1 -o {T} f", "iconv -o{T} f", "iconv --output={T} f", "iconv --output {T} f", "iconv -f utf8 f",
    # round seven: the wrappers' own output files (strace/ltrace -o, /usr/bin/time -o): written by the wrapper, whatever runs inside
    "strace -o {T} ls", "strace -o{T} ls", "strace -f -o {T} ls", "ltrace -o {T} ls", "command time -o {T} ls", "command time --output={T} ls",
    "command time -a -o {T} ls", "strace ls",
    "find . -name f -fprint {T}", "find . -name f -fprint0 {T}", "find . -name f -fls {T}", "find . -name f -fprintf {T} %p", "find . -name f",
]
TOOL_TARGETS = ["out/g", "nogrant", "secret/s", "@J@/out/f", "out/../escape", "-", "only/t5",
                # rewritten by bash before the tool sees them (see TARGETS)
                "sub/out/$'..'/../t1", "sub/out/{a,../../t2}", "sub/out/${nope:-..}/../t3", "sub/out/$DD/../t4"]


def programs(tier, rng):
    out = []
    for (nname, ntmpl), op, (tgt, cls) in itertools.product(NODES, OPS, TARGETS):
        if nname not in ("simple", "brace", "while", "cond") and rng.random() > (0.12 if tier == "quick" else 0.6):
            continue
        if op.startswith("{") and nname in ("only-redirect",):
            continue
        out.append((f"redirect:{nname}", ntmpl.replace("{R}", f"{op} {tgt}"), cls))
        if tgt.startswith("&") or rng.random() < 0.15:
            out.append((f"redirect-nospace:{nname}", ntmpl.replace("{R}", f"{op}{tgt}"), cls))
    for p in CD_SEQS:
        out.append(("cd-sequence", p, "?"))
        out.append(("cd-sequence", p.replace("out/g", "nogrant"), "?"))
    for tmpl, tgt in itertools.product(TOOLS, TOOL_TARGETS):
        out.append(("tool:" + tmpl.split()[0 if not tmpl.startswith("cat f |") else 3], tmpl.replace("{T}", tgt), "?"))
        # ... and the same command ending in a help-looking word: it still writes the file (sort -o f -h sorts)
        if tgt in ("nogrant", "secret/s") and "{T}" in tmpl:
            for h in ("-h", "--help", "--version"):
                out.append(("tool-help:" + tmpl.split()[0 if not tmpl.startswith("cat f |") else 3], tmpl.replace("{T}", tgt) + " " + h, "?"))
    # a directory change in every slot of every compound before / beside a relative write (ground truth decides)
    for label, text in bx.cd_write_programs(tier, rng):
        out.append((label, text, "?"))
    # every ordered pair of redirections on one node, the same target twice included
    for label, text, _singles in bx.redirect_pairs(tier):
        out.append((label, text, "?"))
    # two redirects on one node, granted + ungranted in both orders
    for a, b in itertools.permutations(["> out/g", ">> nogrant", "2> secret/s", "3>&1", "< f", ">| out/h", "{v}> nogrant"], 2):
        out.append(("two-redirects", f"ls {a} {b}", "?"))
    # every redirectable node shape inside every evaluation position, with an ungranted and a denied
    # target: nothing may be approved (checked statically and, if approved, by running it)
    k = 0
    for (nname, ntmpl), (pos, tmpl) in itertools.product(NODES, bx.EXEC_POSITIONS):
        k += 1
        if tier == "quick" and (k % 3):
            continue
        op = OPS[k % len(OPS)]
        tgt, cls = [("nogrant", "ungranted"), ("secret/s", "denied"), ("out/../escape", "ungranted")][k % 3]
        inner = ntmpl.replace("{R}", f"{op} {tgt}")
        if op.startswith("{") and nname == "only-redirect":
            continue
        if op in ("<",) or "{Xq}" in tmpl and "'" in inner:
            continue
        out.append((f"cross:{pos}", bx.fill(tmpl, inner), cls))
    n_rand = 150 if tier == "quick" else 6000
    for _ in range(n_rand):
        nname, ntmpl = rng.choice(NODES)
        op = rng.choice(OPS)
        tgt, cls = rng.choice(TARGETS)
        inner = ntmpl.replace("{R}", f"{op} {tgt}")
        pos, tmpl = rng.choice(bx.EXEC_POSITIONS)
        if "{Xq}" in tmpl and "'" in inner:
            continue
        out.append((f"nested:{pos}", bx.fill(tmpl, inner), cls))
    return out


def run(tier, seed, replay=None):
    lib.use_repo()
    from dippy.core import analyzer as an
    from dippy.core.config import parse_config, match_redirect

    rng = random.Random(seed)
    out = core.Outcome("C02")
    njails = 12
    jails = [Jail(bx.STUBS, real_tools=REAL_TOOLS) for _ in range(njails)]
    try:
        j0 = jails[0]
        cfg = parse_config(bx.config_text(j0.cwd))
        cwd = j0.cwd
        progs = [("replay", replay["program"], "?")] if replay else \
            [(a, b.replace("@J@", j0.cwd), c) for a, b, c in programs(tier, rng)]
        model = lib.Model()
        approved = []
        xcheck = []
        for idx, (pos, text, cls) in enumerate(progs):
            try:
                dec = an.analyze(text, cfg, Path(cwd))
            except RecursionError:
                continue
            impl = dec.action
            out.case(text)
            out.count("position", pos.split(":")[0])
            out.count("verdict", impl)
            out.count("target_class", cls)
            rec = len(xcheck) < 40 and idx % 23 == 0
            try:
                mv = model_analyze(model, cfg, text, cwd, record=rec)
            except lib.ModelError as e:
                out.disagreements.append({"correspondence": "Walker.analyze_nodes <-> analyzer.analyze", "program": text, "model": f"error {e}", "impl": impl})
                model = lib.Model()
                mv = None
            if mv is not None and mv != impl:
                out.disagreements.append({"correspondence": "Walker.analyze_nodes <-> analyzer.analyze", "program": text, "position": pos, "model": mv, "impl": impl})
            if rec and mv is not None and model.transcript is not None and len(model.transcript) < 60:
                xcheck.append((model.last_request, list(model.transcript), mv))
            if impl == "allow":
                approved.append((pos, text))
                if pos.startswith("cross:") and cls in ("ungranted", "denied"):
                    # static oracle: a live redirect to a file no rule grants cannot be approved
                    out.violations.append({"kind": "unchecked-redirect",
                                           "what": "approved although it contains a write redirection whose target no allow-redirect rule grants",
                                           "program": text, "position": pos, "config": bx.config_text(cwd), "cwd": cwd,
                                           "signature_text": text.replace(cwd, "@J@")})
            if idx % 41 == 0:
                out.sample({"position": pos, "program": text, "verdict": impl})
        from . import funcs
        funcs.run_ties(out, model, ["strip_fd_prefix", "written_rule"], tier, rng, an)
        model.close()
        # the two hypotheses of theorem C02_cd_tracking_sound about the resolution oracle, checked on the real
        # _resolve_cd_target: absolute / home targets lead to the same place from anywhere; a relative target
        # keeps the unknown directory unknown (true up to the depth of the placeholder, 64 levels)
        unk = str(an._UNKNOWN_CWD)
        unk_root = "/".join(unk.split("/")[:3])
        comps = ["sub", "..", ".", "a b", "-", "x/y", "../..", "~", "", "é"]
        tgts = set(comps) | {"/" + "/".join(c) for c in itertools.product(comps[:6], repeat=2)} | {"/".join(c) for c in itertools.product(comps[:7], repeat=3)} \
            | {"~/" + c for c in comps} | {"../" * k + "etc" for k in range(0, 40)} | {"/", "//", "/..", "~root", "~/..", "/tmp/../etc"}
        nh = 0
        for tgt in sorted(tgts):
            if not tgt:
                continue
            nh += 1
            try:
                if tgt.startswith(("/", "~")):
                    r = {str(an._resolve_cd_target(tgt, Path(d))) for d in (cwd, "/", unk, "/tmp/x/y")}
                    if len(r) != 1:
                        out.disagreements.append({"correspondence": "hypothesis abs_anywhere of C02_cd_tracking_sound <-> _resolve_cd_target", "target": tgt, "results": sorted(r)})
                else:
                    r = str(an._resolve_cd_target(tgt, Path(unk)))
                    if not r.startswith(unk_root):
                        out.disagreements.append({"correspondence": "hypothesis unknown_stays of C02_cd_tracking_sound <-> _resolve_cd_target", "target": tgt, "result": r})
            except Exception as e:
                out.disagreements.append({"correspondence": "hypotheses of C02_cd_tracking_sound <-> _resolve_cd_target", "target": tgt, "exception": repr(e)})
        out.extra["cd_oracle_hypotheses"] = {"targets_checked": nh, "note": "unknown_stays is checked for relative targets with up to 39 '..' components; the placeholder is 66 levels deep"}

        import concurrent.futures as cf

        def worker(k):
            res = []
            jail = jails[k]
            for i in range(k, len(approved), njails):
                pos, text = approved[i]
                changes = set()
                for mode in ("alt", "0"):
                    log, changed, status, err = jail.run(text.replace(j0.cwd, jail.cwd), mode)
                    changes |= {p.replace(jail.cwd, j0.cwd) for p in changed}
                res.append((pos, text, sorted(changes)))
            return res

        with cf.ThreadPoolExecutor(njails) as ex:
            results = [r for fut in [ex.submit(worker, k) for k in range(njails)] for r in fut.result()]
        nchanged = 0
        for pos, text, changes in results:
            out.count("ground_truth", "ran")
            bad = []
            for p in changes:
                if os.path.isdir(p) and False:
                    continue
                m = match_redirect(p, cfg, Path(cwd))
                if not (m and m.decision == "allow"):
                    bad.append(p)
            nchanged += len(changes)
            if bad:
                out.violations.append({
                    "kind": "ungranted-write",
                    "what": f"approved, but running it under bash changed {[b.replace(cwd + '/', '') for b in bad]} which no allow-redirect rule grants",
                    "program": text, "position": pos, "changed": changes, "config": bx.config_text(cwd), "cwd": cwd,
                    "signature_text": text.replace(cwd, "@J@"),
                })
        out.extra["ground_truth"] = {"approved_programs_run_under_bash": len(results), "bash_runs": 2 * len(results), "changed_paths_checked": nchanged}
        n, mism = core.coq_crosscheck("C02", xcheck)
        out.extra["coq_vm_crosscheck"] = {"cases": n, "mismatches": len(mism)}
        if mism:
            out.disagreements.append({"correspondence": "extracted OCaml model <-> vm_compute in Coq", "detail": mism[:5]})
        out.extra["rule"] = (f"systematic: {len(NODES)} redirectable node shapes x {len(OPS)} operator/fd-prefix spellings x {len(TARGETS)} target spellings "
                             "(all for simple/brace/while/[[ ]], sampled for the rest), cd sequences, two-redirect orders, "
                             f"{len(TOOLS)} tool option spellings x {len(TOOL_TARGETS)} targets; random: a redirected node inside a random evaluation position. "
                             "distinct = distinct program texts. Every approved program is run under real bash and the file tree diffed.")
    finally:
        for j in jails:
            j.close()
    return out
