"""C09 - path rules follow the file, not its spelling.

Correspondence (equality): Model/Glob2.v glob_match <-> config._glob_match; Model/Paths.v classify /
norm / normalize_path <-> _classify_token / Path.resolve() on symlink-free paths / _normalize_path;
Model/Rules.v match_redirect, normalize_redirect_pattern <-> config.py (resolve and home are oracles
answered by the real pathlib on a real scratch tree that contains symlinks).
Implementation-level oracles (model-free): every respelling of a target (redirect) or of a path
argument (command rule) gets the same Match decision and the same analyze() verdict; an
`allow-redirect D/**` never allows a target whose os.path.realpath lies outside realpath(D)
(tree with symlinks); relative rules behave the same in directories that differ only by name
(proj1 / proj[1]); in `**/L/*` and `**/L/?` the final wildcard matches no '/'.
Second round (harness/spell.py): spelling families built by construction for 15 files (anchor: absolute, cwd-relative incl. the lone
'.', '..', '~', './', through CWD/.., through ../base, ~/, ~/../h, through a symbolic link; decoration at every '/': '//', '/./',
'zz/..' and 'dir/..' detours; trailing '/', '//', '/.', '/d/..'), each validated with os.path.realpath.  E: the rule (command rule
at 8 positions, redirect rule, alias, after rule; plain / anchored / trailing ' *' / extra word; any blanks between the words)
written with spelling p fires on the command / target written with spelling q iff they are the same file - all pairs of a
capped family, every member of the full family with rotated partners, the undecorated forms fully crossed, other files as
controls, glob tails ('*', '*.py', '?', classes, '**', '**/name') with ground truth from fnmatch / the directory tree on the real
paths, five working directories (/, home, parent, through a symlink, a sub-directory).  B2: every helper of the normalisation chain
against its model on small alphabets exhaustively (_expand_token on all strings of <= 4 characters over . / ~ a * :, both modes;
_normalize_words / _normalize_pattern on all sequences of <= 2 (thorough: 3) of 28 tokens + every token at every position 0..8;
str.split(); _resolve_alias on 14^3 (source, source, word) triples); Paths.nf against realpath on every generated spelling;
model-free: _normalize_pattern(' '.join(ws)) == _normalize_words(ws)."""
from __future__ import annotations

import logging
import os
import random
import warnings
from pathlib import Path

from . import core, lib, spell
from . import rules_common as rc

TRUSTED = rc.TRUSTED_COMMON + [
    "hypothesis of the C09 theorems: Path.resolve() = lexical normalisation (no symbolic links on the path); the "
    "harness checks norm against the real resolve() on symlink-free paths and runs the real resolve() with symlinks "
    "in the correspondence and in the confinement oracle",
    "harness/c09.py: the respelling generator (which spellings denote the same file) and os.path.realpath as ground truth",
]

# canonical targets, relative to cwd unless absolute / ~ ; (segments, first-level existing subdirectory for a/d/../b)
REL_TARGETS = [["out", "a"], ["out", "deep", "b"], ["src", "main.py"], ["out", "new.log"], ["newfile"], ["d1", "d2", "f"],
               ["u:", "f"], ["danger"], ["src", "lib", "x.py"]]
ABS_TARGETS = ["/etc/passwd", "/tmp/x.log", "/etc/cron.d/job", "/"]
HOME_TARGETS = [["n", "f"], ["bin", "gh"], ["new"]]
SUBDIR = {"out": "deep", "src": "lib", "d1": "d2"}

REDIRECT_PATTERNS = ["out/*", "out/**", "./out/a", "@CWD@/out/**", "src/main.py", "~/n/*", "~/**", "~/n/f", "/etc/*", "/etc/**",
                     "/tmp/**", "**/*.log", "u:/*", "u:/**", ".", "*", "**", "/", "out/deep/../a", "../proj/out/**",
                     "out/**/b", "d1/**", "newfile", "danger", "./danger", "/etc/passwd", "//etc/passwd", "src/*/x.py",
                     "src/**/x.py", "out/", "@CWD@/src/./main.py", "@HOME@/n/*", "/etc/cron.d/**", "**/passwd", "/**"]
COMMAND_PATTERNS = ["cat src/main.py", "cat src/*", "cat ./src/main.py", "rm /etc/*", "rm /etc/passwd", "cat ~/n/*", "cat ~/n/f",
                    "cat out/*", "cat @CWD@/out/a", "cat *", "rm *", "cat out/deep/../a", "cat ../proj/src/main.py|",
                    "cat src/main.py|", "cat u:/f", "rm /tmp/*", "cat d1/*", "cat /", "rm /"]


def spellings_rel(segs, cwd):
    rel = "/".join(segs)
    a, b = segs[0], "/".join(segs[1:])
    base = os.path.basename(cwd)
    d = SUBDIR.get(a, "zz")
    out = [rel, "./" + rel, cwd + "/" + rel, "../" + base + "/" + rel, rel + "/", rel + "/.", "./" + rel + "//",
           cwd + "/../" + base + "/./" + rel, "/" + cwd + "/" + rel, a + "/../" + rel, ".//" + rel]
    if b:
        out += [a + "//" + b, a + "/./" + b, a + "/" + d + "/../" + b, "./" + a + "/" + d + "/.././" + b]
    return out


def spellings_home(segs, home):
    rel = "/".join(segs)
    out = ["~/" + rel, home + "/" + rel, "~//" + rel, "~/./" + rel, "~/" + rel + "/", home + "/../" + os.path.basename(home) + "/" + rel,
           "~/" + segs[0] + "/../" + rel]
    if len(segs) > 1:
        out += ["~/" + segs[0] + "//" + "/".join(segs[1:]), "~/" + segs[0] + "/./" + "/".join(segs[1:])]
    return out


def spellings_abs(p):
    if p == "/":
        return ["/", "//", "/.", "/..", "/./", "/../.."]
    segs = p.strip("/").split("/")
    out = [p, "/" + p, p + "/", "/./" + p.lstrip("/"), "/" + segs[0] + "/../" + p.lstrip("/"), p + "/.", "/../" + p.lstrip("/")]
    if len(segs) > 1:
        out += ["/" + segs[0] + "//" + "/".join(segs[1:]), "/" + segs[0] + "/./" + "/".join(segs[1:]),
                "/" + segs[0] + "/zz/../" + "/".join(segs[1:])]
    return out


def run(tier, seed, replay=None):
    lib.use_repo()
    warnings.simplefilter("ignore")
    logging.disable(logging.WARNING)
    from dippy.core import analyzer as an
    from dippy.core import config as C

    rng = random.Random(seed)
    out = core.Outcome("C09")
    sc = rc.Scratch()
    model = lib.Model()
    orc = rc.path_oracles()
    xcheck = []
    quick = tier == "quick"
    try:
        def mcall(req, record=False):
            nonlocal model
            try:
                return model.call(req, orc, record=record)
            except lib.ModelError as e:
                model = lib.Model()
                return f"model-error:{e}"

        def disagree(corr, inp, mv, iv):
            out.disagreements.append({"correspondence": corr, "input": inp, "model": mv, "impl": iv})

        def gen_rules(rng_, pats, fam, n):
            lines = []
            for _ in range(n):
                dec = rng_.choice(rc.VERDICTS)
                msg = f' "m{rng_.randint(0, 9)}"' if dec != "allow" and rng_.random() < 0.4 else ""
                lines.append(f"{dec}{fam} {rng_.choice(pats)}{msg}")
            return "\n".join(lines)

        def decision(m):
            return None if m is None else m.decision

        # ---------------------------------------------------- oracles on the real code
        def respell_case(case):
            """case: {'kind': 'redirect'|'command', 'config': text, 'cwd': placeholder path, 'canon': str, 'spellings': [...], 'verb': str}"""
            cfg = C.parse_config(sc.sub(case["config"]))
            cwd = Path(sc.sub(case["cwd"]))
            results = []
            for sp_t in case["spellings"]:
                sp = sc.sub(sp_t)
                if case["kind"] == "redirect":
                    m = decision(C.match_redirect(sp, cfg, cwd))
                    v = an.analyze(f"echo x > {sp}", cfg, cwd).action
                else:
                    m = decision(C._match_words([case["verb"], sp], cfg, cwd))
                    v = an.analyze(f"{case['verb']} {sp}", cfg, cwd).action
                results.append((m, v))
            out.count("respell.kind", case["kind"])
            out.count("respell.decision", str(results[0][0]))
            majority = max(set(results), key=results.count)
            for sp_t, r in zip(case["spellings"], results):
                if r != majority:
                    out.violations.append({
                        "kind": "respell", "case": case, "odd_spelling": sp_t, "odd_result": r, "majority_result": majority,
                        "what": f"{case['kind']} rule verdict depends on the spelling: {sp_t!r} gives (match, analyze)={r}, "
                                f"the other spellings of {case['canon']!r} give {majority}",
                        "config": case["config"], "cwd": case["cwd"],
                        "signature_text": f"respell kind={case['kind']} canon={case['canon']} odd={sp_t!r} config={case['config']!r}"})
                    break

        def pattern_case(case):
            """case: {'kind': redirect|command, 'dirs': spellings of one directory, 'suffix': str, 'decision': str,
            'target': str, 'verb': str}: the same rule written with differently spelled directories"""
            cwd = Path(sc.cwd)
            results = []
            for d in case["dirs"]:
                pat = sc.sub(d) + case["suffix"]
                t = sc.sub(case["target"])
                if case["kind"] == "redirect":
                    cfg = C.parse_config(f"{case['decision']}-redirect {pat}")
                    m = decision(C.match_redirect(t, cfg, cwd))
                    v = an.analyze(f"echo x > {t}", cfg, cwd).action
                else:
                    cfg = C.parse_config(f"{case['decision']} {case['verb']} {pat}")
                    m = decision(C._match_words([case["verb"], t], cfg, cwd))
                    v = an.analyze(f"{case['verb']} {t}", cfg, cwd).action
                results.append((m, v))
            out.count("pattern-respell", f"{case['kind']}:{results[0][0]}")
            majority = max(set(results), key=results.count)
            for d, r in zip(case["dirs"], results):
                if r != majority:
                    out.violations.append({
                        "kind": "pattern-respell", "case": case,
                        "what": f"{case['kind']} rule {case['decision']} {d + case['suffix']!r} on {case['target']!r} gives {r}; "
                                f"the other spellings of the same pattern give {majority}",
                        "signature_text": f"pattern-respell kind={case['kind']} odd={d + case['suffix']!r} target={case['target']!r}"})
                    break

        def confine_case(case):
            """case: {'dir': D spelling, 'target': spelling, 'cwd': placeholder}"""
            D, t, cwd = sc.sub(case["dir"]), sc.sub(case["target"]), sc.sub(case["cwd"])
            cfg = C.parse_config(f"allow-redirect {D}/**")
            m = C.match_redirect(t, cfg, Path(cwd))
            v = an.analyze(f"echo x > {t}", cfg, Path(cwd)).action
            real_t = os.path.realpath(os.path.join(cwd, os.path.expanduser(t)))
            real_d = os.path.realpath(os.path.join(cwd, os.path.expanduser(D)))
            inside = real_t == real_d or real_t.startswith(real_d.rstrip("/") + "/")
            allowed = (m is not None and m.decision == "allow") or v == "allow"
            out.count("confine", f"allowed={allowed} inside={inside}")
            if allowed and not inside:
                out.violations.append({
                    "kind": "confine", "case": case, "real_target": sc.unsub(real_t), "real_dir": sc.unsub(real_d),
                    "what": f"allow-redirect {case['dir']}/** allows {case['target']!r}, which really is {sc.unsub(real_t)!r}, outside {sc.unsub(real_d)!r}",
                    "signature_text": f"confine dir={case['dir']} odd={case['target']!r}"})

        def rename_case(case):
            """case: {'config': relative rules, 'command': text}: same verdict in proj1 and proj[1]"""
            cfg = C.parse_config(case["config"])
            res = {}
            for name in ("proj1", "proj[1]"):
                cwd = Path(sc.root) / "w" / name
                res[name] = an.analyze(case["command"], cfg, cwd).action
            out.count("cwd-rename", f"{res['proj1']}/{res['proj[1]']}")
            if res["proj1"] != res["proj[1]"]:
                out.violations.append({
                    "kind": "cwd-rename", "case": case,
                    "what": f"{case['command']!r} under {case['config']!r}: {res['proj1']} in w/proj1 but {res['proj[1]']} in w/proj[1] "
                            "(the expanded cwd is read as a glob)",
                    "signature_text": f"cwd-rename cwd=proj[1] command={case['command']!r} config={case['config']!r}"})

        def level_case(case):
            """case: {'L': literal segment, 'x': prefix, 'v': tail, 'q': bool}: ground truth for **/L/* and **/L/?.
            [^/]* cannot cross a '/', so the final wildcard must match exactly the text after the last '/',
            and what precedes it must end with L + '/'."""
            pat = "**/" + case["L"] + "/" + ("?" if case["q"] else "*")
            text = case["x"] + case["L"] + "/" + case["v"]
            got = C._glob_match(text, pat)
            rem = text.rsplit("/", 1)[-1]
            head = text[:len(text) - len(rem)]
            want = head.endswith(case["L"] + "/") and (len(rem) == 1 if case["q"] else True)
            out.count("one-level", f"q={case['q']} match={got}")
            if want != got:
                out.violations.append({"kind": "one-level", "case": case,
                                       "what": f"_glob_match({text!r}, {pat!r}) = {got}; with '*'/'?' confined to one segment it is {want}",
                                       "signature_text": f"one-level pat={pat!r} text={text!r}"})

        def spell_case(case):
            """case: see spell.build - one rule whose pattern names files in one spelling, a command / target that names files in
            another; the rule must fire exactly when they are the same files (glob tail: when fnmatch says so on the real paths)"""
            cfg_text, subject, expected = spell.build(sc, case)
            got = spell.fired(C, sc, case, cfg_text, subject)
            out.count("spell." + case["rule"], f"{case.get('tpl', '-')}:{'tail' if case.get('tail') else 'same' if case['same'] else 'other'}:fires={expected}")
            if got != expected:
                subj = subject if isinstance(subject, str) else " ".join(subject)
                out.violations.append({
                    "kind": "spell", "case": case, "config": spell.unsub(sc, cfg_text), "subject": spell.unsub(sc, subj),
                    "what": f"{case['rule']} rule {spell.unsub(sc, cfg_text)!r} on {spell.unsub(sc, subj)!r}: fires={got}; pattern and "
                            f"{'target' if case['rule'] == 'redirect' else 'command'} name {'the same' if case['same'] else 'different'} file(s)"
                            + (f", fnmatch on the real paths says {expected}" if case.get("tail") else f", so it must{'' if expected else ' not'} fire"),
                    "signature_text": f"spell rule={case['rule']} tpl={case.get('tpl')} exact={case.get('exact')} star={case.get('star')} extra={case.get('extra')} "
                                      f"tail={case.get('tail')} p={case['p']!r} q={case['q']!r}"})

        ORACLES = {"spell": spell_case, "pattern-respell": pattern_case, "respell": respell_case, "confine": confine_case, "cwd-rename": rename_case, "one-level": level_case}
        if replay:
            fn = ORACLES.get(replay.get("kind"))
            if fn and replay.get("case"):
                fn(replay["case"])
                out.case(replay["case"])
            out.extra["rule"] = "replay of one recorded case"
            return out

        # ---------------------------------------------------- A. Glob2 <-> _glob_match
        n_g = 6000 if quick else 100000
        unsup = 0
        for i in range(n_g):
            p = rc.rand_pattern(rng)
            if "**" not in p and rng.random() < 0.8:
                k = rng.randint(0, len(p))
                p = p[:k] + rng.choice(["**", "**/", "/**", "/**/"]) + p[k:]
            s = rc.text_for(rng, p.replace("**", "*")) if rng.random() < 0.6 else rc.rand_text(rng)
            real = rc.guarded(lambda: C._glob_match(s, p))
            real = {True: "1", False: "0"}.get(real, real)
            rec = len(xcheck) < 20 and i % 101 == 0
            mv = mcall(["glob_match", s, p], record=rec)
            if rec and model.transcript is not None:
                xcheck.append((model.last_request, list(model.transcript), mv))
            out.case(["g2", p, s], nontrivial="**" in p)
            if mv == "unsupported":
                unsup += 1
                out.count("glob2.result", "unsupported-by-model")
                continue
            out.count("glob2.result", real)
            out.count("glob2.pattern", "bracket" if "[" in p else "plain")
            if mv != real:
                disagree("Glob2.glob_match <-> config._glob_match", {"pattern": p, "text": s}, mv, real)
        out.extra["glob2_unsupported_patterns"] = {"count": unsup, "of": n_g,
                                                   "why": "bracket text containing a backslash, or exactly '^'"}

        # ---------------------------------------------------- A'. the same correspondence, exhaustively: every pattern of up to
        # 5 (6) tokens over { a b / * ? [ab] ** } against every text of up to 5 (6) tokens over { a b / } - a wildcard in any
        # component, one or several "**", with and without the components it would have to cross
        import itertools as _it
        ptoks, ttoks = ["a", "b", "/", "*", "?", "[ab]", "**"], ["a", "b", "/"]
        pmax, tmax = (5, 5) if quick else (6, 6)
        pats = ["".join(t) for n in range(1, pmax + 1) for t in _it.product(ptoks, repeat=n)]
        pats = sorted({p for p in pats if "***" not in p and ("*" in p or "?" in p or "[" in p)})
        texts = sorted({"".join(t) for n in range(0, tmax + 1) for t in _it.product(ttoks, repeat=n)}
                       | {"".join(t) for n in range(0, tmax + 4) for t in _it.product(["a", "/"], repeat=n)})
        if quick:
            pats = [p for i, p in enumerate(pats) if "**" in p or i % 3 == seed % 3]
        ndiff = 0
        for i in range(0, len(pats), 40):
            chunk = pats[i:i + 40]
            rows = mcall(["glob_matrix", texts, chunk])
            for p, row in zip(chunk, rows):
                for t, mv in zip(texts, row):
                    real = rc.guarded(lambda: C._glob_match(t, p))
                    real = {True: "1", False: "0"}.get(real, real)
                    if mv != "unsupported" and mv != real:
                        ndiff += 1
                        if ndiff <= 5:
                            disagree("Glob2.glob_match <-> config._glob_match", {"pattern": p, "text": t}, mv, real)
                        # the difference as a redirect rule: the rule allows a target its pattern does not match (or the reverse)
                        if len(out.violations) < 40 and t.startswith("/") is False and "//" not in t and t and not t.endswith("/"):
                            cfgx = C.parse_config(f"allow-redirect /g/{p}\n")
                            m = C.match_redirect(f"/g/{t}", cfgx, Path("/"))
                            fires = m is not None
                            if fires != (mv == "1"):
                                out.violations.append({"kind": "glob-level", "what": f"allow-redirect /g/{p} {'allows' if fires else 'does not allow'} the target /g/{t}; "
                                                       f"with '*', '?' and '[..]' confined to one path component and '**' spanning components it must{'' if mv == '1' else ' not'}",
                                                       "case": {"pattern": p, "text": t}, "signature_text": f"glob-level pat={p!r} text={t!r}"})
        out.evaluations += len(pats) * len(texts)
        out.extra["glob2_exhaustive"] = {"patterns": len(pats), "texts": len(texts), "differences": ndiff}

        # ---------------------------------------------------- B. classify, norm, normalize_path
        toks = ["", "~", "~/", "~/x", "~bob", "~bob/x", "$HOME", "$HOME/x", "/", "/x", ".", "..", "./x", "../x", "a/b", "a", "-f",
                "http://x/y", "a://b", "x:/y", "://", "/a://b", "~/a://b", "a=b", "./", "x/", "//x", "~x/", "é/x", "a b/c"]
        for t in toks + [rc.rand_text(rng, 6) for _ in range(300 if quick else 3000)]:
            for allow_url in (True, False):
                real = C._classify_token(t, allow_url=allow_url)
                mv = mcall(["classify_token", t, allow_url])
                out.case(["cl", t, allow_url])
                out.count("classify", real)
                if mv != real:
                    disagree("Paths.classify_gen <-> config._classify_token", {"token": t, "allow_url": allow_url}, mv, real)
        segs_pool = ["a", "b", "out", "zz", ".", "..", "", "u:", "x y", "...", "é", "-"]
        base_dirs = [sc.root + "/w/proj/src", sc.root + "/w/nolinks", "/nonexistent", "/", sc.home]
        for _ in range(400 if quick else 5000):
            p = rng.choice(base_dirs) + "/" + "/".join(rng.choice(segs_pool) for _ in range(rng.randint(0, 6)))
            if rng.random() < 0.2:
                p = "/" + p
            real = str(Path(p).resolve())
            mv = mcall(["norm", p])
            out.case(["norm", sc.unsub(p)])
            out.count("norm", "changed" if real != p else "already-normal")
            if mv != real:
                disagree("Paths.norm <-> Path.resolve() on a symlink-free path", {"path": p}, mv, real)
        cwds = [sc.cwd, sc.root + "/w/proj[1]", sc.root + "/w/links/toout", sc.home, "/"]
        for _ in range(400 if quick else 5000):
            cwd = rng.choice(cwds)
            kind = rng.random()
            if kind < 0.5:
                t = sc.sub(rng.choice(rng.choice([spellings_rel(s, sc.cwd) for s in REL_TARGETS])))
            elif kind < 0.7:
                t = rng.choice(spellings_home(rng.choice(HOME_TARGETS), sc.home))
            elif kind < 0.85:
                t = rng.choice(spellings_abs(rng.choice(ABS_TARGETS)))
            else:
                t = rng.choice(["out/lnout/secret", "out/lnsrc/main.py", "out/lnout/../proj/danger", "$X/y", "~bob/x", "a://b", "", "///"])
            real = rc.guarded(lambda: C._normalize_path(t, Path(cwd)))
            mv = mcall(["normalize_path", cwd, t])
            out.case(["np", sc.unsub(cwd), sc.unsub(t)])
            if mv != real:
                disagree("Paths.normalize_path <-> config._normalize_path", {"cwd": cwd, "target": t}, mv, real)
            pat = sc.sub(rng.choice(REDIRECT_PATTERNS))
            real = rc.guarded(lambda: C._normalize_redirect_pattern(pat, Path(cwd)))
            mv = mcall(["normalize_redirect_pattern", cwd, pat])
            out.case(["nrp", sc.unsub(cwd), sc.unsub(pat)])
            if mv != real:
                disagree("Rules.normalize_redirect_pattern <-> config._normalize_redirect_pattern", {"cwd": cwd, "pattern": pat}, mv, real)

        # ---------------------------------------------------- B2. every helper of the normalisation chain, small alphabets exhaustively
        import itertools
        cwdp = Path(sc.cwd)
        # tokens: every string of <= 4 characters over the characters _classify_token looks at (+ one neutral letter, one glob char)
        T_CHARS = [".", "/", "~", "a", "*", ":"]
        tokens4 = ["".join(t) for n in range(0, 5) for t in itertools.product(T_CHARS, repeat=n)]
        tokens4 += ["$", "$a", "$/a", "a$", "~a", "~a/..", "a://", "a://a/..", "://", "~/a://", "/a://..", "-", "-/..", "a b", "é/..", "a\n/.."]
        if quick:
            tokens4 = [t for i, t in enumerate(tokens4) if len(t) <= 3 or i % 2 == 0]
        for t in tokens4:
            real = rc.guarded(lambda: C._expand_home_only(t))
            mv = mcall(["expand_home_only", t])
            out.case(["eho", t])
            if mv != real:
                disagree("Paths.expand_home_only <-> config._expand_home_only", {"token": t}, mv, real)
            for force in (False, True):
                real = rc.guarded(lambda: C._expand_token(t, cwdp, force_path=force))
                mv = mcall(["expand_token", sc.cwd, t, force])
                out.case(["et", t, force])
                out.count("expand_token", C._classify_token(t, allow_url=not force))
                if mv != real:
                    disagree("Paths.expand_token <-> config._expand_token", {"cwd": sc.cwd, "token": t, "force_path": force}, mv, real)
        # patterns / word lists: every sequence of <= 2 tokens (thorough: 3) over a token alphabet with every lone and prefixed form
        TOK = [".", "..", "~", "/", "a", "./a", "../a", "a/..", "~/a", "/a", "a/", "a//b", "*", "a/*", "../*", "-f", "$X/a", "~u/a", "x://y",
               "...", ".a", "~/", "./", "../", "..a", "a..", "~/..", "/.."]
        seqs = [list(t) for n in (0, 1, 2) for t in itertools.product(TOK, repeat=n)]
        seqs += [list(t) for t in itertools.product(TOK, repeat=3)][::(23 if quick else 1)]
        # longer lists: every token of the alphabet at every position 0..8 among neutral words, and random lists
        seqs += [["w%d" % j if j != pos else t for j in range(n)] for t in TOK for n in (4, 6, 9) for pos in range(n)]
        seqs += [[rng.choice(TOK) for _ in range(rng.randint(4, 10))] for _ in range(200 if quick else 3000)]
        SEPS = [" ", " ", " ", "  ", "\t", " \x0b", "\u00a0", "\x1f ", "\u2003"]
        for si, ws in enumerate(seqs):
            real = rc.guarded(lambda: C._normalize_words(list(ws), cwdp))
            mv = mcall(["normalize_words", sc.cwd, ws])
            out.case(["nw", ws])
            if mv != real:
                disagree("Paths.normalize_words <-> config._normalize_words", {"cwd": sc.cwd, "words": ws}, mv, real)
            sep = SEPS[si % len(SEPS)]
            ptxt = ("" if si % 7 else " ") + sep.join(ws) + ("" if si % 5 else " ")
            real_p = rc.guarded(lambda: C._normalize_pattern(ptxt, cwdp))
            mv = mcall(["normalize_pattern", sc.cwd, ptxt])
            out.case(["npat", ptxt])
            out.count("normalize_pattern", f"tokens={len(ws)}")
            if mv != real_p:
                disagree("Paths.normalize_pattern <-> config._normalize_pattern", {"cwd": sc.cwd, "pattern": ptxt}, mv, real_p)
            # model-free: pattern normalisation of the joined words == word normalisation (C07_pattern_is_words on the real code)
            if real_p != real and all(w and not any(ch.isspace() for ch in w) for w in ws):
                out.violations.append({"kind": "norm-agree", "case": {"words": ws, "pattern": ptxt},
                                       "what": f"_normalize_pattern({ptxt!r}) = {sc.unsub(str(real_p))!r} but _normalize_words({ws!r}) = {sc.unsub(str(real))!r}: "
                                               "a rule written with the command's own words is normalised differently from the command",
                                       "signature_text": f"norm-agree words={ws!r} pattern={ptxt!r}"})
        for s_ in [" a  b ", "a\tb", "a\x0bb", "a\x1cb\x1db\x1eb\x1fb", "a\x85b", "a\u00a0b", "a\u1680b", "a\u2000b\u200ab", "a\u200bb", "a\u2028b\u2029b",
                   "a\u202fb", "a\u205fb", "a\u3000b", "a\ufeffb", "", "   ", "\n", "a\r\nb"] + [rc.rand_text(rng, 6) for _ in range(200)]:
            real = s_.split()
            mv = mcall(["split_py", s_])
            out.case(["split", s_])
            if mv != real:
                disagree("Paths.split_py <-> str.split()", {"text": s_}, mv, real)
        # _resolve_alias: alias sources and the word from the token alphabet (first match in insertion order; compared normalised)
        ATOK = ["a", "./a", "../proj/a", "~/a", "@CWD@/a", "@HOME@/a", "b", "a/", ".", "..", "~", "@CWD@", "a/../a", "*"]
        for k, (s1, s2, w) in enumerate(itertools.product(ATOK, ATOK, ATOK)):
            if quick and k % 3:
                continue
            al = {sc.sub(s1): "T1", sc.sub(s2): "T2"}
            real = rc.guarded(lambda: C._resolve_alias(sc.sub(w), C.Config(aliases=al), cwdp))
            mv = mcall(["resolve_alias", sc.cwd, sc.sub(w), [[a_, b_] for a_, b_ in al.items()]])
            out.case(["alias", s1, s2, w])
            out.count("resolve_alias", "hit" if real != sc.sub(w) else "miss")
            if mv != real:
                disagree("Rules.resolve_alias <-> config._resolve_alias", {"aliases": al, "word": w}, mv, real)

        # ---------------------------------------------------- C. match_redirect model <-> real (symlinks included)
        all_targets = []
        for s in REL_TARGETS:
            all_targets += spellings_rel(s, sc.cwd)
        for s in HOME_TARGETS:
            all_targets += spellings_home(s, sc.home)
        for a in ABS_TARGETS:
            all_targets += spellings_abs(a)
        all_targets += ["out/lnout/secret", "out/lnsrc/main.py", sc.root + "/w/links/toout/a", "out/lnout/../proj/danger", "$X/y",
                        "~bob/x", "a://b", "x.log", "deep/x.log", "out/a\n", "out/[a]"]
        for ci in range(200 if quick else 2500):
            text_t = gen_rules(rng, REDIRECT_PATTERNS + ["out/[ab]", "out/?", "**/[!a]*", "o*/a"], "-redirect", rng.randint(0, 8))
            cfg = C.parse_config(sc.sub(text_t))
            wire = rc.enc_rules(cfg.redirect_rules)
            for _ in range(8):
                cwd = rng.choice(cwds)
                t = rng.choice(all_targets)
                rec = len(xcheck) < 45 and ci % 9 == 0
                real = rc.real_match(rc.guarded(lambda: C.match_redirect(t, cfg, Path(cwd))))
                raw = mcall(["match_redirect", cwd, t, wire], record=rec)
                mv = rc.dec_match(raw)
                if rec and model.transcript is not None and len(model.transcript) < 80:
                    xcheck.append((model.last_request, list(model.transcript), raw))
                out.case(["mr", text_t, sc.unsub(cwd), sc.unsub(t)], nontrivial=len(cfg.redirect_rules) >= 2)
                if mv == "unsupported":
                    out.count("match_redirect.result", "unsupported-by-model")
                    continue
                out.count("match_redirect.result", real[0] if isinstance(real, tuple) else str(real))
                if mv != real:
                    disagree("Rules.match_redirect <-> config.match_redirect", {"config": text_t, "cwd": cwd, "target": t}, mv, real)

        # ---------------------------------------------------- D. implementation-level oracles
        canon = []
        for s in REL_TARGETS:
            canon.append(("/".join(s), [sc.unsub(x) for x in spellings_rel(s, sc.cwd)], "redirect"))
            if len(s) > 1:
                # in argument position a token with "://" may be a URL (curl ...): not a path argument
                canon.append(("/".join(s), [sc.unsub(x) for x in spellings_rel(s, sc.cwd) if "/" in x and "://" not in x], "command"))
        for s in HOME_TARGETS:
            sp = [sc.unsub(x) for x in spellings_home(s, sc.home)]
            canon.append(("~/" + "/".join(s), sp, "redirect"))
            canon.append(("~/" + "/".join(s), sp, "command"))
        for a in ABS_TARGETS:
            canon.append((a, spellings_abs(a), "redirect"))
            canon.append((a, spellings_abs(a), "command"))
        out.extra["respellings_per_target"] = {"min": min(len(c[1]) for c in canon), "max": max(len(c[1]) for c in canon)}
        n_sets = 25 if quick else 300
        for name, sps, kind in canon:
            # systematic: each single pattern that mentions the target's area, each decision
            pats = REDIRECT_PATTERNS if kind == "redirect" else COMMAND_PATTERNS
            configs = []
            for ptn in pats:
                dec = rng.choice(rc.VERDICTS)
                configs.append(f"{dec}{'-redirect' if kind == 'redirect' else ''} {ptn}")
            for _ in range(n_sets):
                configs.append(gen_rules(rng, pats, "-redirect" if kind == "redirect" else "", rng.randint(1, 6)))
            for cfg_t in configs:
                case = {"kind": kind, "config": cfg_t, "cwd": "@CWD@", "canon": name, "spellings": sps,
                        "verb": rng.choice(["cat", "rm"])}
                respell_case(case)
                out.case(case, nontrivial=True)
                if len(out.samples) < 6:
                    out.sample({"config": cfg_t, "canon": name, "spellings": sps[:12]})

        dirs = ["out", "./out", "@CWD@/out", "~/n", "@HOME@/n", "out/deep", "../proj/out", "@CWD@", ".", "@ROOT@/w/links/toout", "src", "u:", "out/"]
        esc = ["out/a", "out/deep/b", "out/../src/main.py", "out/lnout/secret", "out/lnsrc/main.py", "out/deep/../../danger",
               "@CWD@/out/../danger", "out//a", "@CWD@/u://../../outside/secret", "@CWD@/u:/../../outside/secret", "out/deep/../a",
               "~/n/f", "~/n/../bin/gh", "@HOME@/n/./f", "../proj/out/a", "../outside/secret", "out/lnout/../proj/out/a",
               "@ROOT@/w/links/toout/a", "@ROOT@/w/links/toout/../src/main.py", "src/../out/a", "u:/f", "u://f",
               "@CWD@/out/u://../../src/main.py", "/etc/passwd", "out", "out/", "out/.", "out/..", "@CWD@/out/deep/../../../outside/secret"]
        for D in dirs:
            for t in esc:
                case = {"dir": D, "target": t, "cwd": "@CWD@"}
                confine_case(case)
                out.case(case)

        dir_spellings = {
            "out": ["out", "./out", "@CWD@/out", "../proj/out", "out/deep/..", "@CWD@/./out", ".//out", "src/../out"],
            "src": ["src", "./src", "@CWD@/src", "../proj/src", "src/lib/..", "@CWD@//src"],
            "~/n": ["~/n", "@HOME@/n", "~/./n", "~/bin/../n", "~//n"],
            "/etc": ["/etc", "//etc", "/etc/.", "/./etc", "/tmp/../etc"],
        }
        targets_for = {"out": ["out/a", "out/deep/b", "./out/a", "out/new", "src/main.py"], "src": ["src/main.py", "src/lib/x.py", "out/a"],
                       "~/n": ["~/n/f", "@HOME@/n/f", "~/bin/gh"], "/etc": ["/etc/passwd", "/etc/cron.d/job", "/tmp/x"]}
        for dname, dsp in dir_spellings.items():
            for suffix in ("/**", "/*", "/a", "/main.py", "/**/b", "/f", "/passwd"):
                for t in targets_for[dname]:
                    for kind in ("redirect", "command"):
                        if kind == "command" and "**" in suffix:
                            continue
                        case = {"kind": kind, "dirs": dsp, "suffix": suffix, "decision": rng.choice(rc.VERDICTS), "target": t, "verb": "cat"}
                        pattern_case(case)
                        out.case(case)

        rel_cfgs = ["allow-redirect out/*", "allow-redirect out/a", "deny-redirect out/**", "allow-redirect ./out/a", "deny ./danger",
                    "deny ./danger *", "allow cat src/*", "deny cat out/a", "allow-redirect **/a", "ask-redirect src/../out/a"]
        rel_cmds = ["echo x > out/a", "echo x > ./out/a", "./danger x", "./danger", "cat src/main.py", "cat out/a", "cat ./out/a", "echo hi > out/deep/b"]
        for cfg_t in rel_cfgs:
            for cmd in rel_cmds:
                case = {"config": cfg_t, "command": cmd}
                rename_case(case)
                out.case(case)

        for _ in range(300 if quick else 4000):
            L = rng.choice(["src", "a", "L x", "é", "a.b"])
            case = {"L": L, "x": rng.choice(["", "/", "p/", "/p/q/", "p/" + L + "/", "x"]),
                    "v": rng.choice(["f", "", "f.py", "a/b", "/", "f/", "ab", "x", "é", "a b", ".", "d/e/f"]), "q": rng.random() < 0.4}
            level_case(case)
            out.case(case)

        # ---------------------------------------------------- E. spelling families: pattern spelling x command spelling x rule kind x position
        links = spell.scratch_links(sc)
        files = spell.scratch_files(sc)
        depth = 1 if quick else 2
        fams = {n: spell.family(pth, sc.cwd, sc.home, links, depth) for n, pth, _ in files}
        out.extra["spelling_family_sizes"] = {n: len(f) for n, f in fams.items()}
        # the specification function of the C09 theorems against the file system: nf(home, cwd, spelling) is the file, for every
        # generated spelling that does not pass through a symbolic link
        for n, pth, _ in files:
            for x in fams[n]:
                if "symlink" in x.how:
                    continue
                mv = mcall(["nf", sc.home, sc.cwd, str(x)])
                out.case(["nf", spell.unsub(sc, x)])
                if mv != pth:
                    disagree("Paths.nf (the lexical normal form the C09 theorems speak about) <-> os.path.realpath", {"spelling": str(x), "how": x.how}, mv, pth)
        U = lambda x: spell.unsub(sc, x)
        n_spell = 0
        DECS = rc.VERDICTS

        def emit(rule, tpl, ps, qs, same, i, tail=None, mode=None, cwd_=None, extra_=None, remote_=False):
            nonlocal n_spell
            mode = (i // 3) % 4 if mode is None else mode     # 0: plain prefix rule, 1: anchored, 2: trailing ' *', 3: plain + extra word
            case = {"rule": rule, "dec": DECS[i % 3], "exact": mode == 1, "star": mode == 2, "msg": i % 2 == 0, "tpl": tpl,
                    "extra": 1 if (mode == 3 or (i // 12) % 2) and not tail else 0, "p": [U(x) for x in ps], "q": [U(x) for x in qs],
                    "same": same, "tail": tail}
            if cwd_:
                case["cwd"] = U(cwd_)
            if extra_ is not None:
                case["extra"] = extra_
            if remote_:
                case["remote"] = True
            if i % 7 == 3 and rule in ("command", "after"):
                case["sep"] = ("  ", "\t", " \t ")[(i // 7) % 3]
            spell_case(case)
            out.case(case, nontrivial=True)
            n_spell += 1

        cap_all = 30 if quick else 110
        for fi, (name, pth, fkind) in enumerate(files):
            fam = fams[name]
            wfam = [x for x in fam if spell.pathword(x)]
            # all pairs (pattern spelling, command spelling) for a command rule with the path as first argument, and for a redirect rule
            P = spell.capped(wfam, cap_all, fi) if cap_all else wfam
            i = fi
            for pspell in P:
                for qspell in P:
                    emit("command", "arg1", [pspell], [qspell], True, i)
                    i += 1
            R = spell.capped(fam, cap_all, fi + 1) if cap_all else fam
            for pspell in R:
                for qspell in R:
                    emit("redirect", None, [pspell], [qspell], True, i)
                    i += 1
            # every member of the full family on either side, partners rotated: other positions of the pattern, alias, after
            # the undecorated forms (., .., ~, ./x, ../x, x/y, /abs, ~/x, CWD/../x ...): pattern form x command form x position x rule kind
            plain = [x for x in wfam if "+" not in x.how]
            for pspell in plain:
                for qspell in plain:
                    for tpl in spell.POSITIONS:
                        emit("command", tpl, [pspell], [qspell], True, i)
                        emit("after", tpl, [pspell], [qspell], True, i + 1)
                        i += 2
                    emit("alias", "name", [pspell], [qspell], True, i)
                    i += 1
            for tpl in spell.POSITIONS[1:]:
                for pspell, qspell in spell.rotations(wfam, wfam, 2 if tpl in ("name", "arg2", "mid") else 1):
                    emit("command", tpl, [pspell], [qspell], True, i)
                    i += 1
            for pspell, qspell in spell.rotations(wfam, wfam, 2):
                emit("alias", "name", [pspell], [qspell], True, i)
                emit("after", spell.POSITIONS[i % len(spell.POSITIONS)], [pspell], [qspell], True, i + 1)
                i += 2
            for pspell, qspell in spell.rotations(fam, fam, 2):
                emit("redirect", None, [pspell], [qspell], True, i)
                i += 1
            for pspell in wfam:     # the pattern is the command's own text
                emit("command", spell.POSITIONS[i % len(spell.POSITIONS)], [pspell], [pspell], True, i)
                i += 1
        # two path words in one pattern
        for fi, (name, pth, fkind) in enumerate(files):
            name2 = files[(fi + 4) % len(files)][0]
            A = [x for x in fams[name] if spell.pathword(x)]
            B = [x for x in fams[name2] if spell.pathword(x)]
            for k, (pa, qa) in enumerate(spell.rotations(A, A, 1)):
                emit("command", "two", [pa, B[(k * 5) % len(B)]], [qa, B[(k * 3 + 1) % len(B)]], True, k + fi)
        # different files never satisfy a literal rule
        for fi, (n1, p1, _) in enumerate(files):
            for fj, (n2, p2, _) in enumerate(files):
                if fi == fj:
                    continue
                A = spell.capped([x for x in fams[n1] if spell.pathword(x)], 10, fj)
                B = spell.capped([x for x in fams[n2] if spell.pathword(x)], 10, fi)
                for k, (pa, qb) in enumerate(spell.rotations(A, B, 1)):
                    rule = ("command", "redirect", "alias", "after")[k % 4]
                    emit(rule, ("arg1", "name", "mid", "arg2")[(k // 4) % 4] if rule != "alias" else "name", [pa], [qb], False, k + fi + fj)
        # glob characters inside a path token: the directory respelled, the tail a glob
        inside = {"cwd": "topfile", "dir": "file", "homedir": "homefile", "parent": "cwd", "grandparent": "home", "home": "homedir"}
        for dn, fn in inside.items():
            D = fams[dn]
            F = spell.capped(fams[fn], 12, 3)
            for k, dsp in enumerate(D):
                for j in range(2):
                    tail = spell.TAILS[(k + j * 3) % len(spell.TAILS)]
                    qspell = F[(k * 5 + j) % len(F)]
                    emit("redirect", None, [dsp], [qspell], True, k + j, tail=tail, mode=0)
                    if spell.pathword(qspell):
                        emit(("command", "after")[(k + j) % 2], ("arg1", "arg2", "mid")[k % 3], [dsp], [qspell], True, k + j, tail=tail, mode=0)
        # opaque prefixes: a word that starts with an expansion the hook cannot know ($X, ${X}, ~user) or - in argument position - is
        # URL-shaped names no known file, whatever follows it: a rule for a concrete file never fires on it (for every spelling
        # of the rule's file, with the cwd-relative spelling of the file after PREFIX/.. and after PREFIX/y/../..)
        OPAQUE = ["$X", "${X}", "$X/y/..", "~bob", "~bob/y/..", "$HOME"]
        for fi, (name, pth, fkind) in enumerate(files):
            rels = [x for x in fams[name] if x.how in ("rel", "dotrel", "parent")]
            P = spell.capped(fams[name], 12, fi) if rels else []
            for k, pspell in enumerate(P):
                for j, op in enumerate(OPAQUE):
                    rel = rels[(k + j) % len(rels)]
                    emit("redirect", None, [pspell], [op + "/../" + rel], False, k + j, mode=0)
                    if spell.pathword(pspell):
                        emit(("command", "after", "alias")[(k + j) % 3], spell.POSITIONS[(k + j) % len(spell.POSITIONS)], [pspell],
                             [(op if (k + j) % 2 else "x://h") + "/../" + rel], False, k + j)
        # identity: no respelling claimed, but a rule written with exactly the command's own words fires on it - every short token
        # over the characters classification looks at, URL- / variable- / ~user- / option- / assignment-shaped words
        for k, t in enumerate(spell.identity_tokens()):
            for j, tpl in enumerate(spell.POSITIONS):
                if quick and len(t) == 4 and (k + j) % 4:
                    continue
                globby = any(c in t for c in "*?[")      # a glob pattern is matched against the whole command text: no extra word
                emit(("command", "after")[(k + j) % 2], tpl, [t], [t], True, k + j, mode=0 if globby or (k + j) % 4 == 1 else (k + j) % 4,
                     extra_=0 if globby else None)
            emit("alias", "name", [t], [t], True, k)
            # the same in remote mode (docker exec, ssh ...: no cwd normalisation on either side, ~ expanded on both)
            emit("command", spell.POSITIONS[k % len(spell.POSITIONS)], [t], [t], True, k, mode=0 if globby else k % 4, extra_=0 if globby else None, remote_=True)
            if "*" not in t and not (t.endswith("/") and t.strip("/") == ""):
                emit("redirect", None, [t], [t], True, k)
        # ** patterns of redirect rules: the directory respelled; targets below it and next to it, respelled
        outside_of = {"cwd": "outside", "dir": "topfile", "homedir": "home", "parent": "grandparent", "grandparent": "sysfile", "home": "cwd"}
        for dn, fn in inside.items():
            D = fams[dn]
            F = spell.capped(fams[fn], 10, 5)
            O = spell.capped(fams[outside_of[dn]], 10, 7)
            base = os.path.basename(dict((n, pth) for n, pth, _ in files)[fn])
            for k, dsp in enumerate(D):
                tails = ["**", "**/*", "**/" + base]
                emit("redirect", None, [dsp], [F[(k * 3) % len(F)]], True, k, tail=tails[k % 3], mode=0)
                emit("redirect", None, [dsp], [O[(k * 3 + 1) % len(O)]], False, k + 1, tail=tails[(k + 1) % 3], mode=0)
        # other working directories: the root, the home directory, the parent, a directory reached through a symbolic link
        for ci, cwd2 in enumerate(["/", sc.home, os.path.dirname(sc.cwd), sc.root + "/w/links/toout", sc.cwd + "/src"]):
            real_cwd2 = os.path.realpath(cwd2)
            for fi, (name, pth, fkind) in enumerate(files):
                fam2 = spell.family(pth, real_cwd2, sc.home, (), 1)
                if not quick or (fi + ci) % 2 == 0:
                    w2 = [x for x in fam2 if spell.pathword(x)]
                    for k, (pspell, qspell) in enumerate(spell.rotations(w2, w2, 1 if quick else 3)):
                        emit(("command", "after", "alias")[k % 3], ("arg1", "name", "mid", "arg2")[k % 4], [pspell], [qspell], True, k + fi, cwd_=cwd2)
                    for k, (pspell, qspell) in enumerate(spell.rotations(fam2, fam2, 1 if quick else 3)):
                        emit("redirect", None, [pspell], [qspell], True, k + fi, cwd_=cwd2)
        out.extra["spelling_cases"] = n_spell

        n, mism = core.coq_crosscheck("C09", xcheck)
        out.extra["coq_vm_crosscheck"] = {"cases": n, "mismatches": len(mism)}
        if mism:
            out.disagreements.append({"correspondence": "extracted OCaml model <-> vm_compute in Coq", "detail": mism[:5]})
        out.extra["rule"] = (
            f"A: {n_g} (pattern, text) pairs, 80% forced to contain '**', brackets/newlines/escapes biased; B: classification of "
            "fixed + random tokens, norm vs Path.resolve() on symlink-free spellings, _normalize_path/_normalize_redirect_pattern "
            "in 5 cwds (one reached through a symlink, one named proj[1]); C: redirect rule lists of length 0-8 (absolute, "
            "relative, ~, **, bracket patterns, messages) x spelled targets incl. symlinks; D: every canonical target (9 relative, "
            f"3 under HOME, 4 absolute incl. '/') x {out.extra['respellings_per_target']['min']}-{out.extra['respellings_per_target']['max']} "
            "respellings x (each single pattern + random rule lists) for redirect and command rules; confinement: 13 directory spellings "
            "x 29 targets incl. symlink, '..' and '://' escapes; cwd renaming proj1/proj[1]; one-level ground truth; B2: normalisation helpers on "
            f"small alphabets exhaustively; E: {out.extra.get('spelling_cases')} spelling cases (families of {min(out.extra['spelling_family_sizes'].values())}-"
            f"{max(out.extra['spelling_family_sizes'].values())} spellings per file, see the module docstring). distinct = distinct "
            "canonical inputs; non-trivial = pattern with '**' (A), >= 2 rules (C), all of D")
        return out
    finally:
        model.close()
        sc.close()
