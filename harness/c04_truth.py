"""Ground truth for C04/C13: what real tools execute.

* Scratch: a scratch directory with stub executables (every stub appends its argv to a log) and a work
  directory; `run(text, stdin)` executes `text` under real bash with PATH = stubs first and returns
  the list of argument vectors that were really executed.
* FakeDocker: a recording fake Docker daemon on a unix socket; the REAL docker client is run against
  it and the daemon records the container and Cmd of every exec-create request.
"""
from __future__ import annotations

import http.server
import json
import os
import re
import shutil
import socketserver
import subprocess
import tempfile
import threading

STUBS = ["ls", "echo", "git", "rm", "frobnicate", "zap", "cat", "head", "okcmd", "5", "-", "X", "a", "c", "pod", "STOP", "A=1", "B[0]+=x"]

STUB_TEXT = """#!/bin/bash
{ for a in "${0##*/}" "$@"; do printf 'A%s\\0' "$a"; done; printf 'END\\0'; } >> '%LOG%'
exit 0
"""


class Scratch:
    def __init__(self):
        self.root = tempfile.mkdtemp(prefix="dippy-verif-")
        self.bin = os.path.join(self.root, "bin")
        self.work = os.path.join(self.root, "work")
        self.log = os.path.join(self.root, "log")
        os.mkdir(self.bin)
        os.mkdir(self.work)
        for n in STUBS:
            p = os.path.join(self.bin, n)
            with open(p, "w") as f:
                f.write(STUB_TEXT.replace("%LOG%", self.log))
            os.chmod(p, 0o755)
        with open(os.path.join(self.work, "in.txt"), "w") as f:
            f.write("ITEM\n")
        with open(os.path.join(self.work, "script.sh"), "w") as f:
            f.write("rm viascript\n")
        self.env = {"PATH": f"{self.bin}:/usr/bin:/bin", "HOME": self.work, "LC_ALL": "C.UTF-8"}

    def run(self, text: str, stdin: bytes = b"ITEM\n", timeout=20):
        """-> (list of executed argv lists, returncode, stderr head).  None argv list on timeout."""
        try:
            os.remove(self.log)
        except FileNotFoundError:
            pass
        try:
            p = subprocess.run(["bash", "-c", text], input=stdin, capture_output=True, cwd=self.work, env=self.env,
                               timeout=timeout)
        except subprocess.TimeoutExpired:
            return None, -1, "timeout"
        recs, cur = [], []
        try:
            with open(self.log, "rb") as f:
                data = f.read().split(b"\0")
        except FileNotFoundError:
            data = []
        for fld in data:
            if fld == b"END":
                recs.append(cur)
                cur = []
            elif fld.startswith(b"A"):
                cur.append(fld[1:].decode("utf-8", "surrogateescape"))
        return recs, p.returncode, p.stderr.decode(errors="replace").strip()[:160]

    def printf_words(self, command_tail: str, timeout=60):
        """bash -c "printf '%s\\0' <command_tail>" -> the words bash really passed to printf."""
        p = subprocess.run(["bash", "-c", "printf '%s\\0' " + command_tail], capture_output=True, cwd=self.work,
                           env=self.env, timeout=timeout)
        if p.returncode != 0:
            return None, p.stderr.decode(errors="replace")[:200]
        parts = p.stdout.split(b"\0")
        assert parts[-1] == b""
        return [x.decode("utf-8", "surrogateescape") for x in parts[:-1]], ""

    def close(self):
        shutil.rmtree(self.root, ignore_errors=True)


class _H(http.server.BaseHTTPRequestHandler):
    protocol_version = "HTTP/1.1"

    def log_message(self, *a):
        pass

    def _send(self, code, body=b"{}", ctype="application/json"):
        self.send_response(code)
        self.send_header("Api-Version", "1.47")
        self.send_header("Docker-Experimental", "false")
        self.send_header("Ostype", "linux")
        self.send_header("Content-Type", ctype)
        self.send_header("Content-Length", str(len(body)))
        self.end_headers()
        if self.command != "HEAD":
            self.wfile.write(body)

    def do_HEAD(self):
        self._send(200, b"")

    def do_GET(self):
        if "_ping" in self.path:
            return self._send(200, b"OK", "text/plain")
        m = re.search(r"/containers/([^/]+)/json", self.path)
        if m:
            return self._send(200, json.dumps({"Id": m.group(1), "State": {"Running": True, "Status": "running"},
                                               "Config": {}}).encode())
        self._send(200, b"{}")

    def do_POST(self):
        n = int(self.headers.get("Content-Length") or 0)
        body = self.rfile.read(n) if n else b""
        m = re.search(r"/containers/([^/]+)/exec", self.path)
        if m:
            self.server.rec.append({"container": m.group(1), "body": json.loads(body or b"{}")})
            return self._send(201, b'{"Id":"deadbeef"}')
        self._send(500, b'{"message":"fake daemon: exec start refused"}')


class _S(socketserver.ThreadingMixIn, socketserver.UnixStreamServer):
    daemon_threads = True


class FakeDocker:
    """The real docker client talking to a daemon that only records exec-create requests."""

    def __init__(self):
        self.ok = shutil.which("docker") is not None
        self.root = tempfile.mkdtemp(prefix="dippy-verif-")
        self.sock = os.path.join(self.root, "d.sock")
        self.server = None
        if self.ok:
            self.server = _S(self.sock, _H)
            self.server.rec = []
            threading.Thread(target=self.server.serve_forever, daemon=True).start()
        self.env = {"PATH": "/usr/bin:/bin", "DOCKER_HOST": "unix://" + self.sock, "HOME": self.root,
                    "DOCKER_CONFIG": os.path.join(self.root, "cfg")}

    def run(self, text: str, timeout=20):
        """-> list of (container, Cmd) the client asked the daemon to exec; None if docker is unavailable."""
        if not self.ok:
            return None
        self.server.rec.clear()
        try:
            subprocess.run(["bash", "-c", text], capture_output=True, env=self.env, cwd=self.root, timeout=timeout,
                           stdin=subprocess.DEVNULL)
        except subprocess.TimeoutExpired:
            return None
        return [(r["container"], r["body"].get("Cmd")) for r in self.server.rec]

    def close(self):
        if self.server:
            self.server.shutdown()
            self.server.server_close()
        shutil.rmtree(self.root, ignore_errors=True)
