"""C14 - MCP and shell rules never interact: MCP tool calls are decided solely by the *-mcp rules (no
match => {}), shell commands solely by the command / redirect rules.

Implementation-level oracle (model-free, metamorphic), on real subprocess runs of bin/dippy-hook:
  * an MCP call's answer is unchanged when the rules of the shell family (allow / ask / deny /
    *-redirect / alias / after) are replaced, and when analyze / tokenize / match_after are made to raise;
  * a shell call's answer is unchanged when the *-mcp / after-mcp rules are replaced, and when
    match_mcp / match_after_mcp are made to raise;
  * an MCP call that no *-mcp rule matches is answered {}; a tool that is neither is answered {};
  * config text: lines of one family (as classified by the real parse_config, one line at a time) are
    deleted, permuted among themselves and inserted at random positions of a mixed configuration
    (comments, blank, rejected and `set` lines stay put): every answer of the real hook to the calls of
    the OTHER family (mcp__* names resp. Bash / Gemini / Cursor commands) is unchanged, and so is the
    other family's part of parse_config's result (in-process, many more edits).
Correspondence: Model/Hook.v main == the real process on the same runs; ConfigText.mcp_view /
shell_view of the model's parse == the same part of the real parse_config, before and after each edit."""
from __future__ import annotations

import random

from . import cfgtext, core, lib
from . import hookgen as g
from . import hooklib as H

TRUSTED = [
    "Coq 8.16.1 kernel and its VM",
    "axioms: none (every theorem of Props/C14.v prints 'Closed under the global context')",
    "tools/gen_tables.py (SHELL_TOOL_NAMES regenerated from dippy.py on every run)",
    "extraction: ExtrOcamlBasic only; OCaml 4.13.1; ocaml/driver.ml",
    "three models, three theorem groups: Model/ConfigText.v (parse; trusted base of C11: Path.expanduser is an oracle), Model/Rules.v "
    "(match_mcp; fnmatch modelled in Model/Fnmatch.v, see C07), Model/Hook.v (routing; see C06). The groups are tied together by the "
    "harness, not by a theorem: the hook model takes the parsed lists from its load_config oracle",
    "modelled, not verified: that analyze() reads only the shell part of the configuration and match_mcp only mcp_rules is how the "
    "model passes the configuration to its oracles; the harness checks it on the real code by replacing the other family's rules",
]

SHELL_RULES = ['allow okcmd', 'deny zap "NOZAP"', 'ask git push "careful"', 'allow *', 'deny *', 'ask * "all"', 'allow-redirect /tmp/*',
               'deny-redirect * "nope"', 'alias g git', 'after git "fb"', 'allow mcp__ok__x', 'deny mcp__*', 'allow Bash']
MCP_RULES = ['allow-mcp mcp__ok__*', 'deny-mcp mcp__ok__bad "no"', 'ask-mcp mcp__q__* "sure?"', 'allow-mcp *', 'deny-mcp *', 'ask-mcp *',
             'after-mcp * "fb"', 'deny-mcp ls', 'deny-mcp Bash', 'allow-mcp rm*', 'deny-mcp git*']
MCP_NAMES = ["mcp__ok__x", "mcp__ok__bad", "mcp__q__y", "mcp__none", "mcp__"]
COMMANDS = ["ls", "rm x", "git push", "zap it", "okcmd", "frobnicate a", "cat f > /tmp/x", "git status", "echo $("]
OTHER_TOOLS = ["Read", "Write", "Edit", "Task", "WebFetch", "bash", ""]


def cfg(lines):
    return "".join(l + "\n" for l in lines)


def routing_cases(sc, tier, rng):
    """-> list of (kind, base case, [variant cases that must answer the same])"""
    wd = sc.proj(None)
    n_var = 3 if tier == "quick" else 12
    groups = []
    mcp_sets = [[], MCP_RULES[:3], ['deny-mcp *'], ['allow-mcp *']] + [rng.sample(MCP_RULES, rng.randrange(1, 5)) for _ in range(2 if tier == "quick" else 10)]
    shell_sets = [[], SHELL_RULES[:3], ['deny *'], ['allow *']] + [rng.sample(SHELL_RULES, rng.randrange(1, 6)) for _ in range(2 if tier == "quick" else 10)]
    for ev in ("PreToolUse", "PostToolUse"):
        for mrules in mcp_sets:
            for tn in MCP_NAMES:
                flags = rng.choice([(), ("--claude",), ("--gemini",)])
                d = {"tool_name": tn, "tool_input": {"command": "ls"}, "cwd": wd, "hook_event_name": ev}
                base = H.Case(g.dumps(d), label=f"mcp:{ev}", flags=flags, user_cfg=cfg(mrules))
                vs = []
                for _ in range(n_var):
                    srules = rng.choice(shell_sets[1:])
                    lines = list(mrules)
                    for r in srules:
                        lines.insert(rng.randrange(len(lines) + 1), r)
                    vs.append(H.Case(base.data, label="mcp:+shell-rules", flags=flags, user_cfg=cfg(lines)))
                if ev == "PreToolUse":
                    vs.append(H.Case(base.data, label="mcp:analyze-raises", flags=flags, user_cfg=cfg(mrules), fault=("analyze", "RuntimeError")))
                else:
                    vs.append(H.Case(base.data, label="mcp:match_after-raises", flags=flags, user_cfg=cfg(mrules), fault=("match_after", "RuntimeError")))
                    vs.append(H.Case(base.data, label="mcp:tokenize-raises", flags=flags, user_cfg=cfg(mrules), fault=("tokenize", "RuntimeError")))
                groups.append(("mcp", base, vs, mrules))
        for srules in shell_sets:
            for cmd in (COMMANDS if tier == "thorough" else rng.sample(COMMANDS, 4)):
                shape = rng.choice(g.SHAPES)
                base = H.Case(g.dumps(g.base_input(shape, cmd, wd, hook_event_name=ev)), label=f"shell:{ev}", user_cfg=cfg(srules))
                vs = []
                for _ in range(n_var):
                    mrules = rng.choice(mcp_sets[1:])
                    lines = list(srules)
                    for r in mrules:
                        lines.insert(rng.randrange(len(lines) + 1), r)
                    vs.append(H.Case(base.data, label="shell:+mcp-rules", user_cfg=cfg(lines)))
                vs.append(H.Case(base.data, label="shell:match_mcp-raises", user_cfg=cfg(srules), fault=("match_mcp", "RuntimeError")))
                vs.append(H.Case(base.data, label="shell:match_after_mcp-raises", user_cfg=cfg(srules), fault=("match_after_mcp", "RuntimeError")))
                groups.append(("shell", base, vs, srules))
        for tn in OTHER_TOOLS:
            base = H.Case(g.dumps({"tool_name": tn, "tool_input": {"command": "rm -rf /"}, "hook_event_name": ev}), label=f"other:{ev}", user_cfg="")
            vs = [H.Case(base.data, label="other:+rules", user_cfg=cfg(rng.sample(SHELL_RULES, 3) + rng.sample(MCP_RULES, 3))) for _ in range(n_var)]
            groups.append(("other", base, vs, []))
    return groups


def check_routing(sc, out, groups):
    import fnmatch

    for kind, base, vs, rules in groups:
        a = H.parse_stdout(base.out)
        out.case(base.key(), nontrivial=True)
        out.count("kind", base.label)
        ok = base.rc == 0 and not H.has_traceback(base)
        for v in vs:
            out.case(v.key(), nontrivial=True)
            out.count("variant", v.label)
            b = H.parse_stdout(v.out)
            if a != b or v.rc != base.rc or not ok:
                out.violations.append({"kind": "routing", "what": f"{kind} call answered {a}, but {b} after changing only the other family ({v.label})",
                                       **H.describe(v, sc), "base": H.describe(base, sc), "signature_text": f"routing-{kind} | {v.label}"})
        is_pre = b'"PreToolUse"' in base.data
        if kind == "other" and a != [("J", {})]:
            out.violations.append({"kind": "routing", "what": f"a tool that is neither shell nor MCP was answered {a}", **H.describe(base, sc),
                                   "signature_text": "routing-other | not-empty"})
        if kind == "mcp" and is_pre:
            import json
            tn = json.loads(base.data)["tool_name"]
            hits = [r for r in rules if r.split()[0] in ("allow-mcp", "ask-mcp", "deny-mcp") and fnmatch.fnmatch(tn, r.split()[1])]
            out.count("mcp_match", "some" if hits else "none")
            if not hits and a != [("J", {})]:
                out.violations.append({"kind": "routing", "what": f"no *-mcp rule matches {tn} but the answer is {a}", **H.describe(base, sc),
                                       "signature_text": "routing-mcp | no-match-not-empty"})
            if hits:
                want = hits[-1].split()[0].split("-")[0]
                d = H.any_decision(a[0][1]) if a and a[0][0] == "J" else None
                if d is None or d[1] != want:
                    out.violations.append({"kind": "routing", "what": f"last matching rule {hits[-1]!r} but the answer is {a}", **H.describe(base, sc),
                                           "signature_text": "routing-mcp | not-last"})


# ---------------------------------------------------------------- config-text edits (parse half, through the real hook)
EXTRA_LINES = ["# a comment", "", "   ", "bogus directive", "allow", "deny-mcp", "set log_full", "set default allow", "set nonsense 1",
               'ask-mcp mcp__ok__x "q\\"uoted"', "ALLOW-MCP mcp__up__*", "Deny zap", "allow-redirect", "alias onlyone", "after", "after-mcp"]
MCP_PROBES = ["mcp__ok__x", "mcp__ok__bad", "mcp__q__y", "mcp__none", "mcp__up__z"]
SHELL_PROBES = [("claude", "ls"), ("gemini", "rm x"), ("cursor", "git push"), ("claude", "zap it"), ("cursor", "okcmd"),
                ("gemini", "cat f > /tmp/x"), ("claude", "g status"), ("cursor", "frobnicate a")]


def rand_line(rng, fam):
    """A fresh line of one family: from the pools, or written by cfgtext's reference writer."""
    pool = MCP_RULES if fam == "mcp" else SHELL_RULES
    if rng.random() < 0.6:
        return rng.choice(pool)
    if fam == "mcp":
        d = rng.choice(["allow-mcp", "ask-mcp", "deny-mcp", "after-mcp"])
        pat = rng.choice(["mcp__*", "mcp__ok__*", "mcp__?__y", "*", "mcp__[a-o]*", "mcp__none"])
    else:
        d = rng.choice(["allow", "ask", "deny", "allow-redirect", "deny-redirect", "after"])
        pat = rng.choice(["ls", "rm *", "git *", "zap", "okcmd", "/tmp/*", "*", "frobnicate a", "mcp__*", "g"])
    msg = rng.choice([None, "m", "two words"]) if cfgtext.RULE_DIRECTIVES[d][2] else None
    return cfgtext.write_rule(d, pat, False, msg)


def edit_family(rng, lines, fams, fam):
    """Delete / permute / insert lines of one family; all other lines keep their relative order."""
    idx = [i for i, f in enumerate(fams) if f == fam]
    kind = rng.choice(["delete", "permute", "insert", "all"])
    out = list(lines)
    if kind in ("permute", "all") and len(idx) > 1:
        perm = idx[:]
        rng.shuffle(perm)
        for i, j in zip(idx, perm):
            out[i] = lines[j]
    if kind in ("delete", "all") and idx:
        drop = set(rng.sample(idx, rng.randrange(1, len(idx) + 1)))
        out = [l for i, l in enumerate(out) if i not in drop]
    if kind in ("insert", "all"):
        for _ in range(rng.randrange(1, 4)):
            out.insert(rng.randrange(len(out) + 1), rand_line(rng, fam))
    return kind, out


def text_cases(sc, tier, rng):
    """-> list of (edited family, base text, edited text, kind, [base probe cases], [edited probe cases])"""
    from dippy.core.config import parse_config

    wd = sc.proj(None)
    groups = []
    for _ in range(5 if tier == "quick" else 40):
        lines = [rand_line(rng, "mcp") for _ in range(rng.randrange(1, 5))] + [rand_line(rng, "shell") for _ in range(rng.randrange(1, 6))] \
            + rng.sample(EXTRA_LINES, rng.randrange(0, 5))
        rng.shuffle(lines)
        for fam in ("mcp", "shell"):
            for _ in range(2 if tier == "quick" else 4):
                with cfgtext.home_env(sc.home(None)):
                    fams = [cfgtext.line_family(parse_config, l) for l in lines]
                kind, edited = edit_family(rng, lines, fams, fam)
                base_text, new_text = cfg(lines), cfg(edited)

                def probes(text):
                    if fam == "shell":   # shell lines edited -> MCP answers must not move
                        return [H.Case(g.dumps({"tool_name": tn, "tool_input": {}, "cwd": wd, "hook_event_name": ev}), label=f"text:{fam}-edit:mcp-probe", user_cfg=text)
                                for tn in MCP_PROBES for ev in ("PreToolUse", "PostToolUse")]
                    return [H.Case(g.dumps(g.base_input(shape, cmd, wd, hook_event_name=ev)), label=f"text:{fam}-edit:shell-probe", user_cfg=text)
                            for shape, cmd in SHELL_PROBES for ev in ("PreToolUse", "PostToolUse")]
                groups.append((fam, base_text, new_text, kind, probes(base_text), probes(new_text)))
    return groups


def check_text(sc, out, groups):
    for fam, base_text, new_text, kind, a, b in groups:
        out.count("text_edit", f"{fam}:{kind}")
        for x, y in zip(a, b):
            out.case(y.key(), nontrivial=True)
            if H.parse_stdout(x.out) != H.parse_stdout(y.out) or x.rc != y.rc or y.rc != 0:
                out.violations.append({"kind": "routing", "what": f"editing only {fam} lines ({kind}) changed the answer to a call of the other family: "
                                       f"{H.parse_stdout(x.out)} -> {H.parse_stdout(y.out)}", **H.describe(y, sc), "base": H.describe(x, sc),
                                       "config_before": base_text, "config_after": new_text, "signature_text": f"text-{fam}-edit | {kind}"})


def parse_views(sc, out, tier, rng, model):
    """In-process: the other family's part of parse_config(text) is unchanged by edits of one family;
    the model's parse gives the same family views (ties C14_parse_split_* to config.py)."""
    from dippy.core.config import parse_config

    home = sc.home(None)
    n = 150 if tier == "quick" else 3000
    with cfgtext.home_env(home) as h:
        for i in range(n):
            lines = [rand_line(rng, rng.choice(["mcp", "shell"])) for _ in range(rng.randrange(1, 9))] + rng.sample(EXTRA_LINES, rng.randrange(0, 4))
            rng.shuffle(lines)
            fams = [cfgtext.line_family(parse_config, l) for l in lines]
            fam = rng.choice(["mcp", "shell"])
            other = "shell" if fam == "mcp" else "mcp"
            kind, edited = edit_family(rng, lines, fams, fam)
            v1, e1 = cfgtext.impl_parse(parse_config, cfg(lines))
            v2, e2 = cfgtext.impl_parse(parse_config, cfg(edited))
            out.case(["parse", cfg(lines), cfg(edited)], nontrivial=True)
            out.count("parse_edit", f"{fam}:{kind}")
            if e1 or e2 or cfgtext.family_view(v1, other) != cfgtext.family_view(v2, other):
                out.violations.append({"kind": "parse", "what": f"editing only {fam} lines ({kind}) changed the {other} part of parse_config's result",
                                       "config_before": cfg(lines), "config_after": cfg(edited), "signature_text": f"parse-{fam}-edit | {kind}"})
            if i % (5 if tier == "quick" else 20) == 0:
                for text, v in ((cfg(lines), v1), (cfg(edited), v2)):
                    for f in ("mcp", "shell"):
                        mv = cfgtext.model_family_view(model, h, text, f)
                        if v is not None and mv != cfgtext.family_view(v, f):
                            out.disagreements.append({"correspondence": f"ConfigText.{f}_view <-> parse_config", "config": text,
                                                      "model": str(mv)[:300], "impl": str(cfgtext.family_view(v, f))[:300]})
                out.count("parse_model", "compared")


# ---------------------------------------------------------------- in-process: parse + merge + match, both directions, name families
# every literal the two families share or could confuse: an MCP name used as a shell pattern and the other way round, the same
# pattern text in both families ("the same value twice"), names with a prefix / suffix character, case changes, glob forms
F_TOOLS = ["mcp__ok__x", "mcp__ok__bad", "mcp__q__y", "mcp__none", "mcp__", "mcp__ok__x ", "Mcp__ok__x", "mcp__ok__xx", "xmcp__ok__x", "ls", "Bash",
           "rm -rf /", "git push", "*", "mcp__ok__x\n", "zap", "mcp__a/b", "mcp__ok__*"]
F_CMDS = ["ls", "rm x", "git push", "zap it", "okcmd", "frobnicate a", "cat f > /tmp/x", "mcp__ok__x", "mcp__ok__x a", "Bash", "echo hi > mcp__ok__x", "g status"]
# (the last ones are patterns some matcher cannot compile: a rule nobody can match is inert, it must not take the file down)
F_PATS = ["/tmp/**/[z-a]*.log", "**/[z-a]", "x[", "[!", "**/[a", "[]", "a**b/[9-0]", "*", "mcp__*", "mcp__ok__*", "mcp__ok__x", "mcp__ok__bad", "mcp__?__y", "mcp__[a-o]*", "ls", "rm *", "git *", "zap", "okcmd", "Bash", "g", "/tmp/*",
          "mcp__ok__x *", "nomatch", "mcp__ok__x|"]


def family_line(rng, fam):
    pat = rng.choice(F_PATS)
    if fam == "mcp":
        d = rng.choice(["allow-mcp", "ask-mcp", "deny-mcp", "after-mcp"])
    else:
        d = rng.choice(["allow", "ask", "deny", "allow-redirect", "ask-redirect", "deny-redirect", "after", "alias"])
        if d == "alias":
            return "alias " + rng.choice(["g git", "mcp__ok__x ls", "ls zap", "zap mcp__ok__x"])
    msg = "" if d.startswith("allow") or rng.random() < 0.5 else ' "m%d"' % rng.randint(0, 9)
    return f"{d} {pat}{msg}"


def family_streams(sc, out, tier, rng, replay_case=None):
    """Three layers of mixed configuration text are parsed and merged by the real code (parse_config, _tag_rules, _merge_configs in
    the order load_config uses: user, project, env).  Deleting every line of one family from every layer, permuting them, or
    doubling them must not change any answer of the other family's matchers (match_mcp / match_after_mcp resp. analyze /
    match_redirect / match_after); and match_mcp's answer is the last *-mcp line (in layer order) whose glob matches, by fnmatch."""
    import fnmatch
    import warnings
    from pathlib import Path

    from dippy.core import analyzer as an
    from dippy.core import config as C

    warnings.simplefilter("ignore")
    cwd = Path(sc.proj(None))

    def load(layers):
        cfg = C.Config()
        for scope, text in zip(("user", "project", "env"), layers):
            cfg = C._merge_configs(cfg, C._tag_rules(C.parse_config(text, source=scope), scope, scope))
        return cfg

    def mcp_answers(cfg):
        res = []
        for t in F_TOOLS:
            m = C.match_mcp(t, cfg)
            res.append((t, None if m is None else (m.decision, m.pattern, m.message, m.scope), C.match_after_mcp(t, cfg)))
        return res

    def shell_answers(cfg):
        res = []
        for c in F_CMDS:
            d = an.analyze(c, cfg, cwd)
            res.append((c, d.action, d.reason, C.match_after(c.split(), cfg, cwd)))
        return res

    def one(case):
        layers = case["layers"]
        fam = case["edit_family"]
        with cfgtext.home_env(sc.home(None)):
            fams = [[cfgtext.line_family(C.parse_config, l) for l in layer] for layer in layers]
            edited = []
            for layer, fs in zip(layers, fams):
                mine = [l for l, f in zip(layer, fs) if f == fam]
                if case["edit"] == "delete":
                    new = [l for l, f in zip(layer, fs) if f != fam]
                elif case["edit"] == "reverse":
                    it = iter(reversed(mine))
                    new = [next(it) if f == fam else l for l, f in zip(layer, fs)]
                elif case["edit"] == "double":
                    new = [x for l, f in zip(layer, fs) for x in ([l, l] if f == fam else [l])]
                else:  # move: the family's lines of this layer go to the front of the layer
                    new = mine + [l for l, f in zip(layer, fs) if f != fam]
                edited.append(new)
            try:
                a, b = load([cfg(l) for l in layers]), load([cfg(l) for l in edited])
            except Exception as e:  # a line that cannot be loaded takes every rule of BOTH families with it
                out.violations.append({"kind": "family", "case": case, "what": f"loading the configuration raised {type(e).__name__}: {e} - the rules of the other family are lost with it",
                                       "signature_text": f"family-load | {type(e).__name__}"})
                return
            other = "shell" if fam == "mcp" else "mcp"
            ra, rb = (shell_answers(a), shell_answers(b)) if other == "shell" else (mcp_answers(a), mcp_answers(b))
            out.count("family_stream", f"{fam}:{case['edit']}")
            for x, y in zip(ra, rb):
                if x != y:
                    out.violations.append({"kind": "family", "case": case, "what": f"{case['edit']} of the {fam} lines changed the {other} answer for {x[0]!r}: {x[1:]} -> {y[1:]}",
                                           "signature_text": f"family-{fam}-edit | {case['edit']}"})
                    break
            # ground truth for match_mcp: the last *-mcp line, in layer order, whose glob matches
            # (the family of a line is read off its directive WORD here, not asked of the parser: a parser that files a
            # shell directive under the MCP lists must not be believed)
            def textual(l):
                w = l.split(None, 1)[0].lower() if l.split() else ""
                return "mcp" if w in ("allow-mcp", "ask-mcp", "deny-mcp", "after-mcp") else "shell" if w in (
                    "allow", "ask", "deny", "allow-redirect", "ask-redirect", "deny-redirect", "after", "alias") else None
            for layer, fs in zip(layers, fams):
                for l, f in zip(layer, fs):
                    if f in ("mcp", "shell") and textual(l) != f:
                        out.violations.append({"kind": "family", "case": case, "what": f"the line {l!r} is a {textual(l)} directive but parse_config files it under the {f} lists",
                                               "signature_text": "family-parse | wrong-list"})
                        return
            lines = [(l.split(None, 1)[0].lower(), l) for layer, fs in zip(layers, fams) for l, f in zip(layer, fs) if f == "mcp" and textual(l) == "mcp"]
            for t, got, _ in mcp_answers(a):
                hits = [d for d, l in lines if d != "after-mcp" and fnmatch.fnmatch(t, C.parse_config(l).mcp_rules[0].pattern)]
                want = hits[-1].split("-")[0] if hits else None
                if (got[0] if got else None) != want:
                    out.violations.append({"kind": "family", "case": case, "what": f"match_mcp({t!r}) answers {got}, the last matching *-mcp line says {want}",
                                           "signature_text": "family-mcp | not-last"})
                    break

    if replay_case is not None:
        one(replay_case)
        out.case(replay_case)
        return
    n = 250 if tier == "quick" else 4000
    for i in range(n):
        layers = [[family_line(rng, rng.choice(["mcp", "shell"])) for _ in range(rng.randrange(0, 6))] + rng.sample(EXTRA_LINES, rng.randrange(0, 3)) for _ in range(3)]
        for l in layers:
            rng.shuffle(l)
        if i % 5 == 0:   # the same pattern text in both families, in one layer and across layers
            ptn = rng.choice(F_PATS)
            layers[rng.randrange(3)].append(f"{rng.choice(['allow', 'deny', 'ask'])} {ptn}")
            layers[rng.randrange(3)].append(f"{rng.choice(['allow-mcp', 'deny-mcp', 'ask-mcp'])} {ptn}")
        case = {"layers": layers, "edit_family": ("mcp", "shell")[i % 2], "edit": ("delete", "reverse", "double", "move")[(i // 2) % 4]}
        one(case)
        out.case(["family", case], nontrivial=True)


def run(tier, seed, replay=None):
    lib.use_repo()
    rng = random.Random(seed)
    out = core.Outcome("C14")
    sc = H.Scratch()
    hm = None
    try:
        if replay and replay.get("kind") == "family":
            family_streams(sc, out, tier, rng, replay_case=replay["case"])
            out.extra["rule"] = "replay of one family edit"
            return out
        if not replay:
            family_streams(sc, out, tier, rng)
        if replay and replay.get("kind") == "parse":
            from dippy.core.config import parse_config
            fam = replay["signature_text"].split("-")[1]
            other = "shell" if fam == "mcp" else "mcp"
            with cfgtext.home_env(sc.home(None)):
                v1, e1 = cfgtext.impl_parse(parse_config, replay["config_before"])
                v2, e2 = cfgtext.impl_parse(parse_config, replay["config_after"])
            out.case(["parse", replay["config_before"], replay["config_after"]])
            if e1 or e2 or cfgtext.family_view(v1, other) != cfgtext.family_view(v2, other):
                out.violations.append({k: replay[k] for k in ("kind", "what", "config_before", "config_after", "signature_text")})
            out.extra["rule"] = "replay of one parse edit"
            return out
        if replay:
            kind = replay["signature_text"].split("|")[0].strip().replace("routing-", "")
            v = H.replay_case(sc, replay)
            if "base" in replay:
                base = H.replay_case(sc, replay["base"])
                groups = [(kind, base, [v], [l for l in (base.user_cfg or "").split("\n") if l])]
            else:
                groups = [(kind, v, [], [l for l in (v.user_cfg or "").split("\n") if l])]
            tgroups = []
        else:
            groups = routing_cases(sc, tier, rng)
            tgroups = text_cases(sc, tier, rng)
        allc = [c for _, b, vs, _ in groups for c in [b] + vs]
        tcases = [c for gr in tgroups for c in gr[4] + gr[5]]
        H.run_cases(sc, allc + tcases)
        check_routing(sc, out, groups)
        check_text(sc, out, tgroups)
        for i, c in enumerate(allc):
            if i % 211 == 0:
                out.sample({"label": c.label, "stdin": c.data[:150].decode(), "config": c.user_cfg, "fault": c.fault, "stdout": c.out[:150].decode("utf-8", "replace")})
        hm = H.HookModel(sc)
        if not replay:
            parse_views(sc, out, tier, rng, hm.model)
        step = 1 if tier == "thorough" else 3
        for c in allc[::step]:
            if c.fault and c.fault[0] in ("match_mcp", "match_after_mcp"):
                continue
            try:
                mi, rc, tb = hm.main(c)
            except lib.ModelError as e:
                out.disagreements.append({"correspondence": "Hook.main <-> bin/dippy-hook", "model": f"error {e}", **H.describe(c, sc)})
                hm.restart()
                continue
            out.count("correspondence", "compared")
            if not H.same_items(mi, H.parse_stdout(c.out)) or rc != c.rc:
                out.disagreements.append({"correspondence": "Hook.main <-> bin/dippy-hook", "model": str(H.canon_items(mi)),
                                          "impl": str(H.canon_items(H.parse_stdout(c.out))), **H.describe(c, sc)})
    finally:
        if hm:
            hm.close()
        sc.close()
    out.extra["rule"] = (
        "real subprocess runs, metamorphic: MCP calls (5 names x hand-written and random *-mcp rule lists x PreToolUse / PostToolUse x "
        "flags) re-run with random rules of the shell family inserted at random positions and with analyze / tokenize / match_after "
        "raising; shell calls (9 commands x rule lists x 3 shapes) re-run with *-mcp rules inserted and with match_mcp / match_after_mcp "
        "raising; 7 other tool names with random rules of both families; config-text edits (delete / permute / insert lines of one family "
        "in mixed configurations with comments, blank, rejected and set lines; families measured with the real parse_config) probed with "
        "5 MCP names resp. 8 commands in the three shapes, Pre- and PostToolUse, plus in-process parse_config views; in-process family stream: three layers "
        "of mixed text parsed and merged by the real code, one family deleted / reversed / doubled / moved, 18 tool names (incl. shell-looking, "
        "prefixed / suffixed / case-changed) and 12 commands (incl. MCP-looking) answered by match_mcp / match_after_mcp resp. analyze / match_after, "
        "the same pattern text in both families; match_mcp against the last matching *-mcp line by fnmatch. distinct = distinct (stdin, config, fault); every case is a "
        "member of a comparison")
    return out
