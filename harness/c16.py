"""C16 - SQL classified read-only really is read-only.

Implementation-level oracle (model-free, GROUND TRUTH): every SQL text that dippy.core.sql.is_readonly_sql
classifies read-only for SQLite, and every sqlite3 command line that dippy.cli.sqlite3.classify allows, is
EXECUTED - with Python's sqlite3 module (executescript per argument, as the shell does) and, when a
sqlite3 binary is on PATH, with the real shell - against a scratch database with an ATTACHed second file;
the bytes of both database files and the file list of the scratch directory are compared before/after.
Any change is a violation.  A second, metamorphic oracle: a command line is allowed only if each of its SQL
arguments alone is allowed.

Correspondence: Model/Sql.v == _strip_quoted, _has_multiple_statements, is_readonly_sql (generic, sqlite3,
duckdb, psql, mysql, athena keyword sets) and == dippy.cli.sqlite3.classify on the same inputs; the
reference tokenizer Model/SqlSpec.v is compared with the statements SQLite itself reports (trace callback).
"""
from __future__ import annotations

import hashlib
import os
import random
import re
import shutil
import sqlite3
import subprocess
import tempfile

from . import core, lib
from . import sqlgen as g

TRUSTED = [
    "Coq 8.16.1 kernel and its VM",
    "axioms: none (every theorem of Props/C16.v prints 'Closed under the global context')",
    "tools/gen_tables.py + tools/tables/t16_sql.py (keyword sets, option tuples, the literal text of the three regular expressions, re \\s / \\w / str.upper tables of this interpreter)",
    "the hand transcription of _QUOTED_PATTERN into Model/Sql.v (leftmost match, ordered alternatives, backtracking of the doubled-quote group): checked on every run by comparing strip_quoted with _strip_quoted on the whole stream",
    "Model/SqlSpec.v as a description of sqlite3GetToken (tokenize.c): written from the C source, compared on every run with the statement boundaries SQLite reports; blob literals and NUL are not modelled, individually illegal characters are over-approximated as live",
    "trusted semantic step: an SQLite statement whose leading keyword is SELECT / EXPLAIN / WITH..SELECT and that calls none of writefile/edit/load_extension does not modify the database or other files (validated by execution with the engine and the real shell)",
    "the hand transcription of the three guard patterns of cli/sqlite3.py (_TCL_VARIABLE, _SHELL_FUNCTION, _VACUUM; re.IGNORECASE through a generated per-letter table, \\b through re \\w): their literal text is pinned by the plugin and the searches are compared on the whole stream",
    "ground truth: Python's sqlite3 module (SQLite " + sqlite3.sqlite_version + ") and, if present, the sqlite3 shell on PATH",
    "extraction: ExtrOcamlBasic only; OCaml 4.13.1; ocaml/driver.ml; cross-checked in Coq by vm_compute on a sample",
]

DIALECTS = ["generic", "sqlite3", "duckdb", "psql", "mysql", "athena"]
VAR_TOKEN = re.compile(r"[$@:#](?:[A-Za-z0-9_$\x80-\U0010ffff]|::)*\(")
SHELL_FUNCTION = re.compile(r"\b(?:writefile|edit|load_extension)\s*\(", re.I)

SETUP_MAIN = """
CREATE TABLE t(a INTEGER PRIMARY KEY, b TEXT);
INSERT INTO t VALUES (1, 'one'), (2, 'two'), (3, 'it''s');
CREATE TABLE u(x, y);
INSERT INTO u VALUES (1, 'p'), (2, 'q');
CREATE INDEX iu ON u(x);
CREATE VIEW w AS SELECT a FROM t;
"""
SETUP_AUX = """
CREATE TABLE v(k, s);
INSERT INTO v VALUES (1, 'aux-one'), (2, 'aux-two');
"""


class Scratch:
    """A directory with main.db and aux.db restored from a template whenever an execution changed them."""

    def __init__(self):
        self.root = tempfile.mkdtemp(prefix="dippy-verif-")
        self.tmpl = os.path.join(self.root, "template")
        self.work = os.path.join(self.root, "work")
        os.makedirs(self.tmpl)
        for name, script in (("main.db", SETUP_MAIN), ("aux.db", SETUP_AUX)):
            c = sqlite3.connect(os.path.join(self.tmpl, name))
            c.executescript(script)
            c.commit()
            c.close()
        with open(os.path.join(self.tmpl, "init.sql"), "w") as f:
            f.write("DELETE FROM u;\n")
        self.reset()
        self.base = self.snapshot()

    def reset(self):
        shutil.rmtree(self.work, ignore_errors=True)
        shutil.copytree(self.tmpl, self.work)

    def snapshot(self):
        out = {}
        for dirpath, dirs, files in os.walk(self.work):
            for d in dirs:
                out[os.path.relpath(os.path.join(dirpath, d), self.work) + "/"] = "dir"
            for f in files:
                p = os.path.join(dirpath, f)
                with open(p, "rb") as fh:
                    out[os.path.relpath(p, self.work)] = hashlib.sha1(fh.read()).hexdigest()
        return out

    def logical(self):
        """contents + schema + header fields of both databases (for the report)."""
        out = {}
        for name in ("main.db", "aux.db"):
            p = os.path.join(self.work, name)
            if not os.path.exists(p):
                out[name] = "missing"
                continue
            try:
                c = sqlite3.connect(p)
                out[name] = {"dump": list(c.iterdump()),
                             "schema": c.execute("SELECT type, name, tbl_name, sql FROM sqlite_master ORDER BY name").fetchall(),
                             "user_version": c.execute("PRAGMA user_version").fetchone()[0]}
                c.close()
            except sqlite3.Error as e:
                out[name] = f"unreadable: {e}"
        return out

    def diff(self):
        """None when nothing changed, else a description; restores the scratch state."""
        now = self.snapshot()
        if now == self.base:
            return None
        changed = sorted(k for k in set(now) | set(self.base) if now.get(k) != self.base.get(k))
        before = self._base_logical()
        after = self.logical()
        what = []
        for name in ("main.db", "aux.db"):
            if before.get(name) != after.get(name):
                what.append(f"{name}: contents/schema differ")
        desc = {"files_changed": changed, "logical": what or ["database bytes changed"]}
        self.reset()
        return desc

    def _base_logical(self):
        if not hasattr(self, "_bl"):
            keep = self.work
            self.work = self.tmpl
            self._bl = self.logical()
            self.work = keep
        return self._bl

    def run_python(self, args, trace=None):
        """What `sqlite3 main.db ARG...` does with the SQL arguments, with aux.db attached beforehand."""
        cwd = os.getcwd()
        os.chdir(self.work)
        errors = []
        try:
            conn = sqlite3.connect("main.db", isolation_level=None)
            conn.execute("ATTACH DATABASE 'aux.db' AS aux")
            ticks = [0]

            def progress():
                ticks[0] += 1
                return 1 if ticks[0] > 200 else 0

            conn.set_progress_handler(progress, 100000)
            if trace is not None:
                conn.set_trace_callback(trace)
            for a in args:
                try:
                    conn.executescript(a)
                except (sqlite3.Error, sqlite3.Warning, ValueError, UnicodeEncodeError) as e:
                    errors.append(type(e).__name__)
            conn.set_trace_callback(None)
            conn.close()
        finally:
            os.chdir(cwd)
        return errors

    def run_cli(self, exe, tokens):
        try:
            p = subprocess.run([exe] + tokens[1:], cwd=self.work, stdin=subprocess.DEVNULL, capture_output=True,
                               timeout=10, env={"PATH": os.environ.get("PATH", ""), "HOME": self.work})
            return p.returncode
        except (subprocess.TimeoutExpired, OSError, ValueError) as e:
            return f"error {type(e).__name__}"

    def close(self):
        shutil.rmtree(self.root, ignore_errors=True)


def signature(tokens_or_sql, kind):
    """A stable cause label + the input (used to match known findings)."""
    if kind == "sql":
        sql = tokens_or_sql
        if VAR_TOKEN.search(sql):
            return "sqlite-variable-token: " + sql
        return "sql: " + sql
    tokens = tokens_or_sql
    line = " ".join(tokens)
    # which flags does the real shell see in option position?  (an option that takes an argument swallows the next token)
    one_arg = ("-cmd", "-separator", "-nullvalue", "-newline", "-vfs", "-init", "-maxsize", "-pagecache", "-key", "-hexkey", "-textkey", "-nonce", "-escape")
    opts, i = set(), 1
    while i < len(tokens):
        t = tokens[i]
        if t in one_arg:
            i += 2
            continue
        if t == "-lookaside":
            i += 3
            continue
        if t.startswith("-"):
            opts.add(t)
        i += 1
    if any(SHELL_FUNCTION.search(t) for t in tokens):
        return "sqlite3-shell-function: " + line
    if "-safe" in opts and "-readonly" not in opts:
        return "sqlite3-shortcut -safe: " + line
    if ("-readonly" in tokens or "-safe" in tokens) and not ({"-readonly", "-safe"} & opts):
        return "sqlite3-shortcut flag consumed as option argument: " + line
    if any(t.startswith(".") for t in tokens[1:]) and ("-readonly" in opts or any(t in ("-help", "--help", "-version") for t in tokens)):
        return "sqlite3-shortcut dot-command: " + line
    if any(t in ("-help", "--help", "-version") for t in tokens):
        return "sqlite3-shortcut help/version: " + line
    if "-readonly" in opts:
        return "sqlite3-shortcut -readonly: " + line
    if any(VAR_TOKEN.search(t) for t in tokens):
        return "sqlite-variable-token: " + line
    return "sqlite3: " + line


FLAG_SETS_BEFORE = [[], ["-readonly"], ["-safe"], ["-header", "-csv"], ["-separator", "|"], ["-lookaside", "1", "2"], ["-bail"],
                    ["-cmd", "-readonly"], ["-nullvalue", "-safe"], ["-cmd", "SELECT 1"], ["-cmd", "DELETE FROM u"], ["-init", "init.sql"],
                    ["-unknown"], ["--readonly"], ["-cmd", ".shell touch pwned"], ["-separator", "-readonly"]]
FLAG_SETS_AFTER = [[], ["-version"], ["-help"], ["--help"], ["-readonly"], ["-safe"], ["-cmd", "DELETE FROM t"], ["-cmd", "DELETE FROM t", "-version"]]
CLI_ARGS = [[], ["SELECT 1"], ["SELECT * FROM t"], ["DELETE FROM t"], ["SELECT 1", "DELETE FROM t"], ["SELECT 1;", "SELECT 2"],
            [".shell touch pwned"], [".tables"], ["SELECT @a(\"), 1; DELETE FROM t; --\")"], ["SELECT 1; DELETE FROM t"],
            ["select 1", ".shell touch pwned"], ["DROP TABLE u", "SELECT 1"], ["SELECT writefile('aux.db', 'x')"],
            ["select 1", "SELECT writefile('new.txt', b) FROM t"], ["VACUUM INTO 'copy.db'"],
            # round seven: spellings of a shell function the guard pattern does not see (quoted name, comment before the parenthesis)
            ["SELECT \"writefile\"('new1.txt', 'x')"], ["SELECT [writefile]('new2.txt', 'x')"], ["SELECT `writefile`('new3.txt', 'x')"],
            ["SELECT writefile/**/('new4.txt', 'x')"], ["SELECT writefile /* c */ ('new5.txt', 'x')"], ["SELECT writefile--\n('new6.txt', 'x')"]]


def run(tier, seed, replay=None):
    lib.use_repo()
    from dippy.cli import HandlerContext
    from dippy.cli import sqlite3 as h_sqlite3, duckdb as h_duckdb, psql as h_psql, mysql as h_mysql, aws as h_aws
    from dippy.core import sql as impl

    extra = {"generic": frozenset(), "sqlite3": h_sqlite3._SQLITE_WRITE, "duckdb": h_duckdb._DUCKDB_WRITE,
             "psql": h_psql._POSTGRES_WRITE, "mysql": h_mysql._MYSQL_WRITE, "athena": h_aws._ATHENA_WRITE}
    rng = random.Random(seed)
    out = core.Outcome("C16")
    exe = shutil.which("sqlite3")

    cases = []
    cli_cases = []
    if replay:
        if replay.get("tokens"):
            cli_cases = [list(replay["tokens"])]
        if replay.get("args"):
            cases = [g.Case(replay["args"], "replay")]
        elif replay.get("sql") is not None:
            cases = [g.Case([replay["sql"]], "replay")]
    else:
        cases += g.systematic(rng)
        cases += g.confusion(rng)
        cases += [g.rand_confusion(rng) for _ in range(600 if tier == "quick" else 30000)]
        n_rand, n_soup = (1500, 700) if tier == "quick" else (100000, 40000)
        cases += [g.rand_case(rng) for _ in range(n_rand)]
        cases += [g.soup_case(rng) for _ in range(n_soup)]
        for fb in FLAG_SETS_BEFORE:
            for fa in FLAG_SETS_AFTER:
                for a in CLI_ARGS:
                    cli_cases.append(["sqlite3"] + fb + ["main.db"] + a + fa)
        n_cli = 300 if tier == "quick" else 8000
        for _ in range(n_cli):
            c = g.rand_case(rng) if rng.random() < 0.7 else g.soup_case(rng)
            fb = rng.choice(FLAG_SETS_BEFORE) if rng.random() < 0.5 else []
            fa = rng.choice(FLAG_SETS_AFTER) if rng.random() < 0.3 else []
            cli_cases.append(["sqlite3"] + fb + ["main.db"] + c.args + fa)

    scratch = Scratch()
    model = lib.Model()
    xcheck = []
    seen_sql = {}
    spec_checked = spec_skipped = 0

    def classify_tokens(tokens):
        return h_sqlite3.classify(HandlerContext(list(tokens))).action

    def check_sql(sql, shape):
        """Correspondence on one SQL text (all dialects) + ground truth when SQLite-read-only.  Returns impl verdict for sqlite3."""
        nonlocal spec_checked, spec_skipped
        if sql in seen_sql:
            return seen_sql[sql]
        # correspondence: stripper, multi-statement test, classification per dialect
        i_strip = impl._strip_quoted(sql)
        m_strip = model.call(["sql_strip", sql])
        if i_strip != m_strip:
            out.disagreements.append({"correspondence": "Sql.strip_quoted <-> _strip_quoted", "sql": sql, "model": m_strip, "impl": i_strip})
        i_multi = impl._has_multiple_statements(sql)
        m_multi = model.call(["sql_multi", sql]) == "1"
        if i_multi != m_multi:
            out.disagreements.append({"correspondence": "Sql.has_multiple_statements <-> _has_multiple_statements", "sql": sql,
                                      "model": m_multi, "impl": i_multi})
        verdicts = {}
        for d in DIALECTS:
            iv = impl.is_readonly_sql(sql, extra_write=extra[d])
            rec = d == "sqlite3" and len(xcheck) < 40 and len(seen_sql) % 23 == 0 and len(sql) < 200
            mv = model.call(["sql_dialect", sql, d], record=rec)
            if rec:
                xcheck.append((model.last_request, [], mv))
            mvp = None if mv == [] else (mv[0] == "1")
            if mvp != iv:
                out.disagreements.append({"correspondence": f"Sql.is_readonly_sql[{d}] <-> is_readonly_sql", "sql": sql,
                                          "model": mvp, "impl": iv})
            verdicts[d] = iv
        v = verdicts["sqlite3"]
        # the guards of the repaired sqlite3 handler and _classify_sql
        if hasattr(h_sqlite3, "_classify_sql"):
            ig = [h_sqlite3._TCL_VARIABLE.search(sql) is not None, h_sqlite3._SHELL_FUNCTION.search(sql) is not None,
                  h_sqlite3._VACUUM.search(sql) is not None]
            mg = [x == "1" for x in model.call(["sqlite3_guards", sql])]
            if ig != mg:
                out.disagreements.append({"correspondence": "Sql.tcl_search/shell_fn_search/vacuum_search <-> _TCL_VARIABLE/_SHELL_FUNCTION/_VACUUM .search",
                                          "sql": sql, "model": mg, "impl": ig})
            ic = h_sqlite3._classify_sql(sql)
            mc = model.call(["sqlite3_classify_sql", sql])
            mcp = None if mc == [] else (mc[0] == "1")
            if ic != mcp:
                out.disagreements.append({"correspondence": "Sql.classify_sql <-> cli.sqlite3._classify_sql", "sql": sql, "model": mcp, "impl": ic})
            if v is True and ic is not True:
                out.count("guarded", "tcl-variable" if ig[0] else "shell-function")
            if ig[0] and v is True:
                # is_readonly_sql alone still takes the text for one SELECT: does the engine agree?  (documented, not judged:
                # the handler no longer allows it)
                out.count("core_only", "is_readonly_sql True on a variable-token text (handler asks)")
        else:
            out.disagreements.append({"correspondence": "cli.sqlite3 has no _classify_sql (handler older than d0eb2f8)", "sql": sql})
        seen_sql[sql] = v
        out.count("sqlite_verdict", str(v))
        nontrivial = v is True
        out.case(["sql", sql], nontrivial=nontrivial)
        # the verdict that counts is the handler's for `sqlite3 main.db <sql>` (a repair may live there)
        allowed = v is True
        if not sql.startswith("-"):
            try:
                allowed = classify_tokens(["sqlite3", "main.db", sql]) == "allow"
            except Exception:
                allowed = v is True
        if allowed:
            # GROUND TRUTH: execute it
            traced = []
            errs = scratch.run_python([sql], trace=traced.append)
            d = scratch.diff()
            out.count("executed", "error" if errs else "ok")
            if d is not None:
                out.violations.append({"kind": "sql-readonly-modifies", "what": "the SQL text is classified read-only for sqlite3 but "
                                       f"executing it with SQLite {sqlite3.sqlite_version} changed the scratch database: {d}",
                                       "sql": sql, "shape": shape, "change": d, "signature_text": signature(sql, "sql")})
            # reference tokenizer vs the engine: when the whole script ran without error, SQLite reports one
            # traced statement per statement it found; the reference must count the same number of live statements
            if not errs and "explain" not in sql.lower():     # EXPLAIN statements are not reported by the trace hook
                spec = model.call(["sql_spec", sql])
                live = len(spec[0])
                n_traced = len(traced)
                if live != n_traced:
                    out.disagreements.append({"correspondence": "SqlSpec.live_statements <-> statements SQLite executed (trace callback)",
                                              "sql": sql, "model": live, "impl": n_traced, "traced": traced[:5]})
                spec_checked += 1
            else:
                spec_skipped += 1
        return v

    try:
        # ---------------- SQL texts and argument lists through the SQL path of the handler
        for idx, c in enumerate(cases):
            out.count("shape", c.shape)
            out.count("n_args", min(len(c.args), 4))
            singles = [check_sql(a, c.shape) for a in c.args]
            tokens = ["sqlite3", "main.db"] + c.args
            try:
                act = classify_tokens(tokens)
            except Exception as e:  # a handler must not raise
                out.violations.append({"kind": "handler-raises", "what": f"classify raised {type(e).__name__}: {e}", "tokens": tokens,
                                       "signature_text": "raises: " + " ".join(tokens)})
                continue
            rec = len(xcheck) < 60 and idx % 31 == 0
            mact = model.call(["sqlite3_classify", tokens], record=rec)
            if rec:
                xcheck.append((model.last_request, [], mact))
            if mact != act:
                out.disagreements.append({"correspondence": "Sql.sqlite3_classify <-> cli.sqlite3.classify", "tokens": tokens, "model": mact, "impl": act})
            out.count("handler_action", act)
            if len(c.args) > 1:
                out.case(["args", c.args], nontrivial=act == "allow")
            if idx % 97 == 0:
                out.sample({"args": c.args, "is_readonly_sql": [str(s) for s in singles], "classify": act})
            if act == "allow" and not any(a.startswith("-") for a in c.args):
                # metamorphic: each argument alone must be allowed
                alone = [classify_tokens(["sqlite3", "main.db", a]) for a in c.args]
                if any(x != "allow" for x in alone):
                    out.violations.append({"kind": "args-not-separately-readonly",
                                           "what": f"classify allows the command line but its arguments alone give {alone}",
                                           "args": c.args, "tokens": tokens, "signature_text": signature(tokens, "cli")})
                if len(c.args) > 1:
                    scratch.run_python(c.args)
                    d = scratch.diff()
                    if d is not None:
                        out.violations.append({"kind": "args-allow-modifies", "what": "classify allows the command line but executing the arguments in "
                                               f"order (executescript per argument) changed the scratch database: {d}",
                                               "args": c.args, "tokens": tokens, "change": d, "signature_text": signature(tokens, "cli")})
        # ---------------- command lines with options
        n_cli_run = 0
        for idx, tokens in enumerate(cli_cases):
            try:
                act = classify_tokens(tokens)
            except Exception as e:
                out.violations.append({"kind": "handler-raises", "what": f"classify raised {type(e).__name__}: {e}", "tokens": tokens,
                                       "signature_text": "raises: " + " ".join(tokens)})
                continue
            mact = model.call(["sqlite3_classify", tokens])
            if mact != act:
                out.disagreements.append({"correspondence": "Sql.sqlite3_classify <-> cli.sqlite3.classify", "tokens": tokens, "model": mact, "impl": act})
            out.case(["cli", tokens], nontrivial=act == "allow")
            out.count("cli_action", act)
            if idx % 211 == 0:
                out.sample({"tokens": tokens, "classify": act})
            if act == "allow" and exe and all("\x00" not in t for t in tokens):
                n_cli_run += 1
                rc = scratch.run_cli(exe, tokens)
                d = scratch.diff()
                if d is not None:
                    out.violations.append({"kind": "cli-allow-modifies", "what": "classify allows the command line but running it with the real "
                                           f"sqlite3 shell ({exe}) changed the scratch directory: {d}", "tokens": tokens, "exit": rc,
                                           "change": d, "signature_text": signature(tokens, "cli")})
        out.extra["real_shell"] = {"path": exe or "(none on PATH: option-level ground truth skipped)", "command_lines_run": n_cli_run}
    finally:
        model.close()
        scratch.close()
    out.extra["reference_tokenizer_vs_engine"] = {"texts_compared": spec_checked, "skipped_error_or_not_readonly": spec_skipped}
    n, mism = core.coq_crosscheck("C16", xcheck)
    out.extra["coq_vm_crosscheck"] = {"cases": n, "mismatches": len(mism)}
    if mism:
        out.disagreements.append({"correspondence": "extracted OCaml model <-> vm_compute in Coq", "detail": mism[:5]})
    out.extra["rule"] = (
        "systematic: every statement template x case mode; 4 quoting styles x 21 payloads (;, --, /*, quotes, backslash, newline, $a() in 5 "
        "positions; 23 comments x 4 positions x 3 statements; 7 CTE prefixes x 7 main statements; statement pairs x 11 separators as one/two "
        "arguments; SQLite variable tokens, blob literals, exotic white space, keyword edge cases; random: 1-3 statements with CTE/comments/"
        "quoting/case/hostile inserts, joined by separators, split per statement or at arbitrary positions into arguments; malformed: fragment "
        "soup; delimiter confusion: every quoting style x 25 escape-like fragments (backslash forms, doubled quotes of every style, --, /*, */, $ : @ #, "
        "backslash before ; and newline) as the end / the whole / the middle of a RAW literal, in comments and bare, followed by a write statement and a "
        "later quote of the same kind (35 templates) + random members; command lines: 16 option prefixes x 12 argument lists x 8 option suffixes + random. distinct = distinct SQL texts / argument "
        "lists / command lines; non-trivial = classified read-only (SQL) or allowed (command line), i.e. actually executed against the engine")
    return out
