"""C05 - unknown or unparseable input defaults to ask.

Implementation-level oracle: a program name outside the shipped tables (safe list, wrappers,
handlers) matching no rule is never approved unless its words have one of the help/version shapes
of the property text (computed here independently); strings the parser rejects, empty and
whitespace-only commands are never approved.  Correspondence: Ladder model == _analyze_simple_command
and walker model == analyze."""
from __future__ import annotations

import itertools
import random
import string
from pathlib import Path

from . import bashgen_ext as bx
from . import core, lib
from .walk_oracles import make_ladder_oracles, model_analyze

TRUSTED = [
    "Coq 8.16.1 kernel and VM; axioms: none",
    "tools/gen_tables.py (SIMPLE_SAFE, WRAPPER_COMMANDS, help-token tables regenerated from /repo); extraction + driver",
    "modelled, not verified: handlers and rule lookup are oracles of the ladder theorems; the parser is an oracle",
]

HELPISH = ["--help", "-h", "--version", "help", "version", "-V", "-v", "--HELP", "-help", "--h", "-H", "--usage", "-?"]


def is_help_shape(tokens):
    """The exception as the property text states it."""
    if len(tokens) == 2 and tokens[1] in ("help", "version", "--version", "--help", "-h"):
        return True
    if 2 <= len(tokens) <= 4 and tokens[-1] in ("--help", "-h"):
        return True
    return False


def unknown_names(rng, known):
    out = []
    while len(out) < 40:
        n = rng.choice(["zz", "frob", "xq", "my-tool", "do_it", "Run", "a.out", "tool2", "ünï", "x+y", "deploy.sh"]) + \
            "".join(rng.choice(string.ascii_lowercase + string.digits) for _ in range(rng.randint(0, 6)))
        if n not in known:
            out.append(n)
    return out


def run(tier, seed, replay=None):
    lib.use_repo()
    from dippy.core import analyzer as an
    from dippy.core.allowlists import SIMPLE_SAFE, WRAPPER_COMMANDS
    from dippy.cli import get_handler
    from dippy.core.config import parse_config
    from dippy.vendor.parable import parse, ParseError

    rng = random.Random(seed)
    out = core.Outcome("C05")
    cfg = parse_config('deny zap "NOZAP"\nallow okcmd\n')
    cwd = "/jail"
    known = set(SIMPLE_SAFE) | set(WRAPPER_COMMANDS)
    names = [n for n in unknown_names(rng, known) if get_handler(n) is None]
    model = lib.Model()
    orc = make_ladder_oracles(cfg)
    xcheck = []

    def judge_words(words, label, inner=None):
        """words: argv of one simple command whose program name is unknown."""
        impl = an._analyze_simple_command(list(words), cfg, Path(cwd)).action
        out.case(["words"] + list(words))
        out.count("stream", label)
        out.count("verdict", impl)
        toks = [w for w in (inner if inner is not None else words)]
        while toks and "=" in toks[0] and not toks[0].startswith("-"):
            toks = toks[1:]
        if impl == "allow" and toks and not is_help_shape(toks):
            out.violations.append({"kind": "unknown-approved", "what": f"unknown program approved: {words}",
                                   "words": words, "signature_text": " ".join(words)})
        rec = len(xcheck) < 30 and out.evaluations % 17 == 0
        mv = model.call(["ladder", cwd, False, list(words)], orc, record=rec)
        if rec and len(model.transcript) < 40:
            xcheck.append((model.last_request, list(model.transcript), mv))
        if mv != impl:
            out.disagreements.append({"correspondence": "Ladder.ladder <-> analyzer._analyze_simple_command", "words": words, "model": mv, "impl": impl})
        if out.evaluations % 97 == 0:
            out.sample({"words": words, "verdict": impl})

    # --- unknown names x argument lists with help-looking tokens at every position
    nargs = 12
    for name in names[: (12 if tier == "quick" else 40)]:
        for spelled in (name, f"./{name}", f"/opt/bin/{name}", f"../{name}"):
            judge_words([spelled], "bare")
            for h in HELPISH:
                for n in range(0, 5):
                    args = [rng.choice(["a", "-x", "--flag", "f.txt", "1"]) for _ in range(n)]
                    for pos in range(n + 1):
                        judge_words([spelled] + args[:pos] + [h] + args[pos:], "helpish")
            if tier == "thorough":
                for n in range(5, nargs):
                    judge_words([spelled] + [rng.choice(["a", "-h", "--help", "x=1"]) for _ in range(n)], "long")
        # behind assignment prefixes and wrappers
        for pre in (["X=1"], ["A=1", "B=2"], ["time"], ["timeout", "5"], ["nice", "-n", "3"], ["nohup"], ["command"], ["command", "--"],
                    ["time", "nice"], ["X=1", "nohup"]):
            for tail in ([], ["a"], ["--help"], ["a", "b", "-h"], ["a", "b", "c", "-h"]):
                # the help/version exception applies to the wrapped command's own words
                judge_words(pre + [name] + tail, "wrapped", inner=[name] + tail)

    # --- whole command strings: quoted / escaped / expansion-derived names, parser-rejected input
    def judge_text(text, label, must_not_allow=True):
        try:
            impl = lib.with_timeout(lambda: an.analyze(text, cfg, Path(cwd)).action, 3.0)
        except lib.Timeout:
            out.count("stream", "parser-timeout")
            out.extra.setdefault("parser_timeouts", [])
            if len(out.extra["parser_timeouts"]) < 5:
                out.extra["parser_timeouts"].append(text[:80])
            return
        except RecursionError:
            impl = "exception"
        except Exception as e:  # any exception reaches main()'s handler: not an allow
            impl = "exception"
        out.case(["text", text])
        out.count("stream", label)
        out.count("verdict", impl)
        if impl == "allow" and must_not_allow:
            out.violations.append({"kind": label, "what": f"approved: {text!r}", "program": text, "signature_text": text})
        # (the model's list reversal is the quadratic textbook one: very long words are left to the
        #  implementation-level oracle alone)
        if impl != "exception" and len(text) <= 20000:
            try:
                mv = model_analyze(model, cfg, text, cwd)
                if mv != impl:
                    out.disagreements.append({"correspondence": "Walker.analyze_nodes <-> analyzer.analyze", "program": text, "model": mv, "impl": impl})
            except lib.ModelError:
                pass

    # --- spelling families of every KNOWN name: the safe list, the wrappers, the handler CLIs and the names the analyser
    # treats specially.  A spelling that is not itself a known name (path-qualified, prefixed, suffixed, case-changed)
    # names some other program: unknown, so never approved - whatever its arguments.  (Quoting or escaping the name
    # does not change the program and is not in this family.)
    from dippy.cli import KNOWN_HANDLERS
    special = ["test", "[", "cd", "pushd", "popd", "command", "builtin", "time", "true", "false", "env", "xargs", "find", "sh", "bash", "git", "docker",
               "kubectl", "python", "python3", "sqlite3", "sed", "sort", "awk", "curl", "tee", "echo", "printf", "ls", "cat"]
    all_known = sorted(set(SIMPLE_SAFE) | set(WRAPPER_COMMANDS) | set(KNOWN_HANDLERS) | set(special))
    pool = [n for n in all_known if n in special] + [n for i, n in enumerate(all_known) if n not in special and (tier == "thorough" or i % 5 == seed % 5)]
    # inside double quotes bash keeps a backslash before an ordinary character: "l\s" runs a program named l\s
    for n in [x for x in pool if len(x) >= 2 and x.isalnum()][:60]:
        for k in range(0, len(n)):
            if n[k] in '$`"\\\n':
                continue
            for sp in (f'"{n[:k]}\\{n[k:]}"', f'{n[:k]}"\\{n[k:]}"'):
                for args in ("", " x"):
                    judge_text(sp + args, "dq-backslash-name")
    families = ["./{n}", "sub/{n}", "/opt/x/{n}", "../{n}", "{n}/", ".{n}", "{n}.", "{N}", "{n}2", "{n}.sh", "ci/{n}", "/usr/local/bin/../{n}", "~/{n}", "{n}/{n}"]
    for n in pool:
        for fam in families:
            sp = fam.replace("{n}", n).replace("{N}", n.upper())
            if sp in all_known or get_handler(sp) is not None:
                continue
            for args in ("", " x", " -rf /", " -f x y", " deploy production"):
                judge_text(sp + args, "known-name-family")
    # --- every code point as a whole command, alone and around a known name: bash separates words at blanks and newlines
    # only, so any other character - white space in Python's sense included - is (part of) a program name nobody knows
    known1 = {n for n in all_known if len(n) == 1} | {"#"}
    cps = list(range(1, 0x3100)) + [0xFEFF, 0xE0020, 0x1F600, 0xFF0C, 0x1680, 0x180E, 0x205F, 0x3000]
    if tier == "quick":
        cps = [cp for cp in cps if cp < 0x100 or chr(cp).isspace() or cp % 7 == seed % 7]
    for cp in cps:
        ch = chr(cp)
        if ch in " \t\n":
            continue
        for text, ok_if in ((ch, ch in known1), (ch + "ls", False), ("ls" + ch, False), (ch + " ls", ch in known1 or ch in ";&|(){}<>!#" or ch == "\\"),
                            (f"bash -c '{ch}'" if ch != "'" else "bash -c x", ch in known1)):
            if ch in ";&|(){}<>!#\"'`$\\*?[]~=" and text != ch:
                continue      # shell syntax: judged by the other streams
            judge_text(text, "code-point", must_not_allow=not ok_if)
    ws = [chr(c) for c in range(0x3100) if chr(c).isspace()]
    for a_, b_ in itertools.product(ws, repeat=2):
        judge_text(a_ + b_, "white-space-only")
    for name in names[:10]:
        for sp in (f'"{name}" a', f"'{name}' a", f'{name[:1]}""{name[1:]} a', f"\\{name} a", f"${{X:-{name}}} a", f"$(echo {name}) a",
                   f"$X{name} a", f"`echo {name}` a", f"{name}$'' a", f"eval {name}", f"exec {name}"):
            judge_text(sp, "odd-spelling")
    # --- context independence: an unknown program stays unknown whatever was defined, bound, queried or run before it on
    # the same command line.  Every approved text is RUN under real bash in a jail whose PATH holds a stub `frobnicate`
    # that logs its argv: approved and the program frobnicate ran = the property fails (a function of that name that
    # really shadows the program - `frobnicate() { true; }; frobnicate x` - runs no program and is not a violation)
    from .jail import Jail
    n_ = "frobnicate"
    binders = ["{n}() { true; }", "function {n} { true; }", "{n}() ( true )", "{n}() { true; } > /dev/null", "alias {n}=ls", "{n}=ls", "export {n}=ls",
               "declare -f {n}", "unset -f {n}", "type {n}", "command -v {n}", "hash {n}", "true", "ls"]
    shapes = ["{B}; {C}", "{B}\n{C}", "{B} && {C}", "{B} || {C}", "{B} & {C}", "{B} | {C}", "false && {B}; {C}", "true || {B}; {C}", "( {B} ); {C}",
              "echo $({B}); {C}", "{B}; ( {C} )", "{B}; timeout 5 {C}", "{B}; nohup {C}", "{B}; command {C}", "{B}; env {C}", "{B}; time {C}",
              "{B}; nice {C}", "{B}; echo $({C})", "{B}; ls | {C}", "if false; then {B}; fi; {C}", "{B}; {B}; {C}", "{B}; unset -f {n}; {C}",
              "{B}; {n}2 x", "{B}; ./{n} x", "{B}; sh -c '{C}'", "{B}; bash -c '{C}'", "{B}; xargs {C}", "{B}; X=1 {C}", "{C}; {B}", "{B}; { {C}; }",
              "{B}; if true; then {C}; fi", "{B}; for v in a; do {C}; done", "{B}; while {C}; do ls; done", "{B}; ! {C}", "{B}; {C} &", "{B}; coproc {C}"]
    jail = Jail(bx.STUBS, real_tools=["timeout", "nohup", "env", "nice", "xargs"])
    jcfg = parse_config('deny zap "NOZAP"\nallow okcmd\n')
    try:
        for b_, sh_ in itertools.product(binders, shapes):
            text = sh_.replace("{B}", b_).replace("{C}", f"{n_} --wipe x").replace("{n}", n_)
            try:
                impl = lib.with_timeout(lambda: an.analyze(text, jcfg, Path(jail.cwd)).action, 3.0)
            except Exception:
                impl = "exception"
            out.case(["context", text])
            out.count("stream", "context")
            out.count("verdict", impl)
            if impl != "exception":
                try:
                    mv = model_analyze(model, jcfg, text, jail.cwd)
                    if mv != impl:
                        out.disagreements.append({"correspondence": "Walker.analyze_nodes <-> analyzer.analyze", "program": text, "model": mv, "impl": impl})
                except lib.ModelError:
                    pass
            if impl == "allow":
                ran = []
                for mode in ("alt", "0"):
                    log, _changed, _status, _err = jail.run(text, mode)
                    ran += [rec for rec in log if rec and rec[0].split(":")[-1].startswith(n_)]
                out.count("ground_truth", "ran")
                if ran:
                    out.violations.append({"kind": "unknown-ran", "what": f"approved, and running it under bash executed the unknown program: {ran[0]}",
                                           "program": text, "signature_text": text})
    finally:
        jail.close()
    # a word with a quoted or escaped "=" (or name) is not an assignment for bash: it is the program name
    for text in ["'X=1' ls", '"X=1" ls', "X'=1' ls", "X\\=1 ls", "'X'=1 ls", "X=1 ls", "X='1' ls"]:
        judge_text(text, "quoted-assignment-word", must_not_allow=text not in ("X=1 ls", "X='1' ls"))
    for text in ["", " ", "\t\n", "\n\n", ";", ";;", "&", "|", "&&", "(", ")", "{", "}", "((", "[[", "if", "then", "fi", "do", "done", "esac",
                 "'", '"', "`", "$(", "${", "$((", "<", ">", "<<", "<<<", "\\", "#", "!", "ls |", "ls &&", "ls ||", "if ls", "while ls; do",
                 "for x in", "case x in", "ls )", "( ls", "{ ls", "ls }", "echo $(", "echo ${x", "echo `ls", "cat <<EOF", "fn() {", "[[ -f x",
                 "(( 1 +", "ls > ", "ls 2>", "x=(", "echo \x00", "\x00", "ls\x00rm x"]:
        # empty/whitespace, syntax errors: never allow.  (A few of these ARE valid bash - e.g. "#" or "!" - and
        # are judged only by the model comparison.)
        try:
            ok = bool(text.strip()) and lib.with_timeout(lambda: parse(text.strip()), 3.0)
            rejected = False
        except ParseError:
            rejected = True
        except BaseException:
            rejected = True
        judge_text(text, "syntax-error" if rejected else "edge-valid", must_not_allow=rejected or not text.strip())
    # truncations of valid programs at every position: whenever the parser rejects, never allow
    valid = [bx.fill(t, "ls") for _, t in bx.EXEC_POSITIONS]
    step = 1 if tier == "thorough" else 3
    for prog in valid[:: (1 if tier == "thorough" else 4)]:
        for cut in range(1, len(prog), step):
            t = prog[:cut]
            try:
                lib.with_timeout(lambda: parse(t.strip()) if t.strip() else None, 3.0)
                continue
            except ParseError:
                pass
            except lib.Timeout:
                out.count("stream", "parser-timeout")
                continue
            except Exception:
                pass
            judge_text(t, "truncation")
    n_rand = 300 if tier == "quick" else 5000
    alphabet = "ls rmx;|&(){}[]<>$`'\"\\#!=\n\t*?~"
    for _ in range(n_rand):
        t = "".join(rng.choice(alphabet) for _ in range(rng.randint(1, 25)))
        try:
            lib.with_timeout(lambda: parse(t.strip()) if t.strip() else (_ for _ in ()).throw(ParseError("empty")), 3.0)
            continue
        except ParseError:
            pass
        except lib.Timeout:
            out.count("stream", "parser-timeout")
            out.extra.setdefault("parser_timeouts", [])
            if len(out.extra["parser_timeouts"]) < 5:
                out.extra["parser_timeouts"].append(t)
            continue
        except Exception:
            pass
        judge_text(t, "random-rejected")
    # very large and deeply nested inputs
    # (the vendored parser needs time exponential in the nesting depth of $( $( ... ) ): depth 14 takes two
    #  minutes - see DESIGN.md, finding on C06; the depth here is kept small)
    for text in ["ls " + "a " * 50000, "(" * 400 + "ls" + ")" * 400, "echo " + "$(" * 8 + "ls" + ")" * 8, "x" * 200000]:
        judge_text(text, "huge", must_not_allow=False)
    # function-level ties of the two helpers that decide WHICH word is the program name
    from . import funcs
    diffs = funcs.run_ties(out, model, ["is_assignment", "strip_quotes", "analyze_prelude"], tier, rng, an)
    # round seven (seeded change C05v: a greedy subscript in the assignment pattern): every word the IMPLEMENTATION takes for an
    # assignment (token-exhaustive over the alphabet below, plus the inputs on which the function-level tie differs) is given to
    # real bash: when bash runs it as a command (status 127 in an empty directory), `WORD ls` may not be approved - the word is
    # the name of an unknown program.  One bash process, one eval in a subshell per word.
    import itertools as _it
    import subprocess
    import tempfile
    cands = [w for w in diffs.get("is_assignment", [])]
    alpha = ["a", "x", "_", "1", "[", "]", "]=", "+", "=", "-", "."]
    isa = getattr(an, "_is_assignment_word", None)
    if isa is not None:
        for n in range(1, 6 if tier == "quick" else 7):
            for tup in _it.product(alpha, repeat=n):
                w = "".join(tup)
                if isa(w):
                    cands.append(w)
    safe = set("abcdefghijklmnopqrstuvwxyzABCDEFGHIJKLMNOPQRSTUVWXYZ0123456789_[]+=-./,:@%")
    cands = sorted({w for w in cands if w and set(w) <= safe})
    if len(cands) > (6000 if tier == "quick" else 60000):
        cands = rng.sample(cands, 6000 if tier == "quick" else 60000)
    with tempfile.TemporaryDirectory() as td:
        Path(td, "words").write_text("".join(w + "\n" for w in cands))
        script = 'cd "$1"; while IFS= read -r w; do ( eval "$w true" ) >/dev/null 2>&1; echo $?; done < words'
        pr = subprocess.run(["bash", "--norc", "--noprofile", "-c", script, "x", td], capture_output=True, text=True, timeout=600,
                            env={"PATH": "/usr/bin:/bin"})
        codes = pr.stdout.split()
    n_cmd = 0
    if len(codes) == len(cands):
        for w, rc in zip(cands, codes):
            if rc == "127":
                n_cmd += 1
                judge_text(f"{w} ls", "assignment-shaped-command-name", must_not_allow=True)
                judge_text(f"{w}", "assignment-shaped-command-name", must_not_allow=True)
    else:
        out.disagreements.append({"correspondence": "bash oracle for assignment words", "detail": f"{len(codes)} answers for {len(cands)} words: {pr.stderr[:200]}"})
    out.extra["assignment_word_oracle"] = {"words_the_implementation_takes_for_assignments": len(cands), "of_which_bash_runs_as_a_command": n_cmd,
                                           "alphabet": alpha}
    model.close()
    n, mism = core.coq_crosscheck("C05", xcheck)
    out.extra["coq_vm_crosscheck"] = {"cases": n, "mismatches": len(mism)}
    if mism:
        out.disagreements.append({"correspondence": "extracted OCaml model <-> vm_compute in Coq", "detail": mism[:5]})
    out.extra["rule"] = ("unknown program names (not in SIMPLE_SAFE/WRAPPER_COMMANDS, no handler; bare, path-qualified) x help-looking tokens "
                         "at every argument position x 0-4 (quick) / 0-11 (thorough) arguments; behind assignment prefixes and wrappers; "
                         "path-qualified / affixed / case-changed spellings of every known name (safe list, wrappers, handler CLIs, specially treated names) x argument lists; "
                         "quoted/escaped/expansion-derived names; a list of syntax errors; every truncation of valid programs that the "
                         "parser rejects; random strings the parser rejects; huge inputs. distinct = distinct inputs (all non-trivial)")
    return out
