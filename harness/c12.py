"""C12 - same verdict for Claude Code, Gemini CLI and Cursor; envelopes conform.

Implementation-level oracle (model-free), on real subprocess runs of bin/dippy-hook:
  * the same command / cwd / configuration submitted in each host's own input shape (all Gemini
    tool-name aliases) is decoded - by readers written from docs/hook-systems/*.md - to the same
    (verdict, reason) by the three hosts; beyond the hand-picked commands, for ~1000 (thorough ~6000) commands: every
    composition constructor x verdict classes, random compositions, every name of the safe list / wrapper list /
    handler table in several argument forms (in-process sweep, differences confirmed by real processes);
  * every answer validates against the answering host's key / vocabulary schema;
  * the answering mode is: explicit flag or DIPPY_* variable first (claude > gemini > cursor), else
    the input shape - over all flag subsets and DIPPY_* values;
  * forcing a mode never changes the verdict the same input gets without flags;
  * the working directory is the payload's top-level cwd, else tool_input.cwd, else the process's own -
    under every forced mode and auto, for all three shapes: the process runs in a project whose .dippy
    denies the probe while the payload's directories allow / ask it, so the verdict shows which was used;
  * only the host-written level of the payload decides the answering host, the command and the directory (harness/hookplace.py):
    a tool_name / command / tool_input / cwd key anywhere the host does not write it (inside tool_input, tool_response, other
    members, near-miss spellings, ...) x what the top level holds x the three shapes + MCP x every forced mode (flags and
    DIPPY_* variables) leaves the answer byte-for-byte what it is without that key;
  * an argv word / a DIPPY_* value / a variable name that is only a near-miss of a mode flag / a truthy value / a variable
    (case, padding, truncation, plural, `=value`, doubled dashes, ...) selects nothing; a truthy value in any case does; the
    position of a flag among the arguments is irrelevant.
Correspondence: Model/Hook.v main == the real process on all those runs; detect_mode_from_input ==
dippy.dippy._detect_mode_from_input over the JSON type grid; Hook.decode / Hook.conforms == the
Python host readers on the real outputs."""
from __future__ import annotations

import itertools
import json
import random

from . import core, lib
from . import hookgen as g
from . import hooklib as H
from . import hookplace as P

TRUSTED = [
    "Coq 8.16.1 kernel and its VM",
    "axioms: none (every theorem of Props/C12.v prints 'Closed under the global context')",
    "tools/gen_tables.py (SHELL_TOOL_NAMES, GEMINI_TOOL_NAMES, ENV_TRUTHY regenerated from dippy.py on every run)",
    "extraction: ExtrOcamlBasic only; OCaml 4.13.1; ocaml/driver.ml; cross-checked in Coq by vm_compute on a sample",
    "host schemas: Hook.decode / Hook.conforms (Coq) and harness/hooklib.py host_decode / host_schema_errors (Python) are both written "
    "from docs/hook-systems/{claude-code-hooks,gemini-cli-hooks,cursor-hooks}.md; the hosts themselves are not run",
    "str.lower() is modelled on ASCII only: the harness checks over all of Unicode that no other character lowers into '1', 'true', 'yes'",
    "modelled, not verified: analyze, load_config, log_decision, ... are oracles; C12_same / C12_factor hold for all of them",
]

CFG = 'deny zap "NOZAP"\nallow okcmd\nallow-mcp mcp__ok__*\ndeny-mcp mcp__ok__bad "no"\nask-mcp mcp__q__* "sure?"\n'
COMMANDS = ["ls", "echo hi", "pwd", "git status", "rm x", "git push", "frobnicate a", "zap it", "okcmd", "echo $(", "",
            "ls | zap 1", "cat f > /tmp/x", "ls \ud800", "echo 'é🐤'"]
P_PROC = 'deny probecmd "PROC"\n'     # the .dippy of the project the hook process runs in
P_PAY = 'allow probecmd\n'            # ... of the project the payload's cwd points at
P_PAY2 = 'ask probecmd "PAY2"\n'      # ... of a second payload project
ENV_VALUES = [None, "1", "true", "yes", "0", "junk", "TRUE", "Yes", "", " 1"]
FLAG_SUBSETS = [tuple(s) for n in range(4) for s in itertools.combinations(("--claude", "--gemini", "--cursor"), n)]


def shaped(shape, cmd, wd, alias=None, **extra):
    return g.base_input(shape, cmd, wd, tool_name=alias, **extra)


def build_cases(sc, tier, rng):
    wd = sc.proj(None)
    groups = []   # (group key, [cases])  - members must decode to the same verdict+reason
    singles = []
    mk = lambda v, **kw: H.Case(g.dumps(v), user_cfg=CFG, **kw)  # noqa: E731

    # 1. verdict classes x the three shapes (all Gemini aliases), auto-detected and with the host's own flag
    for cmd in COMMANDS:
        for variant in ("auto", "flag", "env"):
            grp = []
            for shape, alias in [("claude", None), ("cursor", None)] + [("gemini", a) for a in H.GEMINI_ALIASES]:
                kw = {}
                if variant == "flag":
                    kw["flags"] = (f"--{shape}",)
                elif variant == "env":
                    kw["env"] = {f"DIPPY_{shape.upper()}": "1"}
                if variant != "auto" and alias not in (None, "run_shell_command"):
                    continue
                grp.append(mk(shaped(shape, cmd, wd, alias), label=f"same:{variant}:{shape}", **kw))
            groups.append((f"{cmd!r}/{variant}", grp))
    # bypass, config error, cwd variants, wrong-typed command: still the same for the three hosts
    for extra, kw, name in [({"permission_mode": "bypassPermissions"}, {}, "bypass"), ({"permission_mode": "dontAsk"}, {}, "bypass"),
                            ({}, {"env_cfg": "/proc/self/mem"}, "config-error"), ({"hook_event_name": "PostToolUse"}, {}, "post")]:
        for cmd in ("ls", "rm x"):
            grp = [mk(shaped(s, cmd, wd, **extra), label=f"same:{name}:{s}", **kw) for s in g.SHAPES]
            groups.append((f"{cmd!r}/{name}", grp))
    for cmdv in (None, 5, ["ls"], {"a": 1}, True):
        groups.append((f"{cmdv!r}/nonstr", [mk(shaped(s, cmdv, wd), label=f"same:nonstr:{s}") for s in g.SHAPES]))
    for cwdv in (wd + "/sub", "", None, 7, wd + "/missing"):
        groups.append((f"cwd={cwdv!r}", [mk(shaped(s, "ls", cwdv), label=f"same:cwd:{s}") for s in g.SHAPES]))

    # 2. mode selection: every flag subset x every shape; every DIPPY_* value one at a time; random full combinations
    for cmd in ("ls", "rm x"):
        for flags in FLAG_SUBSETS:
            for shape in g.SHAPES:
                singles.append(mk(shaped(shape, cmd, wd), label="mode:flags", flags=flags))
        for var in ("DIPPY_CLAUDE", "DIPPY_GEMINI", "DIPPY_CURSOR"):
            for val in ENV_VALUES[1:]:
                for shape in g.SHAPES:
                    singles.append(mk(shaped(shape, cmd, wd), label="mode:env", env={var: val}))
    n_rand = 60 if tier == "quick" else 1200
    for _ in range(n_rand):
        env = {}
        for var in ("DIPPY_CLAUDE", "DIPPY_GEMINI", "DIPPY_CURSOR"):
            v = rng.choice(ENV_VALUES)
            if v is not None:
                env[var] = v
        shape = rng.choice(g.SHAPES)
        alias = rng.choice(H.GEMINI_ALIASES) if shape == "gemini" else None
        singles.append(mk(shaped(shape, rng.choice(COMMANDS), wd, alias), label="mode:random", flags=rng.choice(FLAG_SUBSETS), env=env))

    # 3. MCP / other tools under each non-cursor mode
    for tn in ("mcp__ok__x", "mcp__ok__bad", "mcp__q__y", "mcp__none", "Read"):
        for flags in ((), ("--claude",), ("--gemini",), ("--cursor",)):
            singles.append(mk({"tool_name": tn, "tool_input": {}, "cwd": wd}, label="mode:mcp", flags=flags))
    # 4. where the working directory comes from: top-level cwd, else tool_input.cwd, else the process's own -
    #    never the mode.  The process runs under a project whose .dippy DENIES the probe; the payload points at
    #    projects whose .dippy allow / ask it, so the verdict tells which directory was used.
    pay, pay2 = sc.proj(P_PAY), sc.proj(P_PAY2)
    placements = {   # name -> (top-level cwd or MISSING, tool_input.cwd or MISSING, expected verdict)
        "top": (pay, g.MISSING, "allow"), "tool_input-only": (g.MISSING, pay, "allow"), "both-different": (pay, pay2, "allow"),
        "top-empty+tool_input": ("", pay2, "ask"), "top-null+tool_input": (None, pay, "allow"), "absent": (g.MISSING, g.MISSING, "deny"),
    }
    forced = [((), {}), (("--claude",), {}), (("--gemini",), {}), (("--cursor",), {}), ((), {"DIPPY_CURSOR": "1"}),
              ((), {"DIPPY_CLAUDE": "1"}), ((), {"DIPPY_GEMINI": "true"})]
    for pname, (top, ti, want) in placements.items():
        grp = []
        for shape in g.SHAPES:
            d = g.base_input(shape, "probecmd x", "unused")
            d = g.set_path(d, ("cwd",), top)
            if ti is not g.MISSING:
                d = g.set_path(d, ("tool_input", "cwd"), ti)
            for flags, env in forced:
                c = H.Case(g.dumps(d), label=f"cwd:{pname}:{shape}", flags=flags, env=env, user_cfg=None, proj_cfg=P_PROC)
                c.want_verdict = want
                singles.append(c)
                grp.append(c)
        groups.append((f"cwd placement {pname}", grp))
    return groups, singles


def command_family(tier, rng):
    """Commands of every kind the analyser distinguishes: all composition constructors x verdict classes (harness/bashgen.py),
    random compositions, and every known NAME - safe list, wrapper list, handler table - bare, with an argument, with --help."""
    from dippy import cli
    from dippy.core import allowlists as al

    from . import bashgen as bg

    by_cls = {"allow": [bg.Atom(t, "allow") for t in bg.ALLOW_CMDS], "ask": [bg.Atom(t, "ask") for t in bg.ASK_CMDS],
              "deny": [bg.Atom(t, "deny") for t in bg.DENY_CMDS]}
    cmds = [p.text for p in bg.systematic(by_cls)]
    pool, redirs = bg.atoms_cmd(), bg.atoms_redir()
    for _ in range(250 if tier == "quick" else 4000):
        cmds.append(bg.rand_prog(rng, rng.randint(1, 3), pool, redirs).text)
    names = sorted(set(al.SIMPLE_SAFE) | set(al.WRAPPER_COMMANDS) | set(getattr(cli, "KNOWN_HANDLERS", {})))
    for i, n in enumerate(names):
        forms = [n, n + " x", n + " --help", n + " -rf x > out.txt", "sudo " + n, n + " | zap"]
        cmds += forms if tier == "thorough" else [forms[i % len(forms)], forms[(i + 1) % len(forms)]]
    return list(dict.fromkeys(cmds))


def command_sweep(sc, out, tier, rng):
    """For ALL those commands: the three hosts' own shapes decode to the same (verdict, reason), each envelope conforms - run
    in-process (harness/hook_sweep_worker.py), every difference re-run as real processes."""
    import time

    t0 = time.time()
    wd = sc.proj(None)
    cmds = command_family(tier, rng)
    items = []
    for cmd in cmds:
        for shape in g.SHAPES:
            t = json.dumps(g.base_input(shape, cmd, wd))
            items.append(P.Item(text=t, twin=t, expect="twin", flags=(), env={}, field=shape, value=cmd, label="cmdsweep:" + shape, dims={}))
    results = P.sweep(sc, items, user_cfg=CFG, workers=1)
    bad = []
    for i in range(0, len(items), 3):
        reads = []
        for it in items[i:i + 3]:
            stdout, exc = results[(it.text, (), ())]
            parsed = H.parse_stdout(stdout.encode("utf-8", "surrogateescape"))
            d = H.any_decision(parsed[0][1]) if len(parsed) == 1 and parsed[0][0] == "J" else None
            if d is None or exc:
                reads.append(("?", stdout[:80], exc))
            else:
                errs = H.host_schema_errors(d[0], parsed[0][1])
                reads.append((d[1], d[2], d[0] == it.field, tuple(errs)))
        out.evaluations += 1
        out.count("command_sweep", reads[0][0] if reads[0] else "?")
        if len(set(reads)) != 1 or reads[0][0] == "?" or reads[0][2] is not True or reads[0][3]:
            bad.append((items[i].value, reads))
    out.distinct.update(lib.sha(["cmdsweep", c]) for c in cmds)
    confirmed = 0
    for cmd, reads in bad[:8]:
        grp = [H.Case(g.dumps(g.base_input(sh, cmd, wd)), label=f"same:sweep:{sh}", user_cfg=CFG) for sh in g.SHAPES]
        H.run_cases(sc, grp)
        vs = [verdict_of(c) for c in grp]
        rd = [(v[1:] if v[0] in H.MODES else v) for v in vs]
        schema = [H.host_schema_errors(v[0], H.parse_stdout(c.out)[0][1]) if v[0] in H.MODES else ["no decision"] for v, c in zip(vs, grp)]
        if any(r != rd[0] for r in rd) or any(schema) or [v[0] for v in vs] != list(g.SHAPES):
            confirmed += 1
            out.violations.append({"kind": "hosts", "what": f"the hosts read different answers for {cmd!r}: {rd} (formats {[v[0] for v in vs]}, schema {schema})",
                                   "members": [H.describe(c, sc) for c in grp], **H.describe(grp[0], sc), "signature_text": f"hosts-differ | sweep | {cmd[:40]}"})
    if bad and confirmed < min(len(bad), 8):
        out.disagreements.append({"correspondence": "in-process sweep (hook_sweep_worker.py) <-> bin/dippy-hook process",
                                  "detail": f"{min(len(bad), 8) - confirmed} cross-host differences did not show in real processes", "command": bad[0][0], "reads": str(bad[0][1])})
    out.extra["command_sweep"] = {"commands": len(cmds), "in_process_differences": len(bad), "confirmed_by_real_processes": confirmed,
                                  "seconds": round(time.time() - t0, 1)}


def verdict_of(c):
    """(mode of the envelope, verdict, reason) or ('{}',) / ('text', ...) / ('bad', ...)"""
    items = H.parse_stdout(c.out)
    if len(items) == 0:
        return ("silent",)
    if len(items) != 1:
        return ("bad", str(items)[:200])
    k, v = items[0]
    if k == "T":
        return ("text", v)
    if v == {}:
        return ("{}",)
    d = H.any_decision(v)
    return d if d else ("bad", json.dumps(v)[:200])


def run(tier, seed, replay=None):
    lib.use_repo()
    rng = random.Random(seed)
    out = core.Outcome("C12")
    sc = H.Scratch()
    hm = None
    xcheck = []
    try:
        placed = None
        if replay and replay.get("twin_case"):
            placed = P.replay_pair(sc, out, replay, "hosts")
            groups, singles = [], []
        elif replay:
            groups, singles = ([("replay", [H.replay_case(sc, r) for r in replay["members"]])], []) if "members" in replay \
                else ([], [H.replay_case(sc, replay)])
        else:
            groups, singles = build_cases(sc, tier, rng)
        allc = [c for _, grp in groups for c in grp] + singles
        H.run_cases(sc, allc)
        hm = H.HookModel(sc)
        if placed is not None:
            allc = [placed]
        elif not replay:
            hosts = ["claude", "gemini", "cursor", "mcp"] + ["gemini:" + a for a in H.GEMINI_ALIASES]
            place_cases, _ = P.run_placement(sc, out, tier, "hosts", hm=hm, sample_limit=50, events=("pre",), host_names=hosts,
                                             fields=("tool_name", "command", "tool_input", "cwd"), forced=P.FORCED + P.FORCED_ENV)
            allc = allc + place_cases
            # near-miss spellings of the mode flags, of the truthy values and of the variable names
            P.run_mode_spellings(sc, out, tier)
            # "for all commands": composition constructors, random programs, every known command name - three hosts each
            command_sweep(sc, out, tier, rng)

        def bad(what, sig, c, **more):
            out.violations.append({"kind": "hosts", "what": what, **H.describe(c, sc), **more, "signature_text": f"{sig} | {c.label}"})

        # --- oracle 1: protocol, schema, answering mode - on every run
        baseline = {}   # (stdin, configs) -> verdict without flags
        for c in allc:
            if not c.flags and not c.env:
                baseline[(c.data, c.user_cfg, c.proj_cfg, c.env_cfg)] = verdict_of(c)[1:] if verdict_of(c)[0] in H.MODES else verdict_of(c)
        for idx, c in enumerate(allc):
            out.case(c.key(), nontrivial=bool(c.flags or c.env) or c.label.startswith("same"))
            out.count("stream", c.label.split(":")[0] + ":" + c.label.split(":")[1])
            v = verdict_of(c)
            out.count("answer", v[0] if v[0] not in H.MODES else v[1])
            if idx % 131 == 0:
                out.sample({"label": c.label, "stdin": c.data[:150].decode("utf-8", "backslashreplace"), "flags": list(c.flags),
                            "env": c.env, "stdout": c.out[:200].decode("utf-8", "backslashreplace")})
            if c.rc != 0 or H.has_traceback(c) or v[0] == "bad":
                bad(f"protocol broken: exit {c.rc}, {v}", "protocol", c)
                continue
            kind, value = H.read_stdin(c)
            want = H.expected_mode(c, value) if kind == "ok" else None
            if v[0] in H.MODES:
                out.count("mode", v[0])
                if want is not None and v[0] != want:
                    bad(f"answered in {v[0]} format, expected {want} (flags {c.flags}, env {c.env})", "wrong-mode", c)
                items = H.parse_stdout(c.out)
                errs = H.host_schema_errors(v[0], items[0][1])
                if errs:
                    bad(f"{v[0]} envelope does not conform: {errs}", "schema", c)
                # the Coq readers agree with the Python readers on this real output
                dm = hm.model.call(["hook_decode", v[0], H.jsx(items[0][1])])
                cm = hm.model.call(["hook_conforms", v[0], H.jsx(items[0][1])])
                if dm != [[v[1], v[2]]] or (cm == "1") != (not errs):
                    out.disagreements.append({"correspondence": "Hook.decode/conforms <-> host readers", "model": [dm, cm],
                                              "impl": [v, errs], **H.describe(c, sc)})
            if getattr(c, "want_verdict", None) is not None:
                got = v[1] if v[0] in H.MODES else v[0]
                out.count("cwd_placement", c.label.split(":")[1] + "->" + str(got))
                if got != c.want_verdict:
                    bad(f"working directory: expected the verdict {c.want_verdict} (cwd = top-level, else tool_input.cwd, else the "
                        f"process's own - whatever the mode), got {v} under flags {c.flags} env {c.env}", "cwd-depends-on-mode", c)
            # mode selection never influences the verdict: compare with the same stdin without flags / env
            if (c.flags or c.env) and (c.data, c.user_cfg, c.proj_cfg, c.env_cfg) in baseline:
                base = baseline[(c.data, c.user_cfg, c.proj_cfg, c.env_cfg)]
                mine = v[1:] if v[0] in H.MODES else v
                if mine != base:
                    shape_mode = H.expected_mode(H.Case(c.data), value)
                    sig = "forced-mode-shape-mismatch" if (want != shape_mode and {want, shape_mode} & {"cursor"}) else "mode-changes-verdict"
                    bad(f"verdict {mine} under flags {c.flags} env {c.env}, but {base} without them", sig, c, baseline=str(base))

        # --- oracle 2: the three hosts read the same verdict and reason
        for key, grp in groups:
            vs = [verdict_of(c) for c in grp]
            reads = [(v[1:] if v[0] in H.MODES else v) for v in vs]
            modes = [v[0] for v in vs if v[0] in H.MODES]
            out.count("group_answer", reads[0][0] if reads[0] else "?")
            if any(r != reads[0] for r in reads):
                out.violations.append({"kind": "hosts", "what": f"the hosts read different answers for {key}: {reads}",
                                       "members": [H.describe(c, sc) for c in grp], **H.describe(grp[0], sc),
                                       "signature_text": f"hosts-differ | {key}"})
            elif modes and len(set(modes)) != (3 if len(grp) >= 3 else len(set(modes))):
                out.violations.append({"kind": "hosts", "what": f"the three shapes were not answered in three formats: {modes}",
                                       "members": [H.describe(c, sc) for c in grp], **H.describe(grp[0], sc),
                                       "signature_text": f"formats | {key}"})

        # --- correspondence: model main == process
        for idx, c in enumerate(allc):
            rec = len(xcheck) < 30 and idx % 53 == 0
            try:
                items, rc, tb = hm.main(c, record=rec)
            except lib.ModelError as e:
                out.disagreements.append({"correspondence": "Hook.main <-> bin/dippy-hook", "model": f"error {e}", **H.describe(c, sc)})
                hm.restart()
                continue
            if rec and hm.model.transcript is not None and len(hm.model.transcript) < 40:
                xcheck.append((hm.model.last_request, list(hm.model.transcript), hm.last_raw))
            real = H.canon_items(H.parse_stdout(c.out))
            if not H.same_items(items, H.parse_stdout(c.out)) or rc != c.rc:
                out.disagreements.append({"correspondence": "Hook.main <-> bin/dippy-hook", "model": str(H.canon_items(items)),
                                          "impl": str(real), **H.describe(c, sc)})
        detect_correspondence(hm, out)
        flags_correspondence(hm, out, allc)
        lower_check(out)
    finally:
        if hm:
            hm.close()
        sc.close()
    xcheck = xcheck + getattr(out, "xview", [])[:8]
    n, mism = core.coq_crosscheck("C12", xcheck)
    out.extra["coq_vm_crosscheck"] = {"cases": n, "mismatches": len(mism)}
    if mism:
        out.disagreements.append({"correspondence": "extracted OCaml model <-> vm_compute in Coq", "detail": mism[:5]})
    out.extra["rule"] = (
        "real subprocess runs. groups: 15 commands of every verdict class (safe list, handler, ask, unknown, deny rule, allow rule, "
        "parse error, empty, pipeline, redirect, surrogate, non-ASCII) + bypass / config-error / PostToolUse / non-str command / cwd "
        "variants, each submitted in the Claude, Cursor and Gemini (all 4 aliases) shapes, auto-detected, with the host's flag and with "
        "its DIPPY_* variable; singles: 8 flag subsets x 3 shapes, 9 values of each DIPPY_* variable x 3 shapes, random full "
        "combinations of flags x 3 variables x 10 values, MCP / other tools under each flag; cwd placement (top level / only in tool_input / "
        "both, different / empty or null top + tool_input / absent) x 3 shapes x {auto, 3 flags, 3 variables} with per-directory project "
        "configs that make the verdict depend on the directory used; field placement (harness/hookplace.py): tool_name / command / "
        "tool_input / cwd keys x decoy values x place (tool_input, deeper, tool_response, other object, array, nested copy, near-miss "
        "spellings, duplicate member) x top-level state x {claude, gemini, cursor, mcp} x {auto, 3 flags, 3 variables}, in-process with "
        "confirmation by real processes, plus a pairwise-covering sample as real processes. distinct = distinct (stdin, flags, env, "
        "config); non-trivial = a group member or a run with a flag / variable set")
    return out


def detect_correspondence(hm, out):
    """detect_mode_from_input (model) == dippy.dippy._detect_mode_from_input over the JSON type grid (in-process)."""
    import logging

    import dippy.dippy as D

    logging.disable(logging.CRITICAL)   # _detect_mode_from_input warns about unknown tool names
    n = 0
    vals = [v for _, v in g.TYPES if v is not g.MISSING] + ["Bash", "shell", "run_shell", "run_shell_command", "execute_shell", "mcp__a", "Read", "command", "tool_name"]
    tops = list(vals) + [["command"], ["command", "tool_name"], "a command", "command tool_name"]
    for tn in [g.MISSING] + vals:
        for cmd in (g.MISSING, "ls", None):
            d = {}
            if tn is not g.MISSING:
                d["tool_name"] = tn
            if cmd is not g.MISSING:
                d["command"] = cmd
            tops.append(d)
    for v in tops:
        try:
            impl = ["ok", D._detect_mode_from_input(v)]
        except Exception as e:  # noqa: BLE001
            impl = ["raise", H.exc_name(e)]
        mod = hm.model.call(["hook_detect", H.jsx(v)])
        n += 1
        out.case(["detect", json.dumps(v, sort_keys=True)])
        if mod != impl:
            out.disagreements.append({"correspondence": "Hook.detect_mode_from_input <-> _detect_mode_from_input",
                                      "input": json.dumps(v), "model": mod, "impl": impl})
    out.count("in_process", "detect_mode_from_input")
    out.extra["detect_cases"] = n


def flags_correspondence(hm, out, cases):
    """detect_mode_from_flags (model) == the restated precedence rule on every (flags, env) that was run."""
    seen = set()
    for c in cases:
        k = (c.flags, tuple(sorted(c.env.items())))
        if k in seen:
            continue
        seen.add(k)
        envs = [lib.opt(c.env.get(f"DIPPY_{m.upper()}")) for m in H.MODES]
        mod = hm.model.call(["hook_flags", ["dippy-hook", *c.flags], *envs])
        want = None
        for m in H.MODES:
            if f"--{m}" in c.flags or H.truthy_env(c.env.get(f"DIPPY_{m.upper()}")):
                want = m
                break
        if mod != ([want] if want else []):
            out.disagreements.append({"correspondence": "Hook.detect_mode_from_flags <-> precedence rule", "flags": c.flags,
                                      "env": c.env, "model": mod, "impl": want})
    out.extra["flag_env_combinations"] = len(seen)


def lower_check(out):
    """The model lowers ASCII only: no other character may lower into a character of ENV_TRUTHY."""
    import sys

    target = set("1trueyes")
    odd = [hex(cp) for cp in range(128, sys.maxunicode + 1) if set(chr(cp).lower()) & target]
    out.extra["non_ascii_lowering_into_truthy"] = odd
    if odd:
        out.disagreements.append({"correspondence": "Hook.lower <-> str.lower on ENV_TRUTHY", "code_points": odd[:10]})
