"""Function-level ties for dippy/core/config.py (C11): every pure helper of the config-text parser that
Model/ConfigText.v mirrors is compared with its Gallina counterpart (entry `cfg_fn` of Entry/ConfigTextE.v, batched) on

  * ALL token sequences up to a length over a token alphabet taken from the helper's own source (every literal it
    compares against, a near-miss of each, one neutral token), and
  * a random stream of longer sequences over the same alphabet.

The text-level streams of harness/c11.py reach these helpers only through the lines their generators build; a change
confined to one helper (a scan that stops one character early, a forgotten escape, a boundary of the backslash
count, a setting name spelled another way) shows here on an input a few tokens long.  `run_ties` returns the
differing inputs so that harness/c11.py can turn them into config lines / rule values and look for a failure of
the PROPERTY (locality, round trip); a difference alone is a broken correspondence."""
from __future__ import annotations

import itertools

from . import cfgtext as ct
from . import lib

BATCH = 1500
BS, DQ = "\\", '"'


def _exn(e):
    return ["exn", type(e).__name__]


def impl_unescape(cfg, s):
    return cfg._unescape(s)


def impl_extract(cfg, s):
    try:
        p, m = cfg._extract_message(s)
    except Exception as e:  # noqa: BLE001
        return _exn(e)
    return ["ok", [p, lib.opt(m)]]


def impl_anchor(cfg, s):
    p, ex = cfg._strip_exact_anchor(s)
    return [p, bool(ex)]


def impl_classify(cfg, s):
    return cfg._classify_token(s)


def impl_tildes(cfg, s):
    try:
        return ["ok", cfg._expand_pattern_tildes(s)]
    except Exception as e:  # noqa: BLE001
        return _exn(e)


def _effect_of_settings(d):
    if len(d) != 1:
        return ["?", sorted(d)]
    (k, v), = d.items()
    if k == "log_full":
        return ["set", "log_full"] if v is True else ["?", repr(v)]
    return ["set", k, str(v)]


def impl_setting(cfg, s):
    d = {}
    try:
        cfg._apply_setting(d, s)
    except Exception as e:  # noqa: BLE001
        return _exn(e)
    return ["ok", _effect_of_settings(d)]


def impl_line(cfg, s):
    """One line through the real parse_config, as the single effect it has (None: blank, comment, rejected)."""
    try:
        c = cfg.parse_config(s)
        eff = []
        for lst in ct.LISTS:
            for r in getattr(c, lst):
                eff.append(["rule", lst, [r.decision, r.pattern, lib.opt(r.message), bool(r.exact)]])
        for k, v in c.aliases.items():
            eff.append(["alias", k, v])
        if c.default != "ask":
            eff.append(["set", "default", c.default])
        if c.log is not None:
            eff.append(["set", "log", str(c.log)])
        if c.log_full:
            eff.append(["set", "log_full"])
        if not eff and cfg.parse_config("set default allow\n" + s).default == "ask":
            eff.append(["set", "default", "ask"])      # invisible in a Config on its own
    except Exception as e:  # noqa: BLE001
        return _exn(e)
    if len(eff) > 1:
        return ["?", eff]
    return ["ok", lib.opt(eff[0] if eff else None)]


TIES = {
    # name: (implementation, python function, tokens, (quick, thorough) exhaustive length, (quick, thorough) random cases)
    "unescape": ("_unescape", impl_unescape, [BS, DQ, "'", "n", "t", "r", "0", "x", "u", "a", " "], (5, 6), (3000, 60000)),
    # (compound tokens - an opened message, every two-character escape - keep the witnesses of escape handling short)
    "extract": ("_extract_message", impl_extract, [DQ, BS, " ", "\t", "\x1f", "\u200b", "a", "|", "n", "t", 'a "', BS + BS, BS + DQ, BS + "n", BS + "t", BS + "a"],
                (4, 5), (6000, 100000)),
    "anchor": ("_strip_exact_anchor", impl_anchor, ["|", " ", "\t", "\u3000", "a", BS, DQ], (5, 6), (2000, 40000)),
    "classify": ("_classify_token", impl_classify, ["://", ":/", ":", "$", "/", "~", ".", "..", "a", " "], (5, 6), (3000, 60000)),
    "tildes": ("_expand_pattern_tildes", impl_tildes, ["~", "~/", "/", " ", "\t", "\u3000", "a", "://", "$", "~u"], (4, 5),
               (3000, 60000)),
    "setting": ("_apply_setting", impl_setting, ["log", "log-full", "log_full", "LOG", "full", "default", "allow", "ask", "deny", " ",
                                                 "\t", "-", "_", "x", "~/", "~nosuchuser-dippy/"], (3, 4), (4000, 80000)),
    "line": ("parse_config (one line)", impl_line, ["deny", "allow", "ask", "after-mcp", "allow-redirect", "alias", "set", "log-full",
                                                     "default", " ", "\t", "x", DQ, "|", BS, "#", "~/", "-mcp"], (3, 4), (5000, 100000)),
}


def sequences(tokens, upto):
    for n in range(0, upto + 1):
        for tup in itertools.product(tokens, repeat=n):
            yield "".join(tup)


def run_ties(out, model, cfg, home, tier, rng, names=None):
    """cfg: the module dippy.core.config; home: the HOME in force (ct.home_env).  -> {name: [differing inputs]}"""
    thorough = tier == "thorough"
    diffs = {}
    for name in names or TIES:
        attr, f, tokens, lens, nrand = TIES[name]
        if name != "line" and not hasattr(cfg, attr):
            out.disagreements.append({"correspondence": f"ConfigText.{name} <-> config.{attr}",
                                      "detail": "the implementation has no such function any more"})
            continue
        seen, inputs = set(), []
        for s in sequences(tokens, lens[1] if thorough else lens[0]):
            if s not in seen:
                seen.add(s)
                inputs.append(s)
        n_ex = len(inputs)
        for _ in range(nrand[1] if thorough else nrand[0]):
            s = "".join(rng.choice(tokens) for _ in range(rng.randint(lens[0] + 1, lens[0] + 9)))
            if s not in seen:
                seen.add(s)
                inputs.append(s)
        bad = 0
        for i in range(0, len(inputs), BATCH):
            chunk = inputs[i:i + BATCH]
            mv = model.call(["cfg_fn", name, lib.opt(home), chunk], ct.ORACLES)
            if not isinstance(mv, list) or len(mv) != len(chunk):
                out.disagreements.append({"correspondence": f"ConfigText.{name} <-> config.{attr}", "detail": f"model answered {str(mv)[:200]}"})
                break
            for s, m in zip(chunk, mv):
                try:
                    iv = ct.norm(f(cfg, s))
                except Exception as e:  # noqa: BLE001 - the model is total; an exception of a total helper is a difference
                    iv = f"exception {type(e).__name__}"
                if m != iv:
                    bad += 1
                    if len(diffs.setdefault(name, [])) < 200:
                        diffs[name].append(s)
                    if bad <= 3:
                        out.disagreements.append({"correspondence": f"ConfigText.{name} <-> config.{attr}", "input": s, "model": m, "impl": iv})
        out.evaluations += len(inputs)
        out.dist.setdefault("function_tie", {})[name] = len(inputs)
        out.extra.setdefault("function_ties", {})[name] = {
            "implementation": f"dippy.core.config.{attr}", "alphabet": tokens, "exhaustive_up_to_tokens": lens[1] if thorough else lens[0],
            "exhaustive_cases": n_ex, "random_cases": len(inputs) - n_ex, "differences": bad}
    return diffs
