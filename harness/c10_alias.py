"""C10, second stream - IDENTITY AND ALIASING of the layer files.

The three layer locations (~/.dippy/config, the nearest .dippy, $DIPPY_CONFIG) are NAMES.  On a real filesystem two
of them - or all three - may name the same file: directly, through an absolute / relative / chained symlink, a hard
link, `..`, `.`, `//` components, `~`, a relative path, a symlinked directory on the way (and `..` after it), or be two
files with the same bytes; the thing named may be a regular file, a directory, a dangling link, a link loop, or
unreadable; the project file may sit at any ancestor level (also above HOME / above the tree), with a shadowed
.dippy further up.  All of that is crossed with layer texts in which the ORDER of the layers decides every probe.

Oracle (model-free, generator-free): a five-line bash script reads the layers the way the property words it -
`[ -f ~/.dippy/config ] && cat`, walk up from `pwd -P` to the first `[ -f $d/.dippy ]`, `[ -f $DIPPY_CONFIG ] && cat` -
and the hook run on the real layout must answer every probe exactly as a run whose ONLY configuration is one user
file holding those three texts in that order (a file named by two layers contributes its text twice).
Correspondence: Model/Layers.load_config_fs on the filesystem as MEASURED (os.stat: device:inode per name; content per
inode), so identity is an input of the model, not something the harness resolves for it.
"""
from __future__ import annotations

import itertools
import json
import os
import pathlib
import shutil
import stat
import subprocess

from . import c10 as base
from . import lib

USER_REAL = ["own", "absent", "sym-P", "hard-P", "copy-P", "sym-E", "sym-FAR", "dotdir-sym", "home-sym", "dir", "dangling",
             "noread"]
PROJ_REAL = ["own", "none", "sym-U", "relsym-U", "hard-U", "copy-U", "sym-E", "hard-E", "sym-FAR", "relsym-FAR", "dir",
             "dangling", "loop-U"]
ENV_TARGET = ["none", "E", "U", "P", "FAR"]
SPELL = ["abs", "sym", "relsym", "sym2", "rel", "tilde", "dotdot", "dot", "dslash", "hard", "dirsym", "dirsym-dotdot", "copy",
         "trailing-slash"]
PLEVEL = [0, 1, 2, 3, "up", "top"]
LOC = ["outside", "under-home", "in-dotdir"]
CWD = ["direct/json", "direct/tool_input", "direct/process", "link/json", "link-mid/json", "link/process"]
PERMS = [list(p) for p in itertools.permutations(base.DECISIONS)]
MARKER = ["none", "git-dir-at-cwd", "git-file-below-P"]
DEPTH = 4
DIMS = {"user": USER_REAL, "proj": PROJ_REAL, "target": ENV_TARGET, "spell": SPELL, "plevel": PLEVEL, "loc": LOC, "cwd": CWD,
        "perm": list(range(len(PERMS))), "logs": [False, True], "far": [True, False], "marker": MARKER}

LAYERS_SH = r'''
out=$1; ucfg=$2; cwd=$3; envname=$4
rd() { if [ -f "$1" ]; then printf '%s\n' "$1" > "$2.path"; cat -- "$1" > "$2" 2>/dev/null || : > "$2.err"; fi; }
rd "$ucfg" "$out/u"
( cd -- "$cwd" 2>/dev/null || exit 0
  d=$(pwd -P)
  while :; do
    if [ -f "$d/.dippy" ]; then rd "$d/.dippy" "$out/p"; break; fi
    [ "$d" = / ] && break
    d=$(dirname -- "$d")
  done )
case $envname in
  '') ;;
  '~'|'~/'*) eval "e=$envname"; rd "$e" "$out/e" ;;
  *) rd "$envname" "$out/e" ;;
esac
'''


# ------------------------------------------------------------------------------------------------ generation
def pairwise(rng, dims, seeds=(), tries=40):
    """Greedy all-pairs cover: every pair of values of every two dimensions occurs in some row."""
    names = list(dims)
    need = set()
    for a, b in itertools.combinations(names, 2):
        for x in dims[a]:
            for y in dims[b]:
                need.add((a, x, b, y))
    rows = []

    def pairs_of(row):
        return {(a, row[a], b, row[b]) for a, b in itertools.combinations(names, 2)}

    for row in seeds:
        rows.append(row)
        need -= pairs_of(row)
    while need:
        a, x, b, y = min(need, key=repr) if rng.random() < 0.5 else rng.choice(sorted(need, key=repr))
        best, best_n = None, -1
        for _ in range(tries):
            row = {n: rng.choice(dims[n]) for n in names}
            row[a], row[b] = x, y
            n = len(pairs_of(row) & need)
            if n > best_n:
                best, best_n = row, n
        rows.append(best)
        need -= pairs_of(best)
    return rows


def core_rows():
    """The product that must be there whatever the pair cover draws: which file $DIPPY_CONFIG names x how it is spelled,
    with a plain user file and a plain project file one level up whose opinions differ."""
    rows = []
    k = 0
    for t in ENV_TARGET:
        for s in (SPELL if t != "none" else ["abs"]):
            rows.append({"user": "own", "proj": "own", "target": t, "spell": s, "plevel": 1 + k % 2, "loc": LOC[k % 3],
                         "cwd": CWD[k % len(CWD)], "perm": k % len(PERMS), "logs": k % 4 == 0, "far": True, "marker": "none"})
            k += 1
    # where the nearest project file sits x where the tree is, nothing shadowing or shadowed above it
    for lv in PLEVEL:
        for loc in LOC:
            rows.append({"user": "own", "proj": "own", "target": ENV_TARGET[k % len(ENV_TARGET)], "spell": SPELL[k % len(SPELL)],
                         "plevel": lv, "loc": loc, "cwd": CWD[k % len(CWD)], "perm": k % len(PERMS), "logs": False, "far": False,
                         "marker": MARKER[k % len(MARKER)]})
            k += 1
    return rows


def systematic(rng, quick=True):
    rows = core_rows()
    if quick:
        dims = dict(DIMS)
        dims.pop("logs"), dims.pop("far"), dims.pop("marker")
        extra = pairwise(rng, dims, seeds=[{k: r[k] for k in dims} for r in rows])[len(rows):]
        for i, r in enumerate(extra):
            r.update(logs=i % 5 == 0, far=i % 3 != 0, marker=MARKER[i % len(MARKER)])
        rows += extra
    else:
        rows += pairwise(rng, DIMS, seeds=rows)[len(rows):]
    return rows


def rand_row(rng):
    return {n: rng.choice(v) for n, v in DIMS.items()}


def mk_aspec(tx, i, row):
    perm = PERMS[row["perm"]]
    log = lambda who: (f"set log {tx.gen_logs}/{who}.log\n" if row["logs"] else "")  # noqa: E731
    return {"alias": True, "id": i, **row,
            "texts": {"U": tx.layer(None, "u", "U", perm[0], True) + log("u"),
                      "P": tx.layer(None, "p", "P", perm[1], True) + log("p"),
                      "E": tx.layer(None, "e", "E", perm[2], True) + log("e"),
                      "FAR": tx.layer(None, "p", "FAR", perm[2], True) + log("far")}}


# ------------------------------------------------------------------------------------------------ building
def _rm(p):
    if os.path.islink(p) or os.path.isfile(p):
        os.remove(p)
    elif os.path.isdir(p):
        os.chmod(p, 0o755)
        shutil.rmtree(p)


def _relsym(target, link):
    os.symlink(os.path.relpath(target, os.path.dirname(link)), link)


def _hard_or_sym(src, dst, counts):
    _rm(dst)
    try:
        if os.path.isfile(src):
            os.link(src, dst)
            return
    except OSError:
        pass
    counts.append("hard-link impossible, symlink instead")
    os.symlink(src, dst)


def _copy_or(src, dst, fallback_text, counts):
    try:
        if os.path.isfile(src):
            with open(src, "rb") as f:
                data = f.read()
            _rm(dst)
            with open(dst, "wb") as f:
                f.write(data)
            return
    except OSError:
        pass
    counts.append("nothing to copy, own text instead")
    _rm(dst)
    base.write(dst, fallback_text)


def build(world, a):
    """Create the layout.  Returns dict(home, cwd, via, pcwd, envv, cleanup, notes)."""
    i = a["id"]
    root = world.root
    T = a["texts"]
    notes, cleanup = [], []
    base.reset_home(world)
    for extra in os.listdir(world.home):
        if extra.startswith("al"):
            _rm(os.path.join(world.home, extra))
    home = world.home
    hook_home = home
    if a["user"] == "home-sym":
        hook_home = os.path.join(root, "homelink")
        if not os.path.islink(hook_home):
            os.symlink(home, hook_home)
    store = os.path.join(root, "store")
    dot = os.path.join(home, ".dippy")
    if a["user"] == "dotdir-sym":
        ud = os.path.join(store, f"ud{i}")
        os.makedirs(ud)
        os.symlink(ud, dot)
    else:
        os.makedirs(dot)
    ucfg = os.path.join(dot, "config")
    # ---- tree
    tbase = {"outside": os.path.join(root, "trees", f"a{i}"), "under-home": os.path.join(home, "trees", f"a{i}"),
             "in-dotdir": os.path.join(dot, f"a{i}")}[a["loc"]]
    dirs = [tbase]
    for k in range(1, DEPTH + 1):
        dirs.append(os.path.join(dirs[-1], f"L{k}"))
    os.makedirs(dirs[-1])
    level_dir = lambda lv: dirs[DEPTH - lv]  # noqa: E731   level 0 = cwd, level DEPTH = tbase
    if a["plevel"] in ("up", "top"):         # directly above the tree / at the top of the scratch world (above HOME too)
        pdir = os.path.dirname(tbase) if a["plevel"] == "up" else root
        cleanup.append(os.path.join(pdir, ".dippy"))
    else:
        pdir = level_dir(a["plevel"])
    ppath = os.path.join(pdir, ".dippy")
    farpath = os.path.join(tbase, ".dippy")
    epath = os.path.join(root, "envs", f"ae{i}")
    if a["marker"] == "git-dir-at-cwd":
        os.makedirs(os.path.join(dirs[-1], ".git"))
    elif a["marker"] == "git-file-below-P" and a["plevel"] not in (0, "up", "top"):
        base.write(os.path.join(level_dir(a["plevel"] - 1), ".git"), "gitdir: elsewhere\n")
    # ---- pass 1: the files that are their own
    base.write(epath, T["E"])
    if a["far"] and farpath != ppath:
        base.write(farpath, T["FAR"])
    if a["user"] in ("own", "dotdir-sym", "home-sym"):
        base.write(ucfg, T["U"])
    elif a["user"] == "noread":
        base.write(ucfg, T["U"])
        os.chmod(ucfg, 0)
        world.locked.append(ucfg)
    elif a["user"] == "dir":
        os.makedirs(ucfg)
    if a["proj"] == "own":
        _rm(ppath)
        base.write(ppath, T["P"])
    elif a["proj"] == "dir":
        _rm(ppath)
        os.makedirs(ppath)
    # ---- pass 2: symbolic links (may dangle or loop: that is part of the space)
    sym_user = {"sym-P": ppath, "sym-E": epath, "sym-FAR": farpath, "dangling": os.path.join(store, f"nothing-au{i}")}
    if a["user"] in sym_user:
        os.symlink(sym_user[a["user"]], ucfg)
    sym_proj = {"sym-U": ucfg, "sym-E": epath, "sym-FAR": farpath, "dangling": os.path.join(store, f"nothing-ap{i}"), "loop-U": ucfg}
    if a["proj"] in sym_proj and not (a["proj"] == "sym-FAR" and farpath == ppath):
        _rm(ppath)
        os.symlink(sym_proj[a["proj"]], ppath)
    elif a["proj"] in ("relsym-U", "relsym-FAR") and not (a["proj"] == "relsym-FAR" and farpath == ppath):
        _rm(ppath)
        _relsym(ucfg if a["proj"] == "relsym-U" else farpath, ppath)
    if a["proj"] == "loop-U" and a["user"] not in sym_user:      # make it a real loop: user -> project -> user
        _rm(ucfg)
        os.symlink(ppath, ucfg)
    # ---- pass 3: hard links and copies (of whatever the source is by now)
    if a["user"] == "hard-P":
        _hard_or_sym(ppath, ucfg, notes)
    elif a["user"] == "copy-P":
        _copy_or(ppath, ucfg, T["U"], notes)
    if a["proj"] in ("hard-U", "hard-E"):
        _rm(ppath)
        _hard_or_sym(ucfg if a["proj"] == "hard-U" else epath, ppath, notes)
    elif a["proj"] == "copy-U":
        _rm(ppath)
        _copy_or(ucfg, ppath, T["P"], notes)
    # ---- the cwd as handed to the hook
    mode, via = a["cwd"].split("/")
    real_cwd = dirs[-1]
    cwd = real_cwd
    if mode != "direct":
        ld = os.path.join(root, "links", f"ad{i}")
        os.makedirs(ld)
        base.write(os.path.join(ld, ".dippy"), 'deny zap "DECOY"\ndeny p_only "DECOY"\nafter pafter "DECOY"\nalias myz t_deny\n')
        if mode == "link":
            os.symlink(real_cwd, os.path.join(ld, "cwd"))
            cwd = os.path.join(ld, "cwd")
        else:
            os.symlink(dirs[DEPTH - 1], os.path.join(ld, "mid"))
            cwd = os.path.join(ld, "mid", f"L{DEPTH}")
    if a["spell"] == "rel" and via == "process":
        via = "json"
    pcwd = cwd if via == "process" else os.path.join(root, "procwd")
    # ---- $DIPPY_CONFIG
    envv = None
    if a["target"] != "none":
        t = {"E": epath, "U": os.path.join(hook_home, ".dippy", "config"), "P": ppath, "FAR": farpath}[a["target"]]
        d, b = os.path.dirname(t), os.path.basename(t)
        links = os.path.join(root, "links")
        sp = a["spell"]
        if sp == "abs":
            envv = t
        elif sp == "sym":
            envv = os.path.join(links, f"as{i}")
            os.symlink(t, envv)
        elif sp == "relsym":
            envv = os.path.join(links, f"ar{i}")
            _relsym(t, envv)
        elif sp == "sym2":
            mid = os.path.join(links, f"am{i}")
            os.symlink(t, mid)
            envv = os.path.join(links, f"as{i}")
            _relsym(mid, envv)
        elif sp == "rel":
            envv = os.path.relpath(t, os.path.realpath(pcwd))
        elif sp == "tilde":
            if t.startswith(hook_home + "/"):
                envv = "~/" + os.path.relpath(t, hook_home)
            else:
                os.symlink(t, os.path.join(home, f"al{i}"))
                envv = f"~/al{i}"
        elif sp == "dotdot":
            envv = os.path.join(d, "..", os.path.basename(d), b)
        elif sp == "dot":
            envv = os.path.join(d, ".", b)
        elif sp == "dslash":
            envv = d + "//" + b
        elif sp == "hard":
            envv = os.path.join(root, "envs", f"ah{i}")
            _hard_or_sym(t, envv, notes)
        elif sp == "dirsym":
            os.symlink(d, os.path.join(links, f"aD{i}"))
            envv = os.path.join(links, f"aD{i}", b)
        elif sp == "dirsym-dotdot":
            os.symlink(d, os.path.join(links, f"aD{i}"))
            envv = os.path.join(links, f"aD{i}", "..", os.path.basename(os.path.realpath(d)), b)
        elif sp == "copy":
            envv = os.path.join(root, "envs", f"ac{i}")
            _copy_or(t, envv, T["E"], notes)
        elif sp == "trailing-slash":
            envv = t + "/"
    return {"home": hook_home, "cwd": cwd, "real_cwd": real_cwd, "via": via, "pcwd": pcwd, "envv": envv, "cleanup": cleanup,
            "notes": notes, "ucfg": os.path.join(hook_home, ".dippy", "config")}


# ------------------------------------------------------------------------------------------------ ground truth and measurement
def pathlib_name(envv):
    """$DIPPY_CONFIG is read as a pathlib path: trailing slashes are not part of the name."""
    if envv and len(envv) > 1 and envv.strip("/"):
        return envv.rstrip("/")
    return envv


def bash_layers(world, b, i):
    """The three layer texts as bash reads them (None = that layer names no regular file).  -> (texts, paths, errs)"""
    out = os.path.join(world.root, "store", f"gt{i}")
    os.makedirs(out)
    env = {"HOME": b["home"], "PATH": "/usr/bin:/bin"}
    subprocess.run(world.pre() + ["bash", "-c", LAYERS_SH, "layers", out, b["ucfg"], b["cwd"], pathlib_name(b["envv"]) or ""],
                   env=env, cwd=b["pcwd"], timeout=60, capture_output=True)
    texts, paths, errs = [], [], []
    for k in "upe":
        f = os.path.join(out, k)
        if os.path.exists(f + ".err"):
            errs.append(k)
        if os.path.exists(f + ".path"):
            with open(f, encoding="utf-8", newline="") as fh:
                texts.append(fh.read())
            with open(f + ".path") as fh:
                paths.append(fh.read().rstrip("\n"))
        else:
            texts.append(None)
            paths.append(None)
    shutil.rmtree(out)
    return texts, paths, errs


def expand_name(envv, home):
    """What Path(envv).expanduser() is, as a string usable with os.stat from the process cwd."""
    n = pathlib_name(envv)
    if n == "~":
        n = home
    elif n.startswith("~/"):
        n = home + "/" + n[2:].lstrip("/")
    return str(pathlib.PurePosixPath(n))          # `//` and `.` components are not part of a pathlib name either


def measure(names, pcwd):
    """os.stat every name: -> (stats wire, inodes wire).  Identity is what the kernel says, not what the generator meant."""
    stats, inodes = [], {}
    for n in names:
        full = n if os.path.isabs(n) else os.path.join(pcwd, n)
        try:
            st = os.stat(full)
        except PermissionError:
            stats.append([n, ["denied"]])
            continue
        except OSError:
            stats.append([n, ["none"]])
            continue
        ino = f"{st.st_dev}:{st.st_ino}"
        stats.append([n, ["ino", ino]])
        if ino in inodes:
            continue
        if stat.S_ISREG(st.st_mode) and not st.st_mode & 0o400:
            inodes[ino] = ["reg", ["perm"]]         # the hook runs without CAP_DAC_OVERRIDE: owner without the read bit
        elif stat.S_ISREG(st.st_mode):
            try:
                with open(full, encoding="utf-8", newline="") as f:
                    inodes[ino] = ["reg", ["text", f.read()]]
            except PermissionError:
                inodes[ino] = ["reg", ["perm"]]
            except UnicodeDecodeError:
                inodes[ino] = ["reg", ["decode"]]
            except OSError:
                inodes[ino] = ["reg", ["oserr"]]
        elif stat.S_ISDIR(st.st_mode):
            inodes[ino] = ["dir"]
        else:
            inodes[ino] = ["special"]
    return stats, [[k, v] for k, v in inodes.items()]


def identity(paths, pcwd):
    """Which of the layers bash found are one and the same file."""
    paths = [p and os.path.join(pcwd, p) for p in paths]
    tags = [k for k, p in zip("upe", paths) if p]
    groups = []
    for k, p in zip("upe", paths):
        if not p:
            continue
        for g in groups:
            try:
                if os.path.samefile(g[0][1], p):
                    g.append((k, p))
                    break
            except OSError:
                pass
        else:
            groups.append([(k, p)])
    same = ["=".join(k for k, _ in g) for g in groups if len(g) > 1]
    return (",".join(same) if same else "all distinct") + f" ({''.join(tags) or 'no layer'})"


# ------------------------------------------------------------------------------------------------ one case
def check_alias(world, model, out, aspec, line_cache, xcheck):
    raw = aspec
    a = base.subst(aspec, world.root)
    b = build(world, a)
    try:
        return _check(world, model, out, raw, a, b, line_cache, xcheck)
    finally:
        for p in b["cleanup"]:
            _rm(p)


def _check(world, model, out, raw, a, b, line_cache, xcheck):
    texts, paths, errs = bash_layers(world, b, a["id"])
    ident = identity(paths, b["pcwd"])
    rec = {"aspec": raw, "HOME": b["home"], "cwd": b["cwd"], "cwd_via": b["via"], "DIPPY_CONFIG": b["envv"],
           "layer_files_as_bash_finds_them": paths, "identity": ident, "builder_notes": b["notes"]}
    present = "".join(k for k, t in zip("upe", texts) if t is not None)
    out.case(["alias", {k: v for k, v in raw.items() if k not in ("id", "hook")}], nontrivial=len(present) >= 2)
    out.count("alias_identity", ident)
    for dim in ("user", "proj", "target", "spell", "plevel", "loc", "cwd", "marker"):
        out.count("alias_" + dim, a[dim])
    for n in b["notes"]:
        out.count("alias_builder", n)
    # does the ORDER of the layers decide a probe here?  (the cases the stream exists for)
    one = base.cat3(texts)
    via = b["via"]

    def violation(kind, what_text, call_site, **extra):
        out.violations.append({"kind": kind, "what": what_text, "call_site": call_site,
                               "signature_text": f"{call_site} | {what_text}", **rec, **extra})

    # ---------- oracle 1: the hook against the one-file run
    with_log = bool(a["logs"])
    do_hook = a.get("hook", True)
    out.count("alias_oracles", "hook + in-process + model" if do_hook else "in-process + model")
    got, want = {}, {}
    if do_hook:
        got_t = world.submit_vector(b["cwd"], via, b["home"], b["envv"])
        want_t = None if errs else world.submit_concat(one)
        got = dict(got_t())
        want = dict(want_t()) if want_t else None
        if with_log:
            got.update(world.log_probe(b["cwd"], via, b["home"], b["envv"]))
            if want is not None:
                want.update(world.concat_log_probe(one))
    if not do_hook:
        pass
    elif not errs:
        if got != want:
            diff = {k: [got[k], want[k]] for k in got if got[k] != want[k]}
            violation("hook-vs-one-file", f"{ident}: hook != ONE file user+project+env as bash reads them, on {sorted(diff)}",
                      "hook:aliased-layers", layers=texts, differences=diff, concatenated=one)
    else:
        pre = {k: v for k, v in got.items() if not k.startswith("log:files")}
        post = {p.name for p in base.probes(world.tx) if p.event == "PostToolUse"}
        bad = {k: v for k, v in pre.items() if not (v == "decision:ask" or (k in post and v == "silent"))}
        if bad:
            violation("unreadable-layer", f"layer(s) {errs} exist but cannot be read ({ident}): expected ask for every input, got "
                      f"{sorted(set(pre.values()))}", "hook:aliased-unreadable-layer-not-ask", got=got)
    # ---------- oracle 2: the real load_config in-process (the worker's HOME is the real home directory)
    real = world.ask(op="load", cwd=b["cwd"] if via != "process" else b["real_cwd"], env=b["envv"], resolve=True)
    if not errs:
        if "ok" not in real:
            violation("load-vs-one-file", f"load_config failed ({real}) although bash reads every layer", "load_config:aliased-failure",
                      real=real)
        else:
            onecfg = world.ask(op="parse", text=one)["ok"]
            if base.observable(real["ok"]) != base.observable(onecfg):
                violation("load-vs-one-file", f"layer files alias each other ({ident}): observable fields of load_config differ from "
                          "parse_config(user+project+env as bash reads them)", "load_config:aliased-layers-vs-one-file",
                          real=base.observable(real["ok"]), one_file=base.observable(onecfg), concatenated=one)
    elif "configerr" not in real:
        violation("unreadable-layer", f"layer(s) {errs} unreadable: expected ConfigError, got {real}",
                  "load_config:aliased-unreadable-not-configerror", real=real)

    # ---------- correspondence: the model on the measured filesystem
    def line_item(line):
        if line not in line_cache:
            line_cache[line] = world.ask(op="line_item", line=line)["ok"]
        eff = line_cache[line]
        return [eff[0]] if eff else []

    rcwd = os.path.realpath(b["cwd"])
    chain = []
    d = rcwd
    while True:
        chain.append(os.path.join(d, ".dippy"))
        if os.path.dirname(d) == d:
            break
        d = os.path.dirname(d)
    wcfg = os.path.join(world.home, ".dippy", "config")          # USER_CONFIG of the worker
    if b["envv"] is None:
        envn, enames = ["unset"], []
    elif b["envv"] == "":
        envn, enames = ["empty"], []
    else:
        e = expand_name(b["envv"], world.home)
        envn, enames = ["at", e], [e]
    stats, inodes = measure([wcfg] + chain + enames, os.path.join(world.root, "procwd"))
    req = ["load_config_fs", wcfg, chain, envn, stats, inodes]
    do_rec = len(xcheck) < 12 and a["id"] % 7 == 0
    try:
        mres = model.call(req, {"line_item": line_item}, record=do_rec)
        if do_rec and model.transcript is not None and len(model.transcript) < 80:
            xcheck.append((model.last_request, list(model.transcript), mres))
        meff = model.call(["effective_fs", wcfg, chain, envn, stats, inodes], {})
    except lib.ModelError as e:
        out.disagreements.append({"correspondence": "Layers.load_config_fs <-> config.load_config", "model": f"error {e}", **rec})
        return lib.Model()
    mm = {"ok": base.model_cfg(mres[1])} if mres[0] == "ok" else {mres[0]: True}
    rr = {"ok": real["ok"]} if "ok" in real else ({"configerr": True} if "configerr" in real else {"crash": True})
    if mm != rr:
        out.disagreements.append({"correspondence": "Layers.load_config_fs (measured filesystem) <-> config.load_config",
                                  "model": mm, "impl": real, **rec})
    # the model's effective text == what bash read
    want_eff = ["configerr"] if errs else ["ok", one]
    if meff != want_eff:
        out.disagreements.append({"correspondence": "Layers.effective_fs (measured filesystem) <-> layers as bash reads them",
                                  "model": meff, "bash": want_eff, **rec})
    out.sample({"alias case": {k: a[k] for k in ("user", "proj", "target", "spell", "plevel", "loc", "cwd")}, "identity": ident,
                "DIPPY_CONFIG": b["envv"], "hook": {k: v for k, v in got.items() if not k.startswith("log:files")}}, limit=24)
    return model


def order_matters(world, out, quick=True):
    """Self-test of the texts: for every assignment of opinions, user;project;user, project;user, user;project and
    user;project;project - do the probes tell apart exactly what Props/C10 says can be told apart?"""
    bad = []
    for k, perm in enumerate(PERMS):
        if quick and k not in (0, 3):
            continue
        a = mk_aspec(world.tx, 0, {"perm": k, "logs": True})
        t = base.subst(a["texts"], world.root)
        vec = lambda *ts: json.dumps(world.concat_vector("\n".join(ts), True), sort_keys=True)  # noqa: E731
        upu, pu, up, upp = vec(t["U"], t["P"], t["U"]), vec(t["P"], t["U"]), vec(t["U"], t["P"]), vec(t["U"], t["P"], t["P"])
        if upu == up:
            bad.append(f"perm {perm}: user;project;user not told from user;project")
        if up != upp:
            bad.append(f"perm {perm}: user;project;project told from user;project (C10_repeat_adjacent_inert says it cannot)")
        # user;project;user ~ project;user, except for the presence probes
        if upu != pu:
            bad.append(f"perm {perm}: user;project;user told from project;user (C10_repeat_last_counts says it cannot)")
    out.extra["alias_order_selftest"] = {"assignments": 2 if quick else len(PERMS), "problems": bad}
    for x in bad:
        out.disagreements.append({"correspondence": "generator: alias texts vs the repeat algebra of Props/C10", "detail": x})
