"""C04, ladder half: systematic coverage of `_analyze_simple_command` and of the launchers' command operand.

Streams (generators in harness/laddergen.py):
  L  correspondence  Ladder.ladder (Coq, entry `ladder`)  ==  analyzer._analyze_simple_command  on EXHAUSTIVE token
     lists behind every ladder wrapper (alphabets drawn from the wrapper tables) and behind non-wrapper heads;
     Ladder.is_help == analyzer._is_version_or_help on every list of <= 5 tokens over its own literals.
  M  model-free, metamorphic:  verdict(<wrapper form> CMD ARGS) == verdict(CMD ARGS) for the property's plain
     forms, >= for every valid option spelling / two-level nesting / launcher (handler) form - for inner commands
     whose 1st / 2nd / 3rd argument is ANY token the wrapper itself understands.
A launcher form is a valid invocation whose own option parsing ends at the inner command's name (POSIX order:
env, xargs, timeout, nice, docker exec, find -exec ... ;, sh -c STRING), so what really runs is the inner command."""
from __future__ import annotations

import shlex
from pathlib import Path

from . import laddergen as lg
from .walk_oracles import make_ladder_oracles

RANK = {"allow": 0, "ask": 1, "deny": 2}


def q(words):
    return " ".join(shlex.quote(w) for w in words)


class Streams:
    def __init__(self, out, tier, an, cfg, cwd, model, xcheck, violation, correspond=None):
        self.out, self.tier, self.an, self.cfg, self.cwd = out, tier, an, cfg, str(cwd)
        self.model, self.xcheck, self.violation, self.correspond = model, xcheck, violation, correspond
        self.orc = make_ladder_oracles(cfg)
        self.tb = lg.tables()
        self._memo = {}

    # ------------------------------------------------------------------ real code
    def ladder(self, words, remote=False):
        key = (tuple(words), remote)
        if key not in self._memo:
            try:
                self._memo[key] = self.an._analyze_simple_command(list(words), self.cfg, Path(self.cwd), remote=remote).action
            except RecursionError:
                self._memo[key] = "recursion"
        return self._memo[key]

    def analyze(self, text):
        key = ("T", text)
        if key not in self._memo:
            self._memo[key] = self.an.analyze(text, self.cfg, Path(self.cwd)).action
        return self._memo[key]

    # ------------------------------------------------------------------ L: correspondence
    def ladder_correspondence(self, part=0, parts=1):
        out = self.out
        n = 0
        for idx, (label, words) in enumerate(list(lg.wrapper_token_lists(self.tier, self.tb)) + list(lg.head_token_lists(self.tier))):
            if idx % parts != part:
                continue
            for remote in ((False, True) if (label in ("S1", "H") and len(words) <= (2 if self.tier == "quick" else 3)) else (False,)):
                n += 1
                rec = (n % 997 == 0) and len(self.xcheck) < 90
                iv = self.ladder(words, remote)
                mv = self.model.call(["ladder", self.cwd, remote, list(words)], self.orc, record=rec)
                if rec and self.model.transcript is not None and len(self.model.transcript) < 40:
                    self.xcheck.append((self.model.last_request, list(self.model.transcript), mv))
                out.case(["ladder", remote] + list(words), nontrivial=len(words) > 1)
                out.count("ladder-stream", label)
                out.count("ladder-verdict", iv)
                if mv != iv:
                    out.disagreements.append({"correspondence": "Ladder.ladder <-> analyzer._analyze_simple_command (exhaustive token lists)",
                                              "words": list(words), "remote": remote, "model": mv, "impl": iv})
                if n % 4001 == 0:
                    out.sample({"words": list(words), "verdict": iv, "stream": label})
        if part != 0:
            return
        fn = getattr(self.an, "_is_version_or_help", None)
        if fn is None:
            out.count("ladder-stream", "is_help: function gone")
            return
        for toks in lg.help_token_lists():
            iv = bool(fn(list(toks)))
            mv = self.model.call(["is_help", list(toks)])
            out.case(["is_help"] + list(toks), nontrivial=len(toks) > 1)
            out.count("ladder-stream", "is_help")
            if (mv == "1") != iv:
                out.disagreements.append({"correspondence": "Ladder.is_help <-> analyzer._is_version_or_help", "tokens": list(toks), "model": mv, "impl": iv})

    # ------------------------------------------------------------------ M: metamorphic
    def pair(self, kind_exact, site, whole, inner, remote=False, level="words", exact=False):
        """whole / inner: word lists.  level 'text': through analyze() on the shell text (parser, walker)."""
        out = self.out
        if level == "text":
            a, b = self.analyze(q(whole)), self.analyze(q(inner))
            shown = q(whole)
        else:
            a, b = self.ladder(whole), self.ladder(inner, remote)
            shown = q(whole)
        out.case([level, shown], nontrivial=True)
        if "recursion" in (a, b):
            out.count("meta", "recursion")
            return
        info = {"ladder_pair": {"whole": list(whole), "inner": list(inner), "remote": remote, "level": level, "exact": exact, "site": site}}
        if RANK[a] < RANK[b]:
            kind = "allow-launder" if a == "allow" else "deny-downgrade"
            self.violation(kind, site, shown, what=f"{shown!r} is judged {a} but the command it runs, {q(inner)!r}, is judged {b}"
                           + (" (in the container)" if remote else ""), inner=q(inner), **info)
        elif exact and a != b:
            self.violation(kind_exact, site, shown, what=f"plain wrapper form {shown!r} is judged {a}; the wrapped command {q(inner)!r} alone {b} (must be equal)",
                           inner=q(inner), **info)
        elif a != b:
            out.count("meta", "stricter-than-inner")

    def wrapper_metamorphic(self):
        out, tb = self.out, self.tb
        quick = self.tier == "quick"
        # plain forms: exact, at both levels
        for label, pre in lg.PLAIN_FORMS:
            flags = lg._uniq(lg.understood(pre[0], tb) + lg.SPECIAL_FLAGS)
            for ilabel, inner in lg.inner_shapes(flags) + lg.inner_trailing():
                self.pair("exact-plain", label, pre + inner, inner, exact=True)
                if not quick or len(inner) <= 3:
                    self.pair("exact-plain", label, pre + inner, inner, level="text", exact=True)
                out.count("meta", f"plain:{pre[0]}")
        # two plain forms nested, both orders
        for (l1, p1) in lg.PLAIN_FORMS:
            for (l2, p2) in lg.PLAIN_FORMS:
                flags = lg._uniq(["-v", "-V", "-p", "--", "-h"] + tb["with_arg"].get(p1[0], [])[:2] + tb["with_arg"].get(p2[0], [])[:2])
                for ilabel, inner in lg.inner_shapes(flags, cmds=("rm", "zap"), shapes=("1st", "2nd") if quick else ("1st", "1st+x", "2nd", "3rd")):
                    self.pair("exact-plain", f"{l1} / {l2}", p1 + p2 + inner, inner, exact=True)
                    out.count("meta", "plain-nested")
        # every valid option spelling: never more lenient
        for tool, site, pre in lg.option_forms():
            own = tb["with_arg"].get(tool, [])
            flags = lg._uniq(["--", "-v", "-V", "-p", "-h"] + (own[:4] if quick else own) + lg.NOARG.get(tool, [])[:2])
            for ilabel, inner in lg.inner_shapes(flags, cmds=("rm", "zap"), shapes=("1st", "1st+x", "2nd")) + lg.inner_trailing():
                self.pair(None, site, pre + inner, inner)
                out.count("meta", f"options:{tool}")
        # two-level wrappings with launchers
        for label, build in lg.nested_forms():
            for ilabel, inner in lg.inner_shapes(["-v", "-V", "-p", "--", "-h", "-i", "-u", "-n", "-k"], cmds=("rm", "zap"), shapes=("1st", "1st+x", "2nd")):
                self.pair(None, f"nested | {label}", build(inner), inner)
                out.count("meta", "nested")

    def launcher_metamorphic(self):
        out = self.out
        quick = self.tier == "quick"
        n = 0
        for name, spec in lg.launchers().items():
            flags = lg._uniq(spec["flags"] + ["-v", "-h", "--help"])
            shapes = ("1st", "2nd") if quick else ("1st", "1st+x", "2nd", "3rd", "twice")
            cmds = ("rm", "zap") if quick else ("rm", "zap", "ls", "frob")
            for flabel, build in spec["forms"]:
                for ilabel, inner in lg.inner_shapes(flags, cmds=cmds, shapes=shapes) + lg.inner_trailing():
                    whole = build(inner)
                    self.pair(None, f"{name} | {flabel} | inner {ilabel.split('|')[-1].strip()}", whole, inner, remote=spec["remote"])
                    out.count("meta", f"launcher:{name}")
                    n += 1
                    if self.correspond is not None and (not quick or n % 3 == 0):
                        self.correspond(whole, rec=(n % 301 == 0))

    def handler_correspondence(self, part=0, parts=1):
        """Wrappers.v classify / hverdict == the handlers' classify() / the ladder, on exhaustive small-alphabet lists."""
        for idx, toks in enumerate(lg.handler_token_lists(self.tier)):
            if idx % parts != part:
                continue
            self.correspond(toks, rec=(idx % 1501 == 0))
            self.out.case(["handler-tokens"] + toks, nontrivial=len(toks) > 2)
            self.out.count("handler-stream", toks[0])

    def replay(self, p):
        self.pair("exact-plain", p["site"], p["whole"], p["inner"], remote=p.get("remote", False), level=p.get("level", "words"), exact=p.get("exact", False))


# ---------------------------------------------------------------------------------------------- parallel workers
def worker(task):
    """One stream in a forked worker process with its own model co-process.  task = (tier, name, part, parts).
    Returns the pieces of a private Outcome for merge()."""
    from . import c04, core, lib
    from . import c04_gen as g

    import time
    t0 = time.time()
    tier, name, part, parts = task
    lib.use_repo()
    from dippy.cli import HandlerContext, get_handler
    from dippy.core import analyzer as an
    from dippy.core.config import parse_config

    cfg = parse_config(g.CONFIG_TEXT)
    cwd = Path("/tmp")
    out = core.Outcome("C04")
    xcheck = []
    model = lib.Model()

    def mcall(req, rec=False):
        res = model.call(req, {"astr": lambda r, s: an.analyze(s, cfg, cwd, remote=(r == "1")).action}, record=True)
        if rec and len(xcheck) < 20 and len(model.last_request) < 1500:
            xcheck.append((model.last_request, list(model.transcript or []), res))
        return res

    def ladder(argv, remote=False):
        return an._analyze_simple_command(list(argv), cfg, cwd, remote=remote).action

    def violation(kind, site, text, **kw):
        out.violations.append({"kind": kind, "what": kw.pop("what"), "site": site, "text": text, "config": g.CONFIG_TEXT,
                               "signature_text": f"{kind} | {site} :: {text}", **kw})

    try:
        st = Streams(out, tier, an, cfg, cwd, model, xcheck, violation,
                     correspond=lambda toks, rec=False: c04._correspond(out, mcall, get_handler, HandlerContext, toks, cwd, ladder, rec=rec))
        if name == "ladder":
            st.ladder_correspondence(part, parts)
        elif name == "handlers":
            st.handler_correspondence(part, parts)
        elif name == "meta":
            st.wrapper_metamorphic()
            st.launcher_metamorphic()
    finally:
        model.close()
    return {"evaluations": out.evaluations, "distinct": out.distinct, "dist": out.dist, "samples": out.samples, "violations": out.violations,
            "disagreements": out.disagreements, "xcheck": xcheck, "task": f"{name} {part + 1}/{parts}", "seconds": round(time.time() - t0, 1)}


def start(tier):
    """Fork the workers (call BEFORE the caller opens its own model / scratch processes)."""
    import multiprocessing
    from concurrent.futures import ProcessPoolExecutor

    parts = 2 if tier == "quick" else 5
    hparts = 1 if tier == "quick" else 3
    tasks = [(tier, "ladder", k, parts) for k in range(parts)] + [(tier, "meta", 0, 1)] + [(tier, "handlers", k, hparts) for k in range(hparts)]
    ex = ProcessPoolExecutor(max_workers=len(tasks) if tier == "quick" else 4, mp_context=multiprocessing.get_context("fork"))
    return ex, [ex.submit(worker, t) for t in tasks]


def merge(out, xcheck, handle):
    import time
    ex, futures = handle
    t0 = time.time()
    info = out.extra.setdefault("ladder_streams", {"workers": {}})
    try:
        for f in futures:
            r = f.result()
            info["workers"][r["task"]] = {"seconds": r["seconds"], "evaluations": r["evaluations"]}
            info["main_process_waited_seconds"] = round(time.time() - t0, 1)
            out.evaluations += r["evaluations"]
            out.distinct |= r["distinct"]
            for dim, d in r["dist"].items():
                for k, v in d.items():
                    out.dist.setdefault(dim, {})
                    out.dist[dim][k] = out.dist[dim].get(k, 0) + v
            for x in r["samples"][:3]:
                out.sample(x, limit=20)
            out.violations += r["violations"]
            out.disagreements += r["disagreements"]
            xcheck += r["xcheck"][:12]
    finally:
        ex.shutdown()
