"""In-process sweep worker for the hook properties (no change to the repository):

    python hook_sweep_worker.py <REPO> [hook flags...]     (HOME, DIPPY_* and the working directory are the caller's)

does what <REPO>/bin/dippy-hook does up to `from dippy.dippy import main` - so the module-level mode
detection sees the real argv and environment of THIS process - and then calls main() once per job line
instead of once per process.  Jobs: one JSON object per stdin line {"i": n, "stdin": text, "fault": [target, exception]?}; answers: one JSON
line {"i": n, "out": text printed by main(), "exc": class name if main() let something escape}.

Used for the exhaustive field-placement stream (harness/hookplace.py): tens of thousands of payloads cost a
few milliseconds each this way.  Whatever this sweep reports is re-run as a real subprocess of bin/dippy-hook
before it is counted as a violation, so nothing the check reports rests on this wrapper."""
import contextlib
import io
import json
import os
import sys


def serve(repo):
    sys.path.insert(0, repo + "/src")
    sys.path.append(os.path.dirname(os.path.abspath(__file__)))      # for hook_fault (never shadows anything)
    import dippy.dippy as D

    assert D.__file__.startswith(repo), D.__file__
    explicit = D._EXPLICIT_MODE          # computed by the real module-level code from our argv / environment
    start_mode = D.MODE
    real_in, real_out = sys.stdin, sys.stdout
    for line in real_in:
        line = line.strip()
        if not line:
            continue
        job = json.loads(line)
        D.MODE = start_mode                 # a fresh process starts here
        assert D._EXPLICIT_MODE == explicit
        buf = io.StringIO()
        exc = None
        undo = None
        sys.stdin = io.StringIO(job["stdin"])
        try:
            if job.get("fault"):        # one function made to raise for this job only (harness/hook_fault.py)
                import importlib

                import hook_fault
                if ":" in job["fault"][0]:
                    importlib.import_module(job["fault"][0].split(":", 1)[0])
                undo = hook_fault.install(job["fault"][0], job["fault"][1])
            with contextlib.redirect_stdout(buf):
                D.main()
        except BaseException as e:  # noqa: BLE001 - reported, not swallowed
            exc = type(e).__name__
        finally:
            if undo:
                undo()
            sys.stdin = real_in
        real_out.write(json.dumps({"i": job["i"], "out": buf.getvalue(), "exc": exc}) + "\n")
        real_out.flush()


if __name__ == "__main__":
    repo = sys.argv[1]
    sys.argv = [repo + "/bin/dippy-hook"] + sys.argv[2:]
    os.environ.setdefault("PYTHONHASHSEED", "0")
    serve(repo)
