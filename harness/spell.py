"""Spelling families of one file, built by construction (shared by harness/c07.py and harness/c09.py).

A *file* is an absolute, symlink-free, normalised path.  `family(file, cwd, home)` returns every way the
generator knows to write it as one shell word:

  anchor      absolute | cwd-relative (`x`, `.`, `..`, `../x`) | `./`-prefixed | through the absolute cwd
              (`CWD/../x`) | through the parent (`../base/x`) | home-relative (`~`, `~/x`, `~/../h/x`) |
              through a symbolic link of the scratch tree
  decoration  at every `/` of the anchor form: doubled slash, `/./`, a `zz/..` detour through a missing
              name, a `d/..` detour through an existing sub-directory; at the end: `/`, `//`, `/.`
  depth       one decoration everywhere; two decorations (every ordered pair of kinds, positions rotated)

Nothing here looks at the code under test.  Every spelling is validated against the file system
(`os.path.realpath` of the word, joined to cwd, `~` expanded, must be the file): a spelling that fails the
validation is a generator bug and raises.  `pathword(s)` says, again without the code under test, whether
a *command word* spelled `s` is path-shaped at all (bash itself does not care; Dippy documents that a
bare name such as `src` is a name, not a path, in command position)."""
from __future__ import annotations

import os


def pathword(s: str) -> bool:
    return "/" in s or s in (".", "..", "~")


def _segs(p):
    return [x for x in p.split("/") if x]


def anchors(target: str, cwd: str, home: str, links=()):
    """undecorated spellings: list of (anchor name, spelling)"""
    A, C, H = _segs(target), _segs(cwd), _segs(home)
    out = [("abs", "/" + "/".join(A))]
    k = 0
    while k < len(A) and k < len(C) and A[k] == C[k]:
        k += 1
    rel = [".."] * (len(C) - k) + A[k:]
    if len(C) - k <= 3:
        r = "/".join(rel)
        out.append(("rel", r or "."))
        out.append(("dotrel", "./" + r if r else "./."))
        if rel and rel[0] == "..":
            out.append(("cwdabs", "/" + "/".join(C + rel)))
        if C:
            out.append(("parent", "../" + C[-1] + ("/" + r if r else "")))
            out.append(("cwdparent", "/" + "/".join(C) + "/../" + C[-1] + ("/" + r if r else "")))
    if A[:len(H)] == H:
        rest = "/".join(A[len(H):])
        out.append(("home", "~" + ("/" + rest if rest else "")))
        if H:
            out.append(("homeparent", "~/../" + H[-1] + ("/" + rest if rest else "")))
    for link, dest in links:        # link: spelling of a symbolic link (relative to cwd or absolute), dest: where it points
        D = _segs(dest)
        if A[:len(D)] == D and len(A) > len(D):
            out.append(("symlink", link + "/" + "/".join(A[len(D):])))
    seen, res = set(), []
    for n, s in out:
        if s not in seen:
            seen.add(s)
            res.append((n, s))
    return res


def _slashes(s):
    """indexes of the '/' characters at which a decoration is inserted: all of them for short spellings, the
    first, a middle one and the last two for long ones (the absolute prefix of the scratch tree)"""
    idx = [i for i, c in enumerate(s) if c == "/"]
    if len(idx) > 5:
        idx = sorted({idx[0], idx[1], idx[len(idx) // 2], idx[-2], idx[-1]})
    return idx


def _real_dir_of(prefix, cwd, home):
    p = os.path.expanduser(prefix) if prefix.startswith("~") else prefix
    return os.path.realpath(os.path.join(cwd, p or "/"))


def decorate(s: str, cwd: str, home: str, is_dir: bool):
    """one decoration applied to s: list of (decoration name, spelling)"""
    out = []
    for i in _slashes(s):
        pre, post = s[:i], s[i + 1:]
        out.append(("dslash", pre + "//" + post))
        out.append(("dot", pre + "/./" + post))
        out.append(("missing-detour", pre + "/zz/../" + post))
        # a detour through an existing sub-directory of the directory named by the prefix
        d = _real_dir_of(pre if pre else "/", cwd, home)
        try:
            subs = sorted(x for x in os.listdir(d) if os.path.isdir(os.path.join(d, x)) and not os.path.islink(os.path.join(d, x))
                          and not any(c in x for c in "*?[ "))
        except OSError:
            subs = []
        if subs:
            out.append(("dir-detour", pre + "/" + subs[0] + "/../" + post))
    if not s.endswith("/"):
        out.append(("trail-slash", s + "/"))
        out.append(("trail-dslash", s + "//"))
        out.append(("trail-dot", s + "/."))
        if is_dir:
            try:
                subs = sorted(x for x in os.listdir(_real_dir_of(s, cwd, home))
                              if os.path.isdir(os.path.join(_real_dir_of(s, cwd, home), x)) and not os.path.islink(os.path.join(_real_dir_of(s, cwd, home), x))
                              and not any(c in x for c in "*?[ "))
            except OSError:
                subs = []
            out.append(("trail-detour", s + "/" + (subs[0] if subs else "zz") + "/.."))
    return out


class Spelling(str):
    """a str that remembers how it was built"""
    how: str = ""


def _mk(s, how):
    x = Spelling(s)
    x.how = how
    return x


def family(target: str, cwd: str, home: str, links=(), depth: int = 1, cap: int = 0):
    """All spellings of `target` (an absolute normal path).  depth=1: every anchor, every single decoration.
    depth=2: in addition every ordered pair of decoration kinds on every anchor (positions rotated)."""
    is_dir = os.path.isdir(target)
    res, seen = [], set()

    def add(s, how):
        if s in seen:
            return
        real = os.path.realpath(os.path.join(cwd, os.path.expanduser(s) if s.startswith("~") else s))
        if real != (target if target != "" else "/"):
            raise AssertionError(f"spelling generator: {s!r} ({how}) is {real!r}, not {target!r}")
        seen.add(s)
        res.append(_mk(s, how))

    for an, s in anchors(target, cwd, home, links):
        add(s, an)
        firsts = decorate(s, cwd, home, is_dir)
        for dn, t in firsts:
            add(t, f"{an}+{dn}")
        if depth >= 2:
            kinds_done = set()
            for j, (dn, t) in enumerate(firsts):
                seconds = decorate(t, cwd, home, is_dir)
                for k, (dn2, u) in enumerate(seconds):
                    if (dn, dn2) in kinds_done:
                        continue
                    if (j + k) % 3 == 0 or dn != dn2:
                        kinds_done.add((dn, dn2))
                        add(u, f"{an}+{dn}+{dn2}")
    if cap and len(res) > cap:
        res = capped(res, cap)
    return res


def capped(fam, n, offset=0):
    """at most ~n members: every undecorated anchor form, and the decorated ones evenly spaced (offset rotates the choice)"""
    keep = [x for x in fam if "+" not in x.how]
    rest = [x for x in fam if "+" in x.how]
    room = max(0, n - len(keep))
    if room >= len(rest):
        return keep + rest
    step = len(rest) / max(1, room)
    return keep + [rest[(int(i * step) + offset) % len(rest)] for i in range(room)]


def rotations(xs, ys, k=3):
    """pairwise-style cover of xs x ys without the full product: every x with k rotating ys and every y with
    k rotating xs (so each element of either side meets several partners, and each anchor kind meets each)"""
    out, seen = [], set()
    if not xs or not ys:
        return out
    for i, x in enumerate(xs):
        for j in range(k):
            p = (x, ys[(i * 7 + j * 13 + j) % len(ys)])
            if p not in seen:
                seen.add(p)
                out.append(p)
    for i, y in enumerate(ys):
        for j in range(k):
            p = (xs[(i * 11 + j * 5 + 1) % len(xs)], y)
            if p not in seen:
                seen.add(p)
                out.append(p)
    return out


# ---------------------------------------------------------------- placeholders (replay files must not name the random scratch directory)
def unsub(sc, s: str) -> str:
    return sc.unsub(s).replace(os.path.basename(sc.root), "@RN@")


def sub(sc, s: str) -> str:
    return sc.sub(s).replace("@RN@", os.path.basename(sc.root))


def scratch_links(sc):
    """the symbolic links of rules_common.Scratch: (spelling of the link, absolute path it points to)"""
    return [("out/lnsrc", sc.cwd + "/src"), ("./out/lnout", sc.root + "/w/outside"), (sc.root + "/w/links/toout", sc.cwd + "/out")]


def scratch_files(sc):
    """the environment family: (name, absolute path, kind) - cwd, parent, grandparent, home, root, a directory, a regular
    file, a missing file, a file outside cwd, one under home, a system file, a file reachable through a link"""
    return [
        ("cwd", sc.cwd, "dir"), ("parent", os.path.dirname(sc.cwd), "dir"), ("grandparent", sc.root, "dir"), ("home", sc.home, "dir"),
        ("root", "/", "dir"), ("dir", sc.cwd + "/src", "dir"), ("file", sc.cwd + "/src/main.py", "file"),
        ("missing", sc.cwd + "/out/new.log", "missing"), ("topfile", sc.cwd + "/danger", "file"), ("exe", sc.cwd + "/bin/run", "missing"),
        ("outside", sc.root + "/w/outside/secret", "file"), ("homefile", sc.home + "/n/f", "file"), ("homedir", sc.home + "/n", "dir"),
        ("sysfile", "/etc/passwd", "file"), ("linked", sc.cwd + "/out/a", "file"),
    ]


# ---------------------------------------------------------------- one rule whose pattern names files x a command that names files
TEMPLATES = {  # "@0", "@1": slots for spellings; everything else is a neutral word
    "name": ["@0"], "arg1": ["cat", "@0"], "arg2": ["zap", "-a", "@0"], "mid": ["zap", "@0", "backup"], "two": ["zap", "@0", "@1"],
    "arg3": ["zap", "-a", "b", "@0"], "arg5": ["zap", "a", "-b", "c", "d", "@0"], "mid5": ["zap", "a", "b", "@0", "c", "d"],
    "arg8": ["zap", "a", "b", "c", "d", "e", "f", "g", "@0"],
}
POSITIONS = ("arg1", "name", "arg2", "mid", "arg3", "arg5", "mid5", "arg8")     # the templates with one slot
RULE_KINDS = ("command", "redirect", "alias", "after")
TAILS = ["*", "*.py", "m?in.py", "[m]ain.py", "ma*", "*.log", "?", "[!m]*"]


def case_cwd(sc, case):
    return sub(sc, case.get("cwd") or "@CWD@")


def build(sc, case):
    """case: {'rule': command|redirect|alias|after, 'dec', 'exact': bool, 'star': bool, 'msg': bool, 'tpl': name, 'extra': 0|1,
    'p': [spellings in the pattern], 'q': [spellings in the command], 'same': bool, 'tail': None | glob text appended to p[0] + '/',
    'sep': white space between the words of the pattern (default one blank), 'cwd': working directory (default @CWD@)}
    -> (config text, command words / redirect target, expected: does the rule fire? - from `same`, or for a glob tail
    from fnmatch on the real paths)."""
    import fnmatch

    p = [sub(sc, x) for x in case["p"]]
    q = [sub(sc, x) for x in case["q"]]
    dec, msg = case["dec"], (' "M-%s"' % case["dec"] if case.get("msg") and case["dec"] != "allow" else "")
    pp = list(p)
    expected = bool(case["same"])
    real_p = real_q = None
    cwd = case_cwd(sc, case)
    if case.get("tail"):
        tail = case["tail"]
        pp[0] = p[0].rstrip("/") + "/" + tail
        real_d = os.path.realpath(os.path.join(cwd, os.path.expanduser(p[0]) if p[0].startswith("~") else p[0]))
        real_q = os.path.realpath(os.path.join(cwd, os.path.expanduser(q[0]) if q[0].startswith("~") else q[0]))
        if tail.startswith("**"):
            # D/**, D/**/*, D/**/name (redirect rules only): the target lies below D (and has that base name)
            under = real_q.startswith(real_d.rstrip("/") + "/")
            base = tail[3:]
            expected = under and (base in ("", "*") or os.path.basename(real_q) == base)
            real_q = None
        else:
            real_p = real_d.rstrip("/") + "/" + tail
            expected = fnmatch.fnmatchcase(real_q, real_p)
    kind = case["rule"]
    if kind == "redirect":
        return f"{dec}-redirect {pp[0]}{msg}", q[0], expected
    tpl = TEMPLATES[case["tpl"]]
    fill = lambda xs: [xs[int(w[1])] if w.startswith("@") else w for w in tpl]
    words = fill(q) + ["x"] * case.get("extra", 0)
    if real_p is not None:   # ground truth on the whole normalised strings (the neutral words are left as written)
        expected = fnmatch.fnmatchcase(" ".join(fill([real_q])), " ".join(fill([real_p])))
    if kind == "alias":
        # the alias source is a spelling; the rule is written for the alias target
        words = [q[0]] + ["x"] * case.get("extra", 0)
        anchor = "|" if case.get("exact") else ""
        if case.get("exact") and case.get("extra"):
            expected = False
        return f"alias {pp[0]} zap\n{dec} zap{anchor}{msg}", words, expected
    pat = (case.get("sep") or " ").join(fill(pp))     # blanks between the words of a pattern: any run of white space
    if case.get("star"):
        pat += " *"
    elif case.get("exact") and kind != "after":      # the `after` directive has no | anchor
        pat += "|"
        if case.get("extra"):
            expected = False
    if kind == "after":
        return f'after {pat} "fb"', words, expected
    return f"{dec} {pat}{msg}", words, expected


def fired(C, sc, case, cfg_text, subject):
    """does the one rule fire on the subject? (the real matcher of config.py, nothing else)"""
    from pathlib import Path

    cfg = C.parse_config(cfg_text)
    cwd = Path(case_cwd(sc, case))
    kind = case["rule"]
    if kind == "redirect":
        m = C.match_redirect(subject, cfg, cwd)
        return m is not None and m.decision == case["dec"]
    if kind == "after":
        return C.match_after(list(subject), cfg, cwd) == "fb"
    m = C._match_words(list(subject), cfg, cwd, remote=bool(case.get("remote")))
    return m is not None and m.decision == case["dec"]


def identity_tokens():
    """Word shapes for which no respelling is claimed but identity is: a rule written with exactly the command's own
    words fires on it.  Every string of <= 4 characters over . / ~ a * : (the characters token classification looks at, a
    neutral letter, a glob character) plus URL-, variable-, ~user-, option- and assignment-shaped words with path parts."""
    import itertools

    toks = ["".join(t) for n in range(1, 5) for t in itertools.product([".", "/", "~", "a", "*", ":"], repeat=n)]
    toks += ["~/a://b", "~/://", "~://a", "a://b/..", "http://h/p/../q", "/a://b", "./a://b", "../a://..", "$HOME/x", "$X/..", "${X}/../y", "~bob/x", "~bob/..", "~bob",
             "-f", "--opt=../x", "-I../inc", "a=b/../c", "a=~/x", "?", "a?/..", "é/../x", "a:b", "::", "@/..", "%/./x", "a\\b/..", "...", "..../x", ".../..", "~~", "~/~", "~/.."]
    return toks
