"""C17 - auto-approved Python scripts are inert; the analysed file is the one executed.

Correspondence
  (1a) Model visit (PyArgs.visit over the reflective dump of Python's ast) == SafetyAnalyzer on the same
       tree: generated sources (every access path the property names x syntactic position) and
       schema-respecting but grammar-violating trees built by hand (unknown node classes included).
  (1b) Model classify / _own_options / _find_script_path == the handler's on generated token lists, scripts
       in a scratch directory that is NOT the process cwd (a decoy directory with the roles swapped is).
  (1c) py_cmdline (the specification of CPython's argv grammar the theorems use) == what /venv/bin/python
       really does with the same argv (which program ran, from which line, REPL afterwards or not).
Implementation-level oracle = ground truth (model-free)
  (2)  every script the real classify() approves is executed by a child `/venv/bin/python -I` whose audit
       hook records and vetoes open / os.* / subprocess.* / socket.* / ctypes.* / exec / compile / import of a
       module outside the handler's own SAFE_MODULES: an approved script that raises one is a violation,
       reported by access path with a shrunk script.
  (3,4) every command line the real analysis approves is run for real in the analysis directory with a
       canary-writing program on stdin and canary-writing unsafe files around: a canary means unanalysed
       code ran (wrong file, options after the script taken for python's, -c/-m/-i/-x/- overlooked).
  (5)  ENVIRONMENT of the script (harness/c17_env.py): thousands of small jail directories - how the script is
       named and reached (.., file / directory symlinks, symlinked cwd, loops, ~) x what lies next to the REAL
       file, next to the LINK and in the cwd (modules in every importable form, also the ones the interpreter
       loads transitively or implicitly) x environment assignments, wrappers, directory changes and shell
       expansions; every approved command is run by the real bash + /venv/bin/python, the jail is snapshotted.
  (1d) the same layouts, serialised, are given to the model's own file system (Model/PyEnv.v): classify_fs,
       realpath == Path.resolve, stat == os.stat, analyze_path == analyze_python_file, suffix_ok == Path.suffix,
       and the specification py_syspath0 == sys.path[0] printed by the real interpreter.
"""
from __future__ import annotations

import ast
import concurrent.futures as cf
import json
import os
import random
import re
import shlex
import shutil
import subprocess
import sys
import tempfile
import threading
import time
from pathlib import Path

from . import c17_env, core, lib, pygen

PY = "/venv/bin/python"
CHILD = os.path.join(os.path.dirname(os.path.abspath(__file__)), "c17_child.py")
LEVEL = "proof"

TRUSTED = [
    "Coq 8.16.1 kernel and its VM (vm_compute for closed facts over the generated tables and for the refutation witnesses)",
    "axioms: none (every theorem of Props/C17.v prints 'Closed under the global context')",
    "tools/gen_tables.py + tools/tables/t17_python.py (Python-ast translator of SAFE_MODULES, DANGEROUS_*, REFLECTION_ATTRS, ESCAPE_ATTRS, _KNOWN_OPTIONS, _INFO_OPTIONS, _SHORT_WITH_ARG, the list of visit_ methods; asserts the literal tests of _scan_options / classify / local_shadow / _writes_files_xoption that the model writes out by hand; _IMPORTABLE_ENDINGS, sys.stdlib_module_names)",
    "extraction: ExtrOcamlBasic only; OCaml 4.13.1; ocaml/driver.ml; cross-checked in Coq by vm_compute on a sample",
    "harness: reflective dumper of Python's ast (harness/c17.py dump: class name, _fields order, str fields, node / list-of-node fields), script generator harness/pygen.py, audit child harness/c17_child.py",
    "the visitor's _called_names set is modelled as one bit of context (the node is the Name in the func field of the Call directly above): exact for tree-shaped ASTs without shared node objects (ast.parse output)",
    "C17_visitor hypothesis global_leaf: Global nodes have no node-valued field (checked on every run: ast.Global._fields == ('names',) and no dumped Global node has kids)",
    "modelled, not verified: ast.parse supplies the tree; Path.resolve, the calendar.py/calendar shadow test, the sibling test and analyze_python_file's file checks (exists / is_file / suffix / size / read_bytes) are oracles answered by the real code; reason texts and descriptions are not modelled",
    "specification py_cmdline = CPython 3.12 argv grammar (Python/getopt.c, config_parse_cmdline), validated against /venv/bin/python on generated argv (coverage.cmdline_spec_vs_cpython); -W/-X values are not validated by the spec",
    "environment stream: ground truth is bash 5 + /venv/bin/python run in a private jail per case (HOME, PATH and LANG set, nothing else); an effect is a change of the jail's tree (path set, file type, size) - writes outside the jail (e.g. /tmp/perf-PID.map of -X perf) are not seen; the modules an inert script loads are discovered with -X importtime on this interpreter only",
    "local_shadow (repair 7bd370f) is modelled over the listing of the modelled file system; sys.stdlib_module_names is a generated table taken from the interpreter that runs tools/gen_tables.py (/venv/bin/python 3.12, the one the harness imports dippy with); the name.isidentifier() test is dropped because the plugin checks that every listed name passes it; the fallback for interpreters without stdlib_module_names (< 3.10) is not modelled (the tie breaks there)",
    "file-system model (Model/PyEnv.v): association list over symlink-free absolute paths as serialised by harness/c17_env.py fs_of_jail (lstat walk of the jail + its ancestor directories, ast.parse of every regular file); permissions, unreadable files, hard-link identity, `//` as a distinct root and chains of more than 3000 path steps are not modelled; a symlink loop is 'resolve raises' as soon as it is met (Python returns the loop link + the unread rest, normalised, and raises only if that still loops): tokens continuing after a looping component are left to the model-free oracles (counted in coverage.environment.model_correspondence)",
    "specification py_syspath0 = CPython 3.12 pymain_run_python / _PyPathConfig_ComputeSysPath0 (directory of the real path of the script; the script itself when it is a directory; the cwd for -m), validated against sys.path[0] printed by /venv/bin/python on every access path of the stream",
    "runtime inertness is NOT proved (no Gallina model of CPython): it is decided by execution under an audit hook for the generated scripts only; events raised while a library module initialises itself during import are not attributed to the script (counted in coverage.inertness.import_time_events)",
]

KIND_OF_VK = {
    "import-dangerous": "import", "import-unknown": "import", "import-relative": "import",
    "import-name": "import", "import-shadow": "import",
    "builtin": "builtin", "method": "method", "reflection-attr": "reflection", "reflection-escape": "reflection",
    "reflection-name": "reflection",
    "async-def": "async", "await": "async", "io": "io",
}


# ---------------------------------------------------------------- reflective dump of Python's ast
def dump(node, note=None):
    """ast.AST -> [kind, strs, flags, kids]: class name = kind, fields in _fields order (what
    ast.iter_fields / generic_visit use), str -> strs, node / list of nodes -> labelled kids, other
    constants -> their repr as strs, None dropped.  Knows nothing about particular node classes."""
    kind = type(node).__name__
    strs, kids = [], []
    for name in node._fields:
        try:
            v = getattr(node, name)
        except AttributeError:
            continue
        if isinstance(v, ast.AST):
            kids.append([name, dump(v, note)])
        elif isinstance(v, list):
            for it in v:
                if isinstance(it, ast.AST):
                    kids.append([name, dump(it, note)])
                elif isinstance(it, str):
                    strs.append([name, it])
        elif isinstance(v, str):
            strs.append([name, v])
        elif v is None:
            continue
        else:
            strs.append([name, repr(v)])
    if note is not None:
        note[kind] = note.get(kind, 0) + 1
        if kind == "Global" and kids:
            note["!global-with-kids"] = note.get("!global-with-kids", 0) + 1
    return [kind, strs, [], kids]


def field_spec(cls):
    """{field: '' | '?' | '*'} and {field: type name} from the ASDL signature in the class docstring"""
    doc = cls.__doc__ or ""
    m = re.match(r"\w+\((.*)\)", doc.strip().split("\n")[0])
    mult, typ = {}, {}
    if m and m.group(1).strip():
        for part in m.group(1).split(","):
            t, n = part.strip().split()
            mult[n] = "*" if t.endswith("*") else "?" if t.endswith("?") else ""
            typ[n] = t.rstrip("*?")
    return mult, typ


_CUSTOM = {}


def custom_class(kind, labels):
    key = (kind, tuple(labels))
    if key not in _CUSTOM:
        _CUSTOM[key] = type(kind, (ast.AST,), {"_fields": tuple(labels)})
    return _CUSTOM[key]


# ---------------------------------------------------------------- malformed (grammar-violating) trees
STR_TYPES = {"identifier", "string"}
VISITED = ["Import", "ImportFrom", "Call", "Attribute", "Name", "AsyncFunctionDef", "Await", "With", "Global",
           "Starred", "FunctionDef", "Try"]
OTHER = ["Module", "Expr", "BinOp", "Lambda", "ListComp", "ClassDef", "Return", "If", "JoinedStr", "FormattedValue",
         "NamedExpr", "Match", "match_case", "MatchValue", "AsyncWith", "AsyncFor", "Constant", "Subscript", "Dict",
         "keyword", "arguments", "arg", "comprehension", "ExceptHandler", "TryStar", "Load", "alias", "withitem"]
UNKNOWN = ["Frob", "import", "call", "Global_", "Names", "AWAIT"]


def rand_name(rng, H):
    pools = [sorted(H.DANGEROUS_BUILTINS), sorted(H.SAFE_BUILTINS), sorted(H.DANGEROUS_ATTRS), sorted(H.SafetyAnalyzer.REFLECTION_ATTRS),
             ["__builtins__", "__loader__", "__spec__", "x", "Foo", "", "print", "open", "_", "é", "Open"]]
    return rng.choice(rng.choice(pools))


def rand_module(rng, H):
    pools = [sorted(H.SAFE_MODULES), sorted(H.DANGEROUS_MODULES),
             ["os.path", "json.tool", "collections.os", "html.x.y", "", ".", "xml.etree", "foo", "foo.bar", "re.", ".re", "jsonx"]]
    return rng.choice(rng.choice(pools))


def rand_ast(rng, H, depth):
    """a real ast object tree: known classes keep their field names/multiplicities and str fields,
    node slots take ANY node (statement in expression position, unknown classes, ...)"""
    r = rng.random()
    if depth <= 0:
        kind = rng.choice(["Name", "Constant", "Load", "Global", "alias", "Frob"])
    elif r < 0.55:
        kind = rng.choice(VISITED)
    elif r < 0.9:
        kind = rng.choice(OTHER)
    else:
        kind = rng.choice(UNKNOWN)
    cls = getattr(ast, kind, None)
    if cls is None or kind in UNKNOWN:
        labels = rng.sample(["body", "value", "func", "names", "items", "x", "module", "id"], rng.randint(0, 3))
        node = custom_class(kind, labels)()
        for lb in labels:
            if rng.random() < 0.5:
                setattr(node, lb, [rand_ast(rng, H, depth - 1) for _ in range(rng.randint(0, 2))])
            else:
                setattr(node, lb, rand_ast(rng, H, depth - 1))
        return node
    mult, typ = field_spec(cls)
    node = cls()
    for f in cls._fields:
        t, m = typ.get(f, "expr"), mult.get(f, "")
        if t in STR_TYPES:
            if kind == "ImportFrom" and f == "module":
                val = None if rng.random() < 0.25 else rand_module(rng, H)
            elif kind == "alias" and f == "name":
                val = rand_module(rng, H)
            elif m == "*":
                val = [rand_name(rng, H) for _ in range(rng.randint(0, 2))]
            elif m == "?" and rng.random() < 0.4:
                val = None
            else:
                val = rand_name(rng, H)
        elif t in ("int", "constant"):
            val = rng.choice([0, 1, "s", None, 2.5, b"b", True])
        else:
            # the visitor dereferences names[i].name and items[i].context_expr: keep those slots typed
            def sub():
                if kind in ("Import", "ImportFrom") and f == "names":
                    a = ast.alias()
                    a.name, a.asname = rand_module(rng, H), None
                    return a
                if kind in ("With", "AsyncWith") and f == "items":
                    w = ast.withitem()
                    w.context_expr, w.optional_vars = rand_ast(rng, H, depth - 1), None
                    return w
                return rand_ast(rng, H, depth - 1)
            if m == "*":
                val = [sub() for _ in range(rng.randint(0, 3 if depth > 1 else 1))]
            elif m == "?" and rng.random() < 0.4:
                val = None
            else:
                val = sub()
        setattr(node, f, val)
    return node


# ---------------------------------------------------------------- running things
def impl_visit(H, tree, allow_print=True):
    """[(kind, detail)], raised: what SafetyAnalyzer collected before (possibly) raising"""
    an = H.SafetyAnalyzer(allow_print=allow_print)
    raised = None
    try:
        an.visit(tree)
    except IndexError:
        raised = "IndexError"
    except RecursionError:
        raised = "RecursionError"
    except (AttributeError, TypeError) as e:
        raised = "schema:" + type(e).__name__   # a hand-built tree the visitor's own field accesses reject
    return [(v.kind, v.detail) for v in an.violations], raised


def compare_visit(model_list, impl_list, raised):
    """model: [[vk, name]...]; equal kinds in order, the named entity closes the detail text, and the
    model's `raise` marker exactly where the implementation raised IndexError"""
    m = []
    m_raised = False
    for vk, name in model_list:
        if vk == "raise":
            m_raised = True
            break
        m.append((KIND_OF_VK[vk], name))
    if m_raised != (raised == "IndexError"):
        return False
    if len(m) != len(impl_list):
        return False
    for (mk, mn), (ik, idet) in zip(m, impl_list):
        if mk != ik or (mn and not idet.endswith(mn)):
            return False
    return True


def run_child(path, cwd, safe_csv, timeout=5):
    try:
        p = subprocess.run([PY, "-I", CHILD, path, safe_csv], cwd=cwd, stdin=subprocess.DEVNULL,
                           stdout=subprocess.DEVNULL, stderr=subprocess.PIPE, timeout=timeout,
                           env={"PATH": "/usr/bin:/bin", "HOME": cwd, "LANG": "C.UTF-8"})
    except subprocess.TimeoutExpired:
        return {"events": [], "end": "timeout"}
    for line in reversed(p.stderr.decode("utf-8", "replace").splitlines()):
        if line.startswith("@@C17@@ "):
            try:
                return json.loads(line[8:])
            except ValueError:
                break
    return {"events": [], "end": f"no-report rc={p.returncode}"}


class ModelProxy:
    """the extracted model; when the PyArgs entry did not build (broken tie / proof) every call answers
    None and the correspondences are skipped - the implementation-level oracles still run"""

    def __init__(self):
        self.m = lib.Model()
        self.available = True
        probe = self.m.call(["py_scan", []])
        if isinstance(probe, str) and probe.startswith("?"):
            self.available = False
        self.transcript = None
        self.last_request = None

    def call(self, req, oracles=None, record=False):
        if not self.available:
            return None
        r = self.m.call(req, oracles, record)
        self.transcript, self.last_request = self.m.transcript, self.m.last_request
        return r

    def close(self):
        self.m.close()


class Scratch:
    def __init__(self):
        self.root = tempfile.mkdtemp(prefix="dippy-verif-")
        self.n = 0
        self.lock = threading.Lock()

    def script_dir(self, script: pygen.Script, name="script.py"):
        with self.lock:
            self.n += 1
            n = self.n
        d = os.path.join(self.root, "s", f"{n:06d}")
        os.makedirs(d)
        data = script.raw if script.raw is not None else script.text.encode("utf-8", "surrogatepass")
        with open(os.path.join(d, name), "wb") as f:
            f.write(data)
        for rel, content in script.siblings:
            p = os.path.join(d, rel)
            os.makedirs(os.path.dirname(p), exist_ok=True)
            with open(p, "wb") as f:
                f.write(content)
        return d

    def close(self):
        shutil.rmtree(self.root, ignore_errors=True)


def origin_class(o):
    return "sibling" if o.startswith("sibling:") else o


def signature(events, script: pygen.Script):
    ev, detail, origin = events[0][0], events[0][1], origin_class(events[0][2])
    body = script.text if script.raw is None else "raw:" + repr(script.raw)
    sib = "".join(f"\n+file {n}" for n, _ in script.siblings)
    return f"[{ev} @ {origin}]\n{body.strip()}{sib}"


class Inert:
    """classify + execute under the audit hook, cached by script content"""

    def __init__(self, H, scratch, safe_csv):
        from dippy.cli import HandlerContext
        self.H, self.scratch, self.safe_csv, self.Ctx = H, scratch, safe_csv, HandlerContext
        self.cache = {}
        self.child_runs = 0
        self.import_time = 0
        self.ends = {}

    def approved(self, d):
        return self.H.classify(self.Ctx(["python3", "script.py"], cwd=Path(d))).action == "allow"

    def check(self, script):
        """(approved, report or None)"""
        key = (script.text, script.raw, script.siblings)
        if key in self.cache:
            return self.cache[key]
        d = self.scratch.script_dir(script)
        ok = self.approved(d)
        rep = None
        if ok:
            rep = run_child(os.path.join(d, "script.py"), d, self.safe_csv)
            self.child_runs += 1
            self.import_time += rep.get("import_time", 0)
            e = rep.get("end", "?").split(":")[0]
            self.ends[e] = self.ends.get(e, 0) + 1
        self.cache[key] = (ok, rep)
        return ok, rep

    def shrink(self, script, first_event):
        """greedy removal of top-level statements while the script stays approved and still raises the event"""
        if script.raw is not None:
            return script
        cur = script
        budget = 40
        changed = True
        while changed and budget > 0:
            changed = False
            try:
                mod = ast.parse(cur.text)
            except SyntaxError:
                return cur
            if len(mod.body) <= 1:
                break
            lines = cur.text.split("\n")
            for st in reversed(mod.body):
                start = min([st.lineno] + [d.lineno for d in getattr(st, "decorator_list", [])])
                cand_lines = lines[:start - 1] + lines[st.end_lineno:]
                cand = pygen.Script(cur.family, "\n".join(cand_lines), cur.siblings, None)
                if not cand.text.strip():
                    continue
                budget -= 1
                ok, rep = self.check(cand)
                if ok and rep and rep["events"] and rep["events"][0][0] == first_event:
                    cur = cand
                    changed = True
                    break
                if budget <= 0:
                    break
        return cur


# ---------------------------------------------------------------- command lines
SAFE_SRC = b'print("L1:%s")\nprint("RAN:%s")\n'
EVIL_SRC = b'print("L1:%s")\nopen("CANARY_%s", "w").close(); print("RAN:%s")\n'
STDIN_PROGRAM = b'open("CANARY_stdin", "w").close(); print("RAN:stdin")\n'
CODE_TOKEN = "open('CANARY_c','w').close();print('RAN:c')"
CODE_FILE_TOKEN = "open('CANARY_cf','w').close()#.py"   # a -c program that is also the name of a safe .py file


def make_work(root, name, swapped=False):
    """the analysis directory; `swapped` builds the decoy used as process cwd: same names, roles exchanged"""
    d = os.path.join(root, name)
    os.makedirs(os.path.join(d, "sub"))

    def put(rel, data):
        with open(os.path.join(d, rel), "wb") as f:
            f.write(data)

    safe = lambda n: SAFE_SRC % (n.encode(), n.encode())            # noqa: E731
    evil = lambda n: EVIL_SRC % (n.encode(), n.replace("/", "_").encode(), n.encode())  # noqa: E731
    a, b = (evil, safe) if swapped else (safe, evil)
    put("s.py", a("s.py"))
    put("evil.py", b("evil.py"))
    put("sub/t.py", a("sub/t.py"))
    put("sub/evil.py", b("sub/evil.py"))
    if swapped:
        return d
    put("mymod.py", b("mymod.py"))
    put("calendar", b("calendar"))           # a FILE called calendar (python -W -m calendar)
    put("-h", b("-h"))
    put("--version", b("--version"))
    put("always", b("always"))
    put("ignore", b("ignore"))
    put("dev", b("dev"))
    put("noext", a("noext"))
    put("x.pyw", a("x.pyw"))
    put(CODE_FILE_TOKEN, a("cf"))
    put("big.py", b"_x = 1\n" * 20000 + evil("big.py"))
    put("latin.py", b"print('RAN:latin.py')\n# \xe9\n")
    put("u7.py", b"# coding: utf-7\n# +AAo-open('CANARY_u7','w')\nprint('RAN:u7.py')\n")
    put("xskip.py", b'"""\nopen("CANARY_xskip", "w").close(); print("RAN:xskip-line2")\n""" #"""\nprint("RAN:xskip.py")\n')
    os.symlink("evil.py", os.path.join(d, "link.py"))
    os.symlink("s.py", os.path.join(d, "slink.py"))
    os.makedirs(os.path.join(d, "dir.py"))
    return d


CORE_TOKENS = ["-B", "-u", "-i", "-x", "-c", "-m", "-h", "--help", "-V", "--version", "-W", "-X", "-", "--",
               "s.py", "evil.py", "calendar", "ignore", "-Bi", "-Bc", CODE_TOKEN, "perf", "-Xperf", "~/s.py"]
MORE_TOKENS = ["-VV", "-?", "-O", "-OO", "-bb", "-E", "-I", "-s", "-S", "-q", "-d", "-v", "-P", "-R", "-t", "-J", "-Z",
               "--bogus", "--help-all", "--help-env", "--check-hash-based-pycs", "always", "--check-hash-based-pycs=always",
               "-Wignore", "-Xdev", "dev", "-qi", "-ic", "-ix", "-Bx", "-xB", "-Bm", "-mcalendar", "-mmymod", "mymod",
               "-c" + CODE_TOKEN, "-B-", "-hZ", "-Zh", "-Vx", "-iV", "./s.py", "sub/../s.py", "sub/t.py", "sub/evil.py",
               "link.py", "slink.py", "noext", "x.pyw", "dir.py", "big.py", "latin.py", "u7.py", "xskip.py", "nonexistent.py",
               CODE_FILE_TOKEN, "", "-W-h", "-X-c", "=", "-a=b", "s.py=1",
               # repairs 6fb4634 / 1872043: -X values that write files, script words bash rewrites
               "pycache_prefix=cache", "-Xpycache_prefix=cache", "-Xperf", "perf", "-BXperf", "-Xpycache_prefix", "pycache_prefi", "-XXperf", "perfect",
               "-Xdev", "~/s.py", "~", "$HOME/s.py", "s.p[y]", "{s,evil}.py", "s.p?", "*.py", "`s.py`", "s~.py", "s.py~"]


def gen_token_lists(rng, tier, work):
    out = []
    seen = set()

    def add(toks, kind):
        t = tuple(toks)
        if t not in seen:
            seen.add(t)
            out.append((list(toks), kind))

    py = "python3"
    add([py], "systematic")
    # named witnesses of the refuted theorems and of the option-placement clause, first
    for w in (["-", "s.py"], ["-Bi", "s.py"], ["-x", "xskip.py"], ["-x", "s.py"], ["-Bc", CODE_FILE_TOKEN], ["-W", "-h", "evil.py"],
              ["-W", "-m", "calendar"], ["--", "-h"], ["s.py", "-h"], ["s.py", "--version"], ["evil.py", "-h"],
              ["evil.py", "--version"], ["-c", CODE_TOKEN, "-h"], ["-c", CODE_TOKEN, "--version"], ["s.py", "-c", CODE_TOKEN],
              ["s.py", "-m", "mymod"], ["s.py", "-i"], ["evil.py", "-i"], ["-m", "calendar"], ["-m", "calendar", "-h"],
              ["-m", "mymod", "-h"], ["-i", "s.py"], ["-i", "-m", "calendar"], ["-mcalendar"], ["-c" + CODE_TOKEN, "s.py"], ["u7.py"], [os.path.join(work, "s.py")], [os.path.join(work, "evil.py")]):
        add([py] + w, "witness")
    base = CORE_TOKENS
    for a in base:
        add([py, a], "systematic")
    for a in base:
        for b in base:
            add([py, a, b], "systematic")
    if tier != "quick":
        for a in base:
            for b in base:
                for c in base:
                    add([py, a, b, c], "systematic")
    # option placement: suffixes after the program must not matter
    suffixes = [["-h"], ["--help"], ["--version"], ["-V"], ["-c", CODE_TOKEN], ["-m", "mymod"], ["-i"], ["-x"], ["-"], ["--", "evil.py"]]
    for prog in (["s.py"], ["evil.py"], ["-u", "s.py"], ["-W", "ignore", "evil.py"], ["-c", CODE_TOKEN], ["-m", "calendar"], ["-m", "mymod"]):
        for suf in suffixes:
            add([py] + prog + suf, "placement")
    allt = CORE_TOKENS + MORE_TOKENS
    n = 2500 if tier == "quick" else 25000
    for _ in range(n):
        k = rng.randint(1, 6)
        toks = [rng.choice(["python", "python3", "python3.12"])]
        for _ in range(k):
            toks.append(rng.choice(allt if rng.random() < 0.7 else CORE_TOKENS))
        add(toks, "random")
    # malformed: empty token list is not producible by the analyzer but the handler is total on it?
    return out


PLAIN_TOKEN = re.compile(r"^[A-Za-z0-9_./=:+-]+$")


def real_run(tokens, work, timeout=5):
    """run the command for real in the analysis directory; (rc, stdout, stderr, canaries)"""
    for f in os.listdir(work):
        if f.startswith("CANARY"):
            os.unlink(os.path.join(work, f))
    try:
        p = subprocess.run([PY] + tokens[1:], cwd=work, input=STDIN_PROGRAM, capture_output=True, timeout=timeout,
                           env={"PATH": "/usr/bin:/bin", "HOME": work, "LANG": "C.UTF-8", "PYTHONDONTWRITEBYTECODE": "1"})
        rc, so, se = p.returncode, p.stdout.decode("utf-8", "replace"), p.stderr.decode("utf-8", "replace")
    except subprocess.TimeoutExpired:
        rc, so, se = -9, "", "timeout"
    can = sorted(f for f in os.listdir(work) if f.startswith("CANARY"))
    for f in can:
        os.unlink(os.path.join(work, f))
    return rc, so, se, can


def observe(rc, so, se):
    """what the real interpreter did, as far as the marker lines tell"""
    ran = re.findall(r"^(?:>>> )*RAN:(\S+)", so, flags=re.M)
    l1 = re.findall(r"^L1:(\S+)", so, flags=re.M)
    if "Mo Tu We" in so:
        ran = ["<calendar>"] + ran
    if ran or l1:
        return {"ran": ran, "l1": l1}
    if rc == 2 and ("usage:" in se or "Argument expected" in se or "nknown option" in se):
        return {"error": True}
    if rc == 0 and ("usage:" in so or so.startswith("Python 3") or "PYTHONSTARTUP" in so or "-X " in so):
        return {"info": True}
    return {"other": (rc, (se.strip().splitlines() or [""])[-1][:100])}


def predict(spec, tokens, work):
    """expected observation for a py_cmdline result, or None when the markers cannot tell"""
    kind = spec[0]
    if kind == "error":
        return {"error": True}
    if kind == "info":
        return {"info": True}
    marker_files = {"s.py", "evil.py", "sub/t.py", "sub/evil.py", "mymod.py", "calendar", "-h", "--version", "always", "ignore",
                    "dev", "noext", "x.pyw", "./s.py", "sub/../s.py", "link.py", "slink.py"}
    names = {"./s.py": "s.py", "sub/../s.py": "s.py", "link.py": "evil.py", "slink.py": "s.py"}
    if kind == "file":
        i = len(spec[1])
        tok = tokens[i]
        ver, insp, skip = (x == "1" for x in spec[2:5])
        rel = os.path.relpath(tok, work) if os.path.isabs(tok) else tok
        if rel not in marker_files:
            return None
        n = names.get(rel, rel)
        exp = {"ran": [n] + (["stdin"] if insp else []), "l1": [] if skip else [n]}
        return exp
    if kind == "stdin":
        return {"ran": ["stdin"], "l1": []}
    if kind == "command":
        code = spec[2]
        tail = ["stdin"] if spec[4] == "1" else []
        if code == CODE_TOKEN:
            return {"ran": ["c"] + tail, "l1": []}
        return None
    if kind == "module":
        m = spec[2]
        tail = ["stdin"] if spec[4] == "1" else []
        if m == "calendar":
            return {"ran": ["<calendar>"] + tail, "l1": []} if len(tokens) == len(spec[1]) + 1 else None
        if m == "mymod":
            return {"ran": ["mymod.py"] + tail, "l1": ["mymod.py"]}
        return None
    return None


# ---------------------------------------------------------------- the run
def run(tier, seed, replay=None):
    lib.use_repo()
    import dippy.cli.python as H
    from dippy.cli import HandlerContext
    from dippy.core import analyzer as AN
    from dippy.core.config import parse_config

    rng = random.Random(seed)
    out = core.Outcome("C17")
    t_start = time.time()
    timing = {}

    def lap(name):
        timing[name] = round(time.time() - t_start - sum(timing.values()), 1)
    scratch = Scratch()
    old_cwd = os.getcwd()
    model = ModelProxy()
    xcheck = []
    safe_csv = ",".join(sorted(H.SAFE_MODULES))
    inert_cov = {"approved_and_executed": 0, "approved_raising_event": 0, "by_access_path": {}, "events": {},
                 "child_ends": {}, "import_time_events": 0}
    try:
        work = make_work(scratch.root, "work")
        decoy = make_work(scratch.root, "proc", swapped=True)
        os.chdir(decoy)   # the hook's own cwd: never the directory the command runs in
        cfg = parse_config("")

        # ---- schema facts the visitor theorem relies on
        if ast.Global._fields != ("names",) or field_spec(ast.Global)[1].get("names") != "identifier":
            out.disagreements.append({"correspondence": "hypothesis global_leaf <-> Python's ast", "detail": repr(ast.Global._fields)})
        visit_methods = sorted(n[6:] for n in vars(H.SafetyAnalyzer) if n.startswith("visit_"))
        out.extra["python"] = sys.version.split()[0]
        out.extra["model_available"] = model.available
        out.extra["visit_methods"] = visit_methods

        # =================================================================== scripts
        inert = Inert(H, scratch, safe_csv)
        scripts = []
        if replay and replay.get("script_text") is not None:
            scripts = [pygen.Script(replay.get("family", "replay"), replay["script_text"],
                                    tuple((n, c.encode("latin-1")) for n, c in replay.get("siblings", [])),
                                    replay["raw"].encode("latin-1") if replay.get("raw") is not None else None)]
        elif not replay:
            chain, chain_stats = pygen.chain_scripts(H.SAFE_MODULES, per_target=3 if tier == "quick" else 12)
            out.extra["module_attribute_paths_found"] = chain_stats
            pool = pygen.alias_scripts() + chain + pygen.string_indirection_scripts() + pygen.residual_scripts()
            scripts = pygen.direct_scripts() + pool + pygen.file_level_scripts()
            scripts += pygen.random_scripts(rng, 500 if tier == "quick" else 6000, pool, max_depth=3 if tier == "quick" else 4)
        kinds_seen = {}
        to_run = []
        for idx, s in enumerate(scripts):
            fam = s.family.split("/")[0] if not s.family.startswith("random/") else "random/" + s.family.split("/")[1]
            out.count("script_family", fam)
            tree = None
            src_bytes = s.raw if s.raw is not None else s.text.encode("utf-8", "surrogatepass")
            try:
                tree = ast.parse(src_bytes)     # bytes: the PEP 263 cookie is honoured, as analyze_python_file does
            except (SyntaxError, ValueError):
                tree = None
            if tree is not None:
                # (1a) model visitor == SafetyAnalyzer on the same tree
                for ap in ((True, False) if idx % 5 == 0 else (True,)):
                    il, raised = impl_visit(H, tree, ap)
                    if raised == "RecursionError":
                        continue
                    rec = len(xcheck) < 14 and idx % 97 == 3 and len(src_bytes) < 120
                    ml = model.call(["py_visit", ap, dump(tree, kinds_seen)], record=rec)
                    if rec and ml is not None:
                        xcheck.append((model.last_request, [], ml))
                    out.case(("visit", s.text, ap))
                    if ml is not None and not compare_visit(ml, il, raised):
                        out.disagreements.append({"correspondence": "PyArgs.visit <-> SafetyAnalyzer.visit", "script": s.text or repr(s.raw),
                                                  "allow_print": ap, "model": ml, "impl": il, "raised": raised})
                    # analyze_python_source is the same visitor behind ast.parse
                    if ap and [(v.kind, v.detail) for v in H.analyze_python_source(src_bytes)] != il:
                        out.disagreements.append({"correspondence": "analyze_python_source <-> SafetyAnalyzer.visit", "script": s.text})
                    # ... and hands its allow_print argument on (no caller in /repo passes False; the API does)
                    if not ap and [(v.kind, v.detail) for v in H.analyze_python_source(src_bytes, False)] != il:
                        out.disagreements.append({"correspondence": "analyze_python_source(allow_print=False) <-> SafetyAnalyzer(allow_print=False).visit",
                                                  "script": s.text})
                # analyze_python_source with base: the sibling check over imported_roots
                if s.siblings or idx % 11 == 0:
                    names = {n.split("/")[0] for n, _ in s.siblings}
                    sib = lambda r: (r + ".py") in names or r in names   # noqa: E731
                    d0 = scratch.script_dir(s)
                    isrc = [(v.kind, v.detail) for v in H.analyze_python_source(src_bytes, True, Path(d0))]
                    msrc = model.call(["py_source", True, dump(tree)],
                                      {"py_sibling": sib, "py_local_shadow": lambda d0=d0: H.local_shadow(Path(d0)) is not None})
                    if msrc is not None and not compare_visit(msrc, isrc, None):
                        out.disagreements.append({"correspondence": "PyArgs.source_viols <-> analyze_python_source(base=...)",
                                                  "script": s.text, "siblings": [n for n, _ in s.siblings], "model": msrc, "impl": isrc})
            to_run.append(s)
        if kinds_seen.get("!global-with-kids"):
            out.disagreements.append({"correspondence": "hypothesis global_leaf <-> dumped trees", "count": kinds_seen["!global-with-kids"]})
        out.extra["ast_node_classes_dumped"] = len([k for k in kinds_seen if not k.startswith("!")])

        # (2) ground truth: execute what the real classify approves
        def examine(s):
            ok, rep = inert.check(s)
            if not ok or not rep or not rep["events"]:
                return s, ok, rep, None
            small = inert.shrink(s, rep["events"][0][0])
            ok2, rep2 = inert.check(small)
            return s, ok, rep, (small, rep2)

        with cf.ThreadPoolExecutor(max_workers=8) as ex:
            results = list(ex.map(examine, to_run))
        seen_sig = set()
        for s, ok, rep, shr in results:
            out.count("script_verdict", "allow" if ok else "ask")
            out.case(("script", s.text, s.raw, s.siblings))
            if ok:
                inert_cov["approved_and_executed"] += 1
            if shr is None:
                continue
            small, rep2 = shr
            inert_cov["approved_raising_event"] += 1
            fam = s.family[7:] if s.family.startswith("random/") else s.family
            ap_key = "/".join(fam.split("/")[:2])
            inert_cov["by_access_path"][ap_key] = inert_cov["by_access_path"].get(ap_key, 0) + 1
            ev = rep2["events"][0]
            inert_cov["events"][ev[0]] = inert_cov["events"].get(ev[0], 0) + 1
            sig = signature(rep2["events"], small)
            if sig in seen_sig:
                continue
            seen_sig.add(sig)
            out.violations.append({
                "kind": "inertness",
                "what": f"approved script raises audit event {ev[0]}({ev[1]}) from {ev[2]} [access path {ap_key}]",
                "family": s.family, "script_text": small.text if small.raw is None else None,
                "raw": small.raw.decode("latin-1") if small.raw is not None else None,
                "siblings": [(n, c.decode("latin-1")) for n, c in small.siblings],
                "events": rep2["events"], "original_script": s.text[:2000],
                "how": "classify(['python3','script.py'], cwd=<dir>) == allow; executed by harness/c17_child.py under sys.addaudithook",
                "signature_text": sig,
            })
        out.sample({"approved_script_example": next((s.text for s, ok, rep, shr in results if ok and shr is None and s.text.strip()), "")[:300]})

        # (2b) public API of the safe modules, called with a few argument shapes
        if not replay:
            members = pygen.api_members(H.SAFE_MODULES)
            by_mod = {}
            for m, n in members:
                if n in H.DANGEROUS_ATTRS or n in H.SafetyAnalyzer.REFLECTION_ATTRS:
                    continue
                by_mod.setdefault(m, []).append(n)
            shapes = pygen.ARG_SHAPES if tier != "quick" else pygen.ARG_SHAPES[:5]
            batches = [(m, names, sh) for m, names in sorted(by_mod.items()) for sh in shapes]
            out.extra["api_sweep"] = {"modules": len(by_mod), "callables": sum(len(v) for v in by_mod.values()), "arg_shapes": [s[0] for s in shapes]}

            def run_batch(b):
                m, names, (shname, sh) = b
                sc = pygen.Script(f"safe-api/{m}", pygen.api_batch_script(m, names, sh))
                ok, rep = inert.check(sc)
                hits = []
                if ok and rep:
                    for ev in rep["events"]:
                        line = ev[3] if len(ev) > 3 else 0
                        # line 1 is the import; each callable occupies 4 lines
                        k = (line - 2) // 4
                        if 0 <= k < len(names):
                            hits.append((m, names[k], sh, ev))
                return ok, hits

            with cf.ThreadPoolExecutor(max_workers=8) as ex:
                bres = list(ex.map(run_batch, batches))
            singles = {}
            for ok, hits in bres:
                out.count("api_batch", "allow" if ok else "ask")
                for m, n, sh, ev in hits:
                    singles.setdefault((m, n), (sh, ev))
            def confirm(item):
                (m, n), (sh, ev) = item
                sc = pygen.Script(f"safe-api/{m}", pygen.api_single_script(m, n, sh))
                ok, rep = inert.check(sc)
                return sc, ok, rep
            with cf.ThreadPoolExecutor(max_workers=8) as ex:
                cres = list(ex.map(confirm, sorted(singles.items())))
            for sc, ok, rep in cres:
                out.case(("script", sc.text, None, ()))
                if ok:
                    inert_cov["approved_and_executed"] += 1
                if ok and rep and rep["events"]:
                    inert_cov["approved_raising_event"] += 1
                    inert_cov["by_access_path"]["safe-api"] = inert_cov["by_access_path"].get("safe-api", 0) + 1
                    ev = rep["events"][0]
                    inert_cov["events"][ev[0]] = inert_cov["events"].get(ev[0], 0) + 1
                    sig = signature(rep["events"], sc)
                    if sig not in seen_sig:
                        seen_sig.add(sig)
                        out.violations.append({
                            "kind": "inertness",
                            "what": f"approved script raises audit event {ev[0]}({ev[1]}) from {ev[2]} [access path safe-api: public function of a safe-listed module]",
                            "family": sc.family, "script_text": sc.text, "raw": None, "siblings": [], "events": rep["events"],
                            "how": "classify == allow; executed under the audit hook", "signature_text": sig,
                        })
        inert_cov["child_runs"] = inert.child_runs
        inert_cov["child_ends"] = inert.ends
        inert_cov["import_time_events"] = inert.import_time
        inert_cov["note"] = ("exploration, not proof: every generated script approved by the real classify() was executed under an audit "
                             "hook that records and vetoes open/os.*/subprocess.*/socket.*/ctypes.*/exec/compile/unsafe import")
        out.extra["inertness"] = inert_cov

        lap("scripts_and_inertness")
        # =================================================================== malformed trees (1a)
        if not replay:
            n_mal = 800 if tier == "quick" else 8000
            for i in range(n_mal):
                t = rand_ast(rng, H, rng.randint(1, 4))
                ap = rng.random() < 0.7
                il, raised = impl_visit(H, t, ap)
                if raised == "RecursionError" or (raised or "").startswith("schema:"):
                    out.count("malformed_tree", raised)
                    continue
                d = dump(t)
                rec = len(xcheck) < 26 and i % 37 == 5 and len(json.dumps(d)) < 900
                ml = model.call(["py_visit", ap, d], record=rec)
                if rec and ml is not None:
                    xcheck.append((model.last_request, [], ml))
                out.case(("tree", json.dumps(d), ap))
                out.count("malformed_tree", "raise" if raised else ("violations" if il else "clean"))
                if ml is not None and not compare_visit(ml, il, raised):
                    out.disagreements.append({"correspondence": "PyArgs.visit <-> SafetyAnalyzer.visit (hand-built tree)",
                                              "tree": d, "allow_print": ap, "model": ml, "impl": il, "raised": raised})

        lap("malformed_trees")
        # =================================================================== command lines
        def res(p):
            try:
                return [str(Path(p).resolve())]
            except (ValueError, OSError, RuntimeError):   # NUL byte; symlink loop (RuntimeError from Path.resolve)
                return []
        oracles = {"py_resolve": res, "py_analyze": lambda p: H.analyze_python_file(Path(p))[0],
                   "py_shadow": lambda c: ((Path(c) / "calendar.py").exists() or (Path(c) / "calendar").is_dir()
                                           or H.local_shadow(Path(c)) is not None)}
        if replay and replay.get("tokens") is not None:
            tls = [(replay["tokens"], "replay")]
        elif replay:
            tls = []
        else:
            tls = gen_token_lists(rng, tier, work)
        approved = []
        spec_checked = spec_mismatch = spec_unknown = 0
        placement = {}
        real_budget = 450 if tier == "quick" else 4000
        spec_budget = 250 if tier == "quick" else 2500
        real_jobs = []
        for idx, (toks, gkind) in enumerate(tls):
            out.count("cmdline_generator", gkind)
            try:
                impl = H.classify(HandlerContext(list(toks), cwd=Path(work))).action
            except Exception as e:  # noqa: BLE001
                impl = "exn"
            rec = len(xcheck) < 44 and idx % 41 == 7
            mv = model.call(["py_classify", [work], decoy, toks], oracles, record=rec)
            if rec and mv is not None and model.transcript is not None:
                xcheck.append((model.last_request, list(model.transcript), mv))
            out.case(("cmdline", toks))
            out.count("cmdline_verdict", impl)
            if mv is not None and mv != impl:
                out.disagreements.append({"correspondence": "PyArgs.classify <-> python.classify", "tokens": toks, "model": mv, "impl": impl, "cwd": work})
            # ctx.cwd = None falls back to the process cwd (the decoy)
            if idx % 9 == 0:
                impl_n = H.classify(HandlerContext(list(toks))).action
                mv_n = model.call(["py_classify", [], decoy, toks], oracles)
                if mv_n is not None and mv_n != impl_n:
                    out.disagreements.append({"correspondence": "PyArgs.classify <-> python.classify (ctx.cwd None)", "tokens": toks, "model": mv_n, "impl": impl_n})
            if idx % 3 == 0 and not hasattr(H, "_scan_options"):
                if not out.extra.get("helpers_missing"):
                    out.extra["helpers_missing"] = True
                    out.disagreements.append({"correspondence": "PyArgs.scan <-> _scan_options",
                                              "detail": "the handler no longer defines _scan_options"})
            elif idx % 3 == 0 and toks:
                seen_i, idx_i, mode_i, arg_i = H._scan_options(list(toks))
                sm = model.call(["py_scan", toks[1:]])
                si = [sorted(seen_i), "1" * idx_i, [] if mode_i is None else [mode_i], [] if arg_i is None else [arg_i]]
                if sm is not None and [sorted(set(sm[0]))] + sm[1:] != si:
                    out.disagreements.append({"correspondence": "PyArgs.scan <-> _scan_options", "tokens": toks, "model": sm, "impl": si})
            # the decision the hook would take: the whole analyzer when the tokens need no quoting
            full = None
            if all(PLAIN_TOKEN.match(t) for t in toks):
                full = AN.analyze(" ".join(toks), cfg, Path(work)).action
            decision = full if full is not None else impl
            if full is not None and full != impl:
                out.count("analyzer_vs_handler", f"{impl}->{full}")
            key = tuple(toks)
            placement[key] = decision
            want_real = decision == "allow" and (gkind in ("witness", "placement") or len(approved) < real_budget)
            want_spec = gkind in ("witness", "placement") or (spec_budget > 0 and idx % 5 == 1)
            if want_real:
                approved.append(toks)
            if want_real or want_spec:
                if not want_real:
                    spec_budget -= 1
                real_jobs.append((toks, decision, want_real))

        # (1b') the two pure helpers of the repairs, exhaustively over small alphabets taken from their own literals
        n_wfx = n_rw = 0
        if model.available and not replay and hasattr(H, "_writes_files_xoption"):
            import itertools
            walpha = ["-X", "-Xperf", "-BXpycache_prefix=c", "-Xdev", "perf", "pycache_prefix", "per", "--X", "X", "-B", "s.py", "-", ""]
            for k in range(0, 4 if tier == "quick" else 5):
                for ws in itertools.product(walpha, repeat=k):
                    toks_ = ["python3"] + list(ws)
                    for end in range(1, len(toks_) + 2):
                        iw = bool(H._writes_files_xoption(toks_, end))
                        mw = model.call(["py_wfx", "1" * (end - 1), toks_[1:]])
                        n_wfx += 1
                        if (mw == "1") != iw:
                            out.disagreements.append({"correspondence": "PyArgs.wfx <-> _writes_files_xoption", "tokens": toks_, "end": end, "model": mw, "impl": iw})
            ralpha = ["~", "$", "`", "{", "*", "?", "[", "s", "/", ".", "}", "]", "-"]
            for k in range(0, 4 if tier == "quick" else 5):
                for cs in itertools.product(ralpha, repeat=k):
                    w_ = "".join(cs)
                    ir = w_.startswith("~") or any(c in w_ for c in "$`{*?[")
                    n_rw += 1
                    mr = model.call(["py_shell_rewrites", w_])
                    if (mr == "1") != ir:
                        out.disagreements.append({"correspondence": "PyArgs.shell_rewrites <-> the literal test of classify", "word": w_, "model": mr, "impl": ir})
                    # and the handler itself: a word the test flags is never approved as a script
                    if ir and w_ and not w_.startswith("-"):
                        if H.classify(HandlerContext(["python3", w_], cwd=Path(work))).action == "allow":
                            out.violations.append({"kind": "cmdline", "what": f"script word bash rewrites is approved: {w_!r}", "tokens": ["python3", w_],
                                                   "signature_text": "cmdline: rewritten word approved " + w_})
        out.extra["helper_streams"] = {"wfx": n_wfx, "shell_rewrites": n_rw}

        # real executions are sequential per work directory: use a few copies of it in parallel
        workers = 6
        works = [work] + [None] * (workers - 1)
        for k in range(1, workers):
            works[k] = os.path.join(scratch.root, f"work{k}")
            shutil.copytree(work, works[k], symlinks=True)

        def do_real(args):
            k, chunk = args
            res_ = []
            for toks, decision, want_real in chunk:
                w = works[k]
                t2 = [t.replace(work, w) if t.startswith(work) else t for t in toks]
                rc, so, se, can = real_run(t2, w)
                res_.append((toks, decision, want_real, rc, so, se, can))
            return res_

        chunks = [(k, real_jobs[k::workers]) for k in range(workers)]
        with cf.ThreadPoolExecutor(max_workers=workers) as ex:
            real_results = [r for part in ex.map(do_real, chunks) for r in part]
        def decide(toks, w):
            if all(PLAIN_TOKEN.match(t) for t in toks):
                return AN.analyze(" ".join(toks), cfg, Path(w)).action
            try:
                return H.classify(HandlerContext(list(toks), cwd=Path(w))).action
            except Exception:  # noqa: BLE001
                return "exn"

        def shrink_cmd(args):
            """drop tokens while the command stays approved and still writes a canary"""
            k, items = args
            w = works[k]
            res_ = []
            for toks, can, so in items:
                cur = [t.replace(work, w) if t.startswith(work) else t for t in toks]
                budget = 40
                changed = True
                while changed and budget > 0 and len(cur) > 2:
                    changed = False
                    cands = [cur[:i] + cur[i + 1:] for i in range(1, len(cur))]
                    cands += [cur[:i] + cur[i + 2:] for i in range(1, len(cur) - 1)]   # an option together with its argument
                    for cand in cands:
                        if len(cand) < 2:
                            continue
                        budget -= 1
                        if decide(cand, w) == "allow":
                            rc2, so2, se2, can2 = real_run(cand, w)
                            if can2:
                                cur, can, so, changed = cand, can2, so2, True
                                break
                        if budget <= 0:
                            break
                res_.append(([t.replace(w, work) if t.startswith(w) else t for t in cur], can, so, toks))
            return res_

        cmd_viol = []
        for toks, decision, want_real, rc, so, se, can in real_results:
            obs = observe(rc, so, se)
            spec = model.call(["py_cmdline", toks])
            exp = predict(spec, toks, work) if spec is not None else None
            if exp is None:
                spec_unknown += 1
            else:
                spec_checked += 1
                unimportable = spec[0] == "module" and obs.get("ran") == exp["ran"][1:] and not obs.get("l1")   # -I / -P: cwd not on sys.path
                if obs != exp and not unimportable and not ("other" in obs and spec[0] in ("file", "module")):   # missing file / module
                    spec_mismatch += 1
                    out.disagreements.append({"correspondence": "py_cmdline (specification) <-> /venv/bin/python", "tokens": toks,
                                              "spec": spec, "expected": exp, "observed": obs})
            if decision == "allow":
                out.count("approved_cmdline_ran", ",".join(obs.get("ran", [])) or ("info" if obs.get("info") else "error" if obs.get("error") else "other"))
                if can:
                    cmd_viol.append((toks, can, so))
        with cf.ThreadPoolExecutor(max_workers=workers) as ex:
            shrunk = [r for part in ex.map(shrink_cmd, [(k, cmd_viol[k::workers]) for k in range(workers)]) for r in part]
        seen_cmd_sig = set()
        for toks, can, so, orig in shrunk:
            sig = "cmdline: " + " ".join(["python"] + toks[1:])
            if sig in seen_cmd_sig:
                continue
            seen_cmd_sig.add(sig)
            spec = model.call(["py_cmdline", toks]) or ["?"]
            out.violations.append({
                "kind": "cmdline",
                "what": f"approved command line executes code that was not analysed ({', '.join(can)} written); CPython: {spec[0]}",
                "tokens": toks, "original_tokens": orig, "analysis_cwd": work, "process_cwd": decoy, "canaries": can, "stdout": so[-300:],
                "py_cmdline": spec, "how": "analysis says allow; the command was then run for real in the analysis directory with a canary program on stdin",
                "signature_text": sig,
            })
        # `python -m calendar` with a calendar.py in the directory the command runs in
        if not replay or replay.get("scenario") == "m-shadow":
            wsh = os.path.join(scratch.root, "shadow")
            os.makedirs(wsh)
            with open(os.path.join(wsh, "calendar.py"), "wb") as f:
                f.write(EVIL_SRC % (b"calendar.py", b"calendar.py", b"calendar.py"))
            toks = ["python3", "-m", "calendar"]
            if AN.analyze(" ".join(toks), cfg, Path(wsh)).action == "allow":
                rc, so, se, can = real_run(toks, wsh)
                out.case(("cmdline-shadow", toks))
                if can:
                    out.violations.append({"kind": "cmdline", "scenario": "m-shadow", "tokens": toks, "canaries": can,
                                           "what": "approved `python -m calendar` runs ./calendar.py from the command's directory",
                                           "signature_text": "cmdline[calendar.py in cwd]: python -m calendar"})
        out.extra["cmdline_spec_vs_cpython"] = {"argv_compared": spec_checked, "mismatches": spec_mismatch, "markers_cannot_tell": spec_unknown}
        out.extra["approved_cmdlines_executed"] = len([1 for r in real_results if r[1] == "allow"])

        # (4) metamorphic: what follows the program does not change the decision
        suffix_checked = 0
        for key, dec in placement.items():
            toks = list(key)
            for cut in range(2, len(toks)):
                head = tuple(toks[:cut])
                opts = toks[1:cut - 1]
                if opts and opts[-1] in ("-c", "-m"):
                    opts = opts[:-1]
                elif toks[cut - 1].startswith("-"):
                    continue
                if head in placement and all(t in ("-B", "-u") for t in opts):
                    suffix_checked += 1
                    if placement[head] != dec:
                        out.violations.append({"kind": "placement", "what": f"tokens after the script change the decision: {placement[head]} -> {dec}",
                                               "tokens": toks, "head": list(head), "analysis_cwd": work,
                                               "signature_text": "placement: " + " ".join(["python"] + toks[1:])})
        out.extra["placement_pairs_checked"] = suffix_checked

        lap("command_lines")
        # =================================================================== environment of the script
        if not replay or replay.get("env_case") is not None:
            out.extra["environment"] = c17_env.run_env(out, H, AN, cfg, scratch.root, tier, rng, replay if replay else None,
                                                       model if model.available else None, dump, decoy, xcheck)
    finally:
        os.chdir(old_cwd)
        model.close()
        scratch.close()

    if os.environ.get("C17_DUMP"):
        with open(os.environ["C17_DUMP"], "w") as f:
            json.dump({"violations": out.violations, "disagreements": out.disagreements}, f, indent=1, default=str)
    lap("environment")
    n, mism = core.coq_crosscheck("C17", xcheck)
    lap("coq_crosscheck")
    out.extra["timing_s"] = timing
    out.extra["coq_vm_crosscheck"] = {"cases": n, "mismatches": len(mism)}
    if mism:
        out.disagreements.append({"correspondence": "extracted OCaml model <-> vm_compute in Coq", "detail": mism[:5]})
    out.extra["rule"] = (
        "scripts: systematic = every directly dangerous construct (7 expressions, 21 statements, 26 reflection attributes) x "
        "every syntactic position (100+ expression contexts, 15 statement contexts: decorators, comprehensions, class bodies, lambda, "
        "walrus, match, f-strings, ...) + every indirect access path (aliasing of a dangerous builtin in 24 forms, attribute chains "
        "from each safe module to sys/os/io/codecs/builtins/... discovered by introspection, operator/functools/typing string "
        "indirection, import shadowing by a sibling file, PEP 263 coding cookies) + the public callables of every safe module with "
        "5-6 argument shapes; random = fillers + a fragment under nested contexts; hand-built grammar-violating trees for the visitor. "
        "command lines: all sequences of <=2 (quick) / <=3 (thorough) tokens over a 21-token core alphabet, named witnesses, "
        "option-placement suffixes, random sequences to length 6 over 80 tokens; analysis cwd != process cwd (a decoy directory with "
        "safe/unsafe roles swapped). environment: 40 access paths (spelling x link structure) x 3 places x 7 (quick) / 14 (thorough) "
        "neighbour kinds for a fixed module + every safe module through a rotating (access, place, kind); every safe module x import "
        "form x shadow kind, and each of its transitively loaded modules (discovered) x kind; import-free scripts that import implicitly; "
        "-m calendar x cwd contents; every PYTHON* variable of --help-env x 10 ways of passing it, every -X option x 4 spellings, 23 wrappers, "
        "25 directory changes x 2-4 groupings, 14 command-name spellings, 18 stdin / second-command shapes; 33 script words bash rewrites; all "
        "component sequences of length <=3 (quick) / <=4 over an 11-component path alphabet, relative and absolute, in one layout holding every "
        "link structure (same real file => same verdict). distinct = distinct (script | tree | token list | jail layout + command); a "
        "violation needs an approval by the real code AND an observed audit event / canary file / change of the jail.")
    return out
