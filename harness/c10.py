"""C10 - config layers: user (~/.dippy/config), nearest .dippy walking up from the cwd, then $DIPPY_CONFIG,
in that order; absent layers are skipped; any layout behaves like ONE file holding the three texts.

Real directory trees are built in a scratch root.  For every layout:
  * implementation-level oracle (model-free): the real hook subprocess, run on a family of probe inputs
    (shell commands, a redirect, an MCP tool, PostToolUse feedback, the decision log), must answer exactly as a
    run whose ONLY configuration is one user file holding the texts of the present layers concatenated in the
    order user, nearest project, env.  Which layers are present is the generator's own knowledge of what it
    put on disk.  In-process: load_config's observable fields == parse_config(concatenated text)'s.
    A layer that exists but cannot be read/examined must make every answer `ask`.
  * correspondence: Coq model load_config / find_project / parse_lines / merge (extracted) against the real
    load_config / _find_project_config / parse_config / _merge_configs in a child process (HOME set before import),
    with the layout described by the generator (file, directory, link chain, dangling, denied, ...) and the real
    parse_config answering what one line does.
"""
from __future__ import annotations

import itertools
import json
import os
import random
import select
import shutil
import stat
import subprocess
import tempfile
from concurrent.futures import ThreadPoolExecutor

from . import core, lib

TRUSTED = [
    "Coq 8.16.1 kernel and its VM (vm_compute for the closed witnesses and Examples)",
    "axioms: none (every theorem of Props/C10.v prints 'Closed under the global context')",
    "C10_concat states the homomorphism of parse_config as explicit premises; C10_parse_hom_lines discharges them for "
    "every line-by-line parser over text.split('\\n'); that parse_config IS such a parser is checked behaviourally "
    "(model parse_lines with the real parse_config as the one-line oracle == real parse_config on whole texts)",
    "modelled, not verified: the filesystem (stat/readlink/read as the entry kinds of Model/Layers.v), pathlib "
    "(Path.resolve, Path.is_file's errno filtering, Path.expanduser), os.environ; the rule matcher and the rest of the "
    "hook are exercised only through the real subprocess",
    "extraction: ExtrOcamlBasic only; OCaml 4.13.1; ocaml/driver.ml; cross-checked in Coq by vm_compute on a sample",
    "harness: harness/c10.py builds the trees and knows what it built (ground truth for 'which layers are present'); "
    "setpriv (util-linux) drops CAP_DAC_OVERRIDE/CAP_DAC_READ_SEARCH so that root sees permission errors",
]

PY = "/venv/bin/python"
HANG_S = 15
FILEISH = {"file", "link-file", "link-link-file", "rel-link-file", "noread", "baddecode"}
PROJ_KINDS = ["file", "absent", "dir", "link-file", "link-link-file", "rel-link-file", "link-dir", "dangling", "loop",
              "fifo", "noread", "link-denied", "baddecode"]
USER_KINDS = ["file", "absent", "dir", "no-dotdir", "dotdir-is-file", "link-file", "dangling", "noread", "denied",
              "baddecode"]
ENV_KINDS = ["unset", "empty", "file", "link-file", "dir", "missing", "dangling", "nouser", "tilde", "devnull", "fifo",
             "relative", "trailing-slash", "noread", "denied", "baddecode"]
NEEDS_CAPDROP = {"noread", "denied", "link-denied"}
DECISIONS = ["allow", "deny", "ask"]

CS_DEFAULT = "dippy/core/config.py:_merge_configs:default"
CS_NOUSER = "dippy/core/config.py:load_config:expanduser"
CS_PROJ_DENIED = "dippy/core/config.py:_find_project_config:is_file"


# ------------------------------------------------------------------------------------------------ texts
class Texts:
    """Layer texts are generated with the placeholder @ROOT@ for the scratch root (so that a replay file is
    valid in another scratch root); check_case substitutes it."""

    def __init__(self, root):
        self.real_out = os.path.join(root, "out")
        self.logs = os.path.join(root, "logs")
        self.out = "@ROOT@/out"
        self.gen_logs = "@ROOT@/logs"

    def layer(self, rng, who, tag, dec, full=False):
        """One layer's config text.  who: u|p|e, tag: shown in messages, dec: this layer's opinion on everything shared."""
        def maybe(line, p=0.72):
            return [line] if full or rng.random() < p else []
        msg = "" if dec == "allow" else f' "{tag} says {dec}"'
        lines = []
        lines += maybe(f"{dec} zap{msg}")
        lines += [f'deny {who}_only "{tag}"']
        lines += maybe(f"alias myz t_{dec}")
        lines += ["allow t_allow", 'deny t_deny "td"', 'ask t_ask "ta"']
        lines += maybe(f"{dec}-redirect {self.out}/shared.txt")
        lines += maybe(f"{dec}-mcp mcp__srv__shared")
        lines += maybe(f'after zap "{tag}"')
        lines += maybe(f'after-mcp mcp__srv__shared "{tag}"')
        if who == "p":
            lines += [f'after pafter "{tag}"']
        if not full:
            if rng.random() < 0.35:
                lines.append(f"set log {self.gen_logs}/{who}.log")
            if rng.random() < 0.3:
                lines.append("set log-full")
            if rng.random() < 0.35:
                lines.append("set default " + rng.choice(["allow", "ask"]))
            if rng.random() < 0.3:
                lines.append(f"alias {who}key t_deny")
            rng.shuffle(lines)
            for _ in range(rng.randint(0, 3)):   # malformed / inert lines anywhere
                junk = rng.choice(["", "   ", "# comment", "frobnicate x", "allow", "set", "set nothing", "alias one",
                                   'deny "only a message"', "set default yolo", "#", "\t", "ask  ", "# café ☃",
                                   "set log", "alias a b c", "allow-mcp", "ALLOW upper_case_directive"])
                lines.insert(rng.randint(0, len(lines)), junk)
        text = "\n".join(lines)
        if full or rng.random() < 0.6:
            text += "\n"
        return text


class Probe:
    def __init__(self, name, tool, tool_input, event="PreToolUse"):
        self.name, self.tool, self.tool_input, self.event = name, tool, tool_input, event


def probes(tx: Texts):
    sh = lambda name, cmd, ev="PreToolUse": Probe(name, "Bash", {"command": cmd}, ev)  # noqa: E731
    return [
        sh("zap", "zap x"), sh("u_only", "u_only x"), sh("p_only", "p_only x"), sh("e_only", "e_only x"),
        sh("alias", "myz x"), sh("redirect", f"echo hi > {tx.real_out}/shared.txt"),
        Probe("mcp", "mcp__srv__shared", {}),
        sh("after", "zap x", "PostToolUse"), sh("pafter", "pafter x", "PostToolUse"),
        Probe("after-mcp", "mcp__srv__shared", {}, "PostToolUse"),
    ]


def canonical(stdout: str) -> str:
    s = stdout.strip()
    if not s:
        return "silent"
    try:
        d = json.loads(s)
    except ValueError:
        return "text:" + s
    if d == {}:
        return "none"
    if isinstance(d, dict) and "hookSpecificOutput" in d:
        return "decision:" + str(d["hookSpecificOutput"].get("permissionDecision"))
    return "json:" + json.dumps(d, sort_keys=True)


# ------------------------------------------------------------------------------------------------ scratch world
class World:
    def __init__(self):
        self.root = os.path.realpath(tempfile.mkdtemp(prefix="dippy-verif-"))
        os.chmod(self.root, 0o755)
        for d in ("home", "trees", "store", "links", "out", "logs", "procwd", "envs"):
            os.makedirs(os.path.join(self.root, d))
        # the one-concatenated-file runs live in a scratch directory of their own: nothing a layout puts into the
        # world (a .dippy at its very top included) is an ancestor of their cwd or of their HOME
        self.aside = os.path.realpath(tempfile.mkdtemp(prefix="dippy-verif-"))
        os.chmod(self.aside, 0o755)
        for d in ("chome", "neutral"):
            os.makedirs(os.path.join(self.aside, d))
        self.home = os.path.join(self.root, "home")
        self.tx = Texts(self.root)
        self.capdrop = self._probe_capdrop()
        self.pool = ThreadPoolExecutor(max_workers=8)
        self.worker = None
        self.locked = []  # paths chmod 000, restored before removal
        self.concat_cache = {}
        self.concat_log_cache = {}
        self.hook_runs = 0

    def _probe_capdrop(self):
        if not shutil.which("setpriv"):
            return None
        pre = ["setpriv", "--bounding-set=-dac_override,-dac_read_search"]
        p = os.path.join(self.root, "capprobe")
        with open(p, "w") as f:
            f.write("x")
        os.chmod(p, 0)
        try:
            r = subprocess.run(pre + [PY, "-c", f"open({p!r}).read()"], capture_output=True, text=True, timeout=30)
            ok = r.returncode != 0 and "PermissionError" in r.stderr
        except Exception:
            ok = False
        os.chmod(p, 0o644)
        os.remove(p)
        if ok:
            return pre
        # not root (permissions apply anyway) ?
        return [] if os.geteuid() != 0 else None

    def pre(self):
        return self.capdrop or []

    # ---- worker (real dippy.core.config with HOME = scratch home)
    def start_worker(self):
        env = {"HOME": self.home, "PATH": "/usr/bin:/bin", "DIPPY_REPO": lib.REPO, "PYTHONHASHSEED": "0"}
        self.worker = subprocess.Popen(self.pre() + [PY, os.path.join(lib.VERIF, "harness", "c10_worker.py")],
                                       stdin=subprocess.PIPE, stdout=subprocess.PIPE, text=True, env=env,
                                       cwd=os.path.join(self.root, "procwd"))

    def ask(self, **req):
        self.worker.stdin.write(json.dumps(req) + "\n")
        self.worker.stdin.flush()
        ready, _, _ = select.select([self.worker.stdout], [], [], HANG_S)
        if not ready:                       # the real code hangs (e.g. it opened a fifo): that is an answer too
            self.worker.kill()
            self.worker.wait()
            self.start_worker()
            return {"crash": "hang"}
        line = self.worker.stdout.readline()
        if not line:
            raise RuntimeError("c10 worker died")
        out = json.loads(line)
        if "error" in out:
            raise RuntimeError("c10 worker: " + out["error"])
        return out

    # ---- hook subprocess
    def hook(self, probe: Probe, cwd, via, home, envv, proc_cwd=None):
        d = {"tool_name": probe.tool, "tool_input": dict(probe.tool_input), "hook_event_name": probe.event}
        if via == "json":
            d["cwd"] = cwd
        elif via == "tool_input":
            d["tool_input"]["cwd"] = cwd
        env = {"HOME": home, "PATH": "/usr/bin:/bin", "PYTHONHASHSEED": "0"}
        if envv is not None:
            env["DIPPY_CONFIG"] = envv
        pcwd = cwd if via == "process" else (proc_cwd or os.path.join(self.root, "procwd"))
        self.hook_runs += 1
        try:
            r = subprocess.run(self.pre() + [PY, os.path.join(lib.REPO, "bin", "dippy-hook")], input=json.dumps(d),
                               capture_output=True, text=True, env=env, cwd=pcwd, timeout=HANG_S)
        except subprocess.TimeoutExpired:
            return "hang"
        return canonical(r.stdout)

    def clear_logs(self):
        for f in os.listdir(self.tx.logs):
            os.remove(os.path.join(self.tx.logs, f))

    def read_logs(self):
        out = {}
        for f in sorted(os.listdir(self.tx.logs)):
            try:
                with open(os.path.join(self.tx.logs, f)) as fh:
                    lines = [l for l in fh.read().splitlines() if l.strip()]
                out[f] = [sorted(k for k in json.loads(l) if k != "ts") + [json.loads(l).get("decision")] for l in lines]
            except Exception as e:
                out[f] = f"unreadable log: {type(e).__name__}"
        return out

    def submit_vector(self, cwd, via, home, envv):
        """Start the probe runs; returns a thunk that waits for them."""
        ps = probes(self.tx)
        futs = [self.pool.submit(self.hook, p, cwd, via, home, envv) for p in ps]
        return lambda: {p.name: f.result() for p, f in zip(ps, futs)}

    def log_probe(self, cwd, via, home, envv):
        """Which decision-log files one run writes and with which fields (nothing else may be running)."""
        self.clear_logs()
        vec = {"log:answer": self.hook(probes(self.tx)[0], cwd, via, home, envv)}
        vec["log:files"] = json.dumps(self.read_logs(), sort_keys=True)
        self.clear_logs()
        return vec

    def concat_home(self, text):
        key = lib.sha(text)
        home = os.path.join(self.aside, "chome", key)
        if not os.path.isdir(home):
            os.makedirs(os.path.join(home, ".dippy"))
            with open(os.path.join(home, ".dippy", "config"), "w", encoding="utf-8") as f:
                f.write(text)
        return key, home

    def submit_concat(self, text):
        key, home = self.concat_home(text)
        if key in self.concat_cache:
            return lambda: self.concat_cache[key]
        thunk = self.submit_vector(os.path.join(self.aside, "neutral"), "json", home, None)

        def collect():
            self.concat_cache[key] = thunk()
            return self.concat_cache[key]
        return collect

    def concat_log_probe(self, text):
        key, home = self.concat_home(text)
        if key not in self.concat_log_cache:
            self.concat_log_cache[key] = self.log_probe(os.path.join(self.aside, "neutral"), "json", home, None)
        return self.concat_log_cache[key]

    def concat_vector(self, text, with_log):
        vec = dict(self.submit_concat(text)())
        if with_log:
            vec.update(self.concat_log_probe(text))
        return vec

    def close(self):
        try:
            if self.worker:
                self.worker.stdin.close()
                self.worker.wait(timeout=5)
        except Exception:
            if self.worker:
                self.worker.kill()
        self.pool.shutdown(wait=False)
        for p in self.locked:
            try:
                os.chmod(p, 0o755)
            except OSError:
                pass
        shutil.rmtree(self.root, ignore_errors=True)
        shutil.rmtree(self.aside, ignore_errors=True)


# ------------------------------------------------------------------------------------------------ building a layout
def write(path, text):
    with open(path, "w", encoding="utf-8", newline="") as f:
        f.write(text)


def put(world: World, path, kind, text, uid):
    """Create `path` as `kind`; return (wire entry, text-or-None).  uid makes side files unique."""
    store = os.path.join(world.root, "store")
    T = lambda t: ["file", ["text", t]]  # noqa: E731
    if kind == "absent" or kind in ("unset", "empty", "missing", "no-dotdir"):
        return ["absent"], None
    if kind == "file":
        write(path, text)
        return T(text), text
    if kind == "dir":
        os.makedirs(path)
        return ["dir"], None
    if kind == "link-file":
        tgt = os.path.join(store, f"f-{uid}")
        write(tgt, text)
        os.symlink(tgt, path)
        return ["link", T(text)], text
    if kind == "rel-link-file":
        tgt = os.path.join(os.path.dirname(path), f"dippy-target-{uid}")
        write(tgt, text)
        os.symlink(os.path.basename(tgt), path)
        return ["link", T(text)], text
    if kind == "link-link-file":
        tgt = os.path.join(store, f"f-{uid}")
        mid = os.path.join(store, f"m-{uid}")
        write(tgt, text)
        os.symlink(tgt, mid)
        os.symlink(mid, path)
        return ["link", ["link", T(text)]], text
    if kind == "link-dir":
        tgt = os.path.join(store, f"d-{uid}")
        os.makedirs(tgt)
        os.symlink(tgt, path)
        return ["link", ["dir"]], None
    if kind == "dangling":
        os.symlink(os.path.join(store, f"nothing-{uid}"), path)
        return ["dangling"], None
    if kind == "loop":
        os.symlink(os.path.basename(path), path)
        return ["dangling"], None
    if kind == "fifo":
        os.mkfifo(path)
        return ["special"], None
    if kind == "noread":
        write(path, text)
        os.chmod(path, 0)
        world.locked.append(path)
        return ["file", ["perm"]], "<unreadable>"
    if kind == "link-denied":
        d = os.path.join(store, f"locked-{uid}")
        os.makedirs(d)
        write(os.path.join(d, "f"), text)
        os.symlink(os.path.join(d, "f"), path)
        os.chmod(d, 0)
        world.locked.append(d)
        return ["link", ["denied"]], None
    if kind == "baddecode":
        with open(path, "wb") as f:
            f.write(b"allow zap\n\xff\xfe\n")
        return ["file", ["decode"]], "<undecodable>"
    raise ValueError(kind)


def classify_real(path):
    """Entries we did not create (ancestors of the scratch root)."""
    try:
        st = os.stat(path)
    except FileNotFoundError:
        return (["dangling"], None) if os.path.lexists(path) else (["absent"], None)
    except PermissionError:
        return ["denied"], None
    except OSError:
        return ["absent"], None
    if stat.S_ISREG(st.st_mode):
        try:
            with open(path, encoding="utf-8") as f:
                t = f.read()
            return ["file", ["text", t]], t
        except Exception:
            return ["file", ["oserr"]], "<unreadable>"
    return (["dir"], None) if stat.S_ISDIR(st.st_mode) else (["special"], None)


def reset_home(world: World):
    for name in (".dippy", "envcfg"):
        p = os.path.join(world.home, name)
        if os.path.islink(p) or os.path.isfile(p):
            os.remove(p)
        elif os.path.isdir(p):
            os.chmod(p, 0o755)
            shutil.rmtree(p)


def build(world: World, spec):
    """Create the layout on disk.  Returns dict(user, chain, env, cwd, envv, layers, ...) - the generator's ground truth."""
    i = spec["id"]
    reset_home(world)
    home = world.home
    # ---- user layer: HOME/.dippy/config
    uk = spec["user"]["kind"]
    dot = os.path.join(home, ".dippy")
    ucfg = os.path.join(dot, "config")
    home_dot = (["dir"], None)           # what HOME/.dippy is, should the chain pass through HOME
    if uk == "no-dotdir":
        u_entry, u_text = ["absent"], None
        home_dot = (["absent"], None)
    elif uk == "dotdir-is-file":
        write(dot, spec["dotdir_text"])
        u_entry, u_text = ["absent"], None
        home_dot = (["file", ["text", spec["dotdir_text"]]], spec["dotdir_text"])
    elif uk == "denied":
        os.makedirs(dot)
        write(ucfg, spec["user"]["text"])
        os.chmod(dot, 0)
        world.locked.append(dot)
        u_entry, u_text = ["denied"], None
    else:
        os.makedirs(dot)
        u_entry, u_text = put(world, ucfg, uk, spec["user"]["text"], f"u{i}")
    # ---- tree
    base = os.path.join(home if spec["under_home"] else world.root, "trees", f"t{i}")
    n = spec["depth"]
    dirs = [base]
    for k in range(1, n + 1):
        dirs.append(os.path.join(dirs[-1], f"L{k}"))
    os.makedirs(dirs[-1])
    chain = []
    for idx, lv in enumerate(spec["levels"]):          # idx 0 = cwd (deepest)
        d = dirs[n - idx]
        ent, text = put(world, os.path.join(d, ".dippy"), lv["kind"], lv.get("text"), f"p{i}-{idx}")
        chain.append((os.path.join(d, ".dippy"), ent, text))
    # ---- ancestors of the base directory up to /
    a = os.path.dirname(base)
    while True:
        cand = os.path.join(a, ".dippy")
        if a == home:
            chain.append((cand, home_dot[0], home_dot[1]))
        else:
            ent, text = classify_real(cand)
            chain.append((cand, ent, text))
        if os.path.dirname(a) == a:
            break
        a = os.path.dirname(a)
    # ---- cwd as handed to the hook
    real_cwd = dirs[-1]
    cwd = real_cwd
    if spec["cwd_mode"] != "direct":
        ld = os.path.join(world.root, "links", f"d{i}")
        os.makedirs(ld)
        if spec["decoy"]:
            write(os.path.join(ld, ".dippy"), 'deny zap "DECOY"\ndeny p_only "DECOY"\nafter pafter "DECOY"\nalias myz t_deny\n')
        if spec["cwd_mode"] == "link" or n < 2:
            os.symlink(real_cwd, os.path.join(ld, "cwd"))
            cwd = os.path.join(ld, "cwd")
        else:                                           # the link points part-way down, the rest is walked through it
            os.symlink(dirs[n - 1], os.path.join(ld, "mid"))
            cwd = os.path.join(ld, "mid", f"L{n}")
    # ---- env layer
    ek = spec["env"]["kind"]
    et = spec["env"].get("text")
    ep = os.path.join(world.root, "envs", f"e{i}")
    envv, env_wire, e_text = None, ["unset"], None
    if ek == "unset":
        pass
    elif ek == "empty":
        envv, env_wire = "", ["empty"]
    elif ek == "nouser":
        envv, env_wire = "~nosuchuser-dippy-verif/x", ["nouser"]
    elif ek == "tilde":
        write(os.path.join(home, "envcfg"), et)
        envv, env_wire, e_text = "~/envcfg", ["at", [os.path.join(home, "envcfg"), ["file", ["text", et]]]], et
    elif ek == "devnull":
        envv, env_wire = "/dev/null", ["at", ["/dev/null", ["special"]]]
    elif ek == "relative":
        name = f"relcfg{i}"
        write(os.path.join(world.root, "procwd", name), et)
        envv, env_wire, e_text = name, ["at", [name, ["file", ["text", et]]]], et
    elif ek == "trailing-slash":
        write(ep, et)
        envv, env_wire, e_text = ep + "/", ["at", [ep, ["file", ["text", et]]]], et
    elif ek == "missing":
        envv, env_wire = ep, ["at", [ep, ["absent"]]]
    elif ek == "denied":
        d = os.path.join(world.root, "envs", f"locked{i}")
        os.makedirs(d)
        write(os.path.join(d, "f"), et)
        os.chmod(d, 0)
        world.locked.append(d)
        envv, env_wire = os.path.join(d, "f"), ["at", [os.path.join(d, "f"), ["denied"]]]
    else:
        ent, e_text = put(world, ep, ek, et, f"e{i}")
        envv, env_wire = ep, ["at", [ep, ent]]
    return {
        "user": [ucfg, u_entry], "u_text": u_text, "chain": chain, "env": env_wire, "e_text": e_text,
        "cwd": cwd, "real_cwd": real_cwd, "envv": envv,
    }


def intent(spec, b):
    """What the property says this layout means, from the generator's knowledge only.
    -> ("layers", [u, p, e] texts or None) | ("unreadable", why) | ("undecodable", why)"""
    denied = (["denied"], ["link", ["denied"]])
    problems = []          # in the order user, project, env
    u = b["u_text"]
    if b["user"][1] in denied:
        problems.append(("unreadable", "user config cannot be examined"))
    p = None
    for path, ent, text in b["chain"]:
        if text is not None:
            p = text
            break
        if ent in denied:
            problems.append(("unreadable", "project file cannot be examined"))
            break
    e = b["e_text"]
    if b["env"][0] == "at" and b["env"][1][1] in denied:
        problems.append(("unreadable", "env config cannot be examined"))
    for t, why in ((u, "user config"), (p, "project config"), (e, "env config")):
        if t == "<unreadable>":
            problems.append(("unreadable", why + " unreadable"))
        elif t == "<undecodable>":
            problems.append(("undecodable", why + " undecodable"))
    for kind, why in problems:
        if kind == "undecodable":        # outside this property's oracle (config-text property)
            return (kind, why)
    if problems:
        return problems[0]
    return ("layers", [u, p, e])


def cat3(layers):
    return "\n".join(t if t is not None else "" for t in layers)


# ------------------------------------------------------------------------------------------------ generator
def mk_spec(rng, tx: Texts, i, depth=None, kinds=None, user="file", env="file", under_home=False, cwd_mode="direct",
            decoy=False, cwd_via="json", perm=None, full=False, texts=None):
    depth = depth if depth is not None else rng.randint(1, 8)
    perm = perm or rng.sample(DECISIONS, 3)
    kinds = kinds if kinds is not None else ["absent"] * (depth + 1)
    assert len(kinds) == depth + 1
    levels = []
    for idx, k in enumerate(kinds):
        lv = {"kind": k}
        if k in FILEISH or k == "link-denied":
            lv["text"] = (texts or {}).get(f"p{idx}") or tx.layer(rng, "p", f"P{idx}", perm[1], full)
        levels.append(lv)
    return {
        "id": i, "depth": depth, "levels": levels, "under_home": under_home, "cwd_mode": cwd_mode, "decoy": decoy,
        "cwd_via": cwd_via,
        "user": {"kind": user, "text": (texts or {}).get("u") or tx.layer(rng, "u", "U", perm[0], full)},
        "dotdir_text": tx.layer(rng, "p", "PHOME", perm[1], full),
        "env": {"kind": env, "text": (texts or {}).get("e") or tx.layer(rng, "e", "E", perm[2], full)},
    }


def systematic(rng, tx, capdrop_ok, quick=True):
    specs = []
    add = lambda **kw: specs.append(mk_spec(rng, tx, len(specs), **kw))  # noqa: E731
    ok = lambda k: capdrop_ok or k not in NEEDS_CAPDROP  # noqa: E731
    # presence product, every assignment of the three opinions to the three layers
    for perm in itertools.permutations(DECISIONS):
        for u in ("absent", "file"):
            for p in (None, 0, 1):
                for e in ("unset", "file"):
                    kinds = ["absent"] * 3
                    if p is not None:
                        kinds[p] = "file"
                    if perm == tuple(DECISIONS) or rng.random() < 0.25:
                        add(depth=2, kinds=kinds, user=u, env=e, perm=list(perm), full=True)
    # every kind of .dippy at the cwd, with and without a regular file above it
    for k in PROJ_KINDS:
        if ok(k):
            add(depth=2, kinds=[k, "absent", "absent"])
            add(depth=2, kinds=[k, "file", "absent"])
            if not quick:
                add(depth=3, kinds=["absent", k, "absent", "file"])
    # every kind of user config and of $DIPPY_CONFIG
    for k in USER_KINDS:
        if ok(k):
            add(depth=1, kinds=["file", "absent"], user=k)
            add(depth=2, kinds=["absent"] * 3, user=k, under_home=True)
    for k in ENV_KINDS:
        if ok(k):
            add(depth=1, kinds=["file", "absent"], env=k)
            add(depth=1, kinds=["absent", "absent"], env=k, user="absent")
    # depth 1..8, the only file at each level; then two files (the nearer one wins)
    for d in ((1, 2, 3, 5, 8) if quick else range(1, 9)):
        for j in range(d + 1):
            kinds = ["absent"] * (d + 1)
            kinds[j] = "file"
            add(depth=d, kinds=kinds, env="unset" if (d + j) % 2 else "file")
    for d, j, j2 in [(2, 0, 2), (3, 1, 2), (5, 2, 5), (8, 0, 8), (8, 3, 7), (6, 1, 2)]:
        kinds = ["absent"] * (d + 1)
        kinds[j] = "file"
        kinds[j2] = rng.choice(["file", "link-file"])
        add(depth=d, kinds=kinds)
    # how the cwd reaches the hook; symlinked cwd with a decoy .dippy next to the link
    for mode in ("direct", "link", "link-mid"):
        for via in ("json", "tool_input", "process"):
            add(depth=3, kinds=["absent", "file", "absent", "absent"], cwd_mode=mode, decoy=True, cwd_via=via)
            add(depth=2, kinds=["absent"] * 3, cwd_mode=mode, decoy=True, cwd_via=via)
    # the cwd below HOME: the chain passes HOME/.dippy (a directory)
    add(depth=2, kinds=["absent"] * 3, under_home=True)
    add(depth=4, kinds=["dir", "absent", "file", "absent", "absent"], under_home=True)
    add(depth=2, kinds=["absent"] * 3, under_home=True, user="dotdir-is-file")
    # `default`: the known divergence and its neighbours
    for ut, pt, et in [("set default allow\n", "set default ask\n", None), ("set default allow\n", None, "set default ask\n"),
                       ("set default ask\n", "set default allow\n", None), ("set default allow\n", "allow zap\n", "deny zap\n")]:
        texts = {"u": ut + "allow zap\n"}
        kinds = ["absent", "absent"]
        if pt:
            texts["p0"] = pt
            kinds[0] = "file"
        if et:
            texts["e"] = et
        add(depth=1, kinds=kinds, env="file" if et else "unset", texts=texts)
    return specs


def rand_spec(rng, tx, i, capdrop_ok):
    pick = lambda kinds, w: rng.choices(kinds, weights=w)[0]  # noqa: E731
    depth = rng.randint(1, 8)
    kinds = []
    for _ in range(depth + 1):
        k = pick(PROJ_KINDS, [5, 9, 3, 2, 1, 1, 1, 1, 1, 1, 0.4, 0.4, 0.2])
        kinds.append(k if (capdrop_ok or k not in NEEDS_CAPDROP) else "absent")
    user = pick(USER_KINDS, [10, 4, 1, 1, 1, 2, 1, 0.4, 0.4, 0.2])
    env = pick(ENV_KINDS, [5, 1, 8, 2, 1, 1, 1, 0.6, 1, 0.5, 0.5, 1, 1, 0.4, 0.4, 0.2])
    if not capdrop_ok:
        user = user if user not in NEEDS_CAPDROP else "file"
        env = env if env not in NEEDS_CAPDROP else "file"
    via = pick(["json", "tool_input", "process"], [5, 2, 2])
    return mk_spec(rng, tx, i, depth=depth, kinds=kinds, user=user, env=env, under_home=rng.random() < 0.2,
                   cwd_mode=pick(["direct", "link", "link-mid"], [5, 2, 2]), decoy=rng.random() < 0.7, cwd_via=via)


# ------------------------------------------------------------------------------------------------ comparison helpers
def model_cfg(m):
    """wire config -> the worker's JSON shape."""
    o = lambda x: x[0] if x else None  # noqa: E731
    return {
        "fams": [[[r[0], r[1], o(r[2]), o(r[3]), o(r[4]), r[5] == "1"] for r in fam] for fam in m[0:5]],
        "aliases": [[k, v] for k, v in m[5]],
        "default": m[6], "log": o(m[7]), "log_full": m[8] == "1",
    }


def observable(cfg):
    return {"fams": [[[r[0], r[1], r[2], r[5]] for r in fam] for fam in cfg["fams"]], "aliases": cfg["aliases"],
            "log": cfg["log"], "log_full": cfg["log_full"]}


def known_default(layers_cfgs):
    """The layered `default` under the known rule (a later 'ask' never overrides)."""
    d = "ask"
    for c in layers_cfgs:
        if c is not None and c["default"] != "ask":
            d = c["default"]
    return d


# ------------------------------------------------------------------------------------------------ self-test of the probes
def discrimination(world: World, out):
    """The probe family must see which layers are present and, for every pair, their order."""
    rng = random.Random(1)
    tx = world.tx
    t = {"u": tx.layer(rng, "u", "U", "allow", True), "p": tx.layer(rng, "p", "P", "deny", True),
         "e": tx.layer(rng, "e", "E", "ask", True)}
    for k in t:
        t[k] = subst(t[k] + f"set log {tx.gen_logs}/{k}.log\n", world.root)
    t["u"] += "set log-full\n"
    vecs = {}
    for r in range(4):
        for sub in itertools.permutations("upe", r):
            vecs[sub] = json.dumps(world.concat_vector("\n".join(t[k] for k in sub), True), sort_keys=True)
    subsets = [s for s in vecs if list(s) == sorted(s, key="upe".index)]
    bad = []
    for a, b in itertools.combinations(subsets, 2):
        if vecs[a] == vecs[b]:
            bad.append(f"presence {a} vs {b} not distinguished")
    for a in vecs:
        for b in vecs:
            if a < b and sorted(a) == sorted(b) and len(a) == 2 and vecs[a] == vecs[b]:
                bad.append(f"order {a} vs {b} not distinguished")
    if vecs[("u", "p", "e")] == vecs[("e", "p", "u")]:
        bad.append("order upe vs epu not distinguished")
    out.extra["probe_discrimination"] = {"vectors": len(vecs), "distinct": len(set(vecs.values())), "problems": bad}
    for x in bad:
        out.disagreements.append({"correspondence": "generator: probes do not discriminate", "detail": x})


# ------------------------------------------------------------------------------------------------ one case
def subst(x, root):
    if isinstance(x, str):
        return x.replace("@ROOT@", root)
    if isinstance(x, list):
        return [subst(y, root) for y in x]
    if isinstance(x, dict):
        return {k: subst(v, root) for k, v in x.items()}
    return x


def check_case(world: World, model, out, spec, line_cache, xcheck):
    raw_spec = spec
    spec = subst(spec, world.root)
    b = build(world, spec)
    what, val = intent(spec, b)
    via = spec["cwd_via"]
    if spec["env"]["kind"] == "relative" and via == "process":
        via = "json"
    proj_level = next((idx for idx, (_, _, t) in enumerate(b["chain"]) if t is not None), None)
    rec = {"spec": raw_spec, "cwd": b["cwd"], "DIPPY_CONFIG": b["envv"], "intent": [what, val]}
    present = "".join(c for c, t in zip("upe", val) if t is not None) if what == "layers" else what
    canonical_case = [spec["user"]["kind"], [l["kind"] for l in spec["levels"]], spec["env"]["kind"], spec["under_home"],
                      spec["cwd_mode"], spec["cwd_via"], spec["depth"],
                      [spec["user"]["text"], [l.get("text") for l in spec["levels"]], spec["env"]["text"]]]
    out.case(canonical_case, nontrivial=(what != "layers" or len(present) >= 1))
    out.count("layers_present", present or "none")
    out.count("depth", spec["depth"])
    out.count("user_kind", spec["user"]["kind"])
    out.count("env_kind", spec["env"]["kind"])
    out.count("cwd_mode", spec["cwd_mode"] + "/" + spec["cwd_via"])
    out.count("project_found_at", "none" if proj_level is None else min(proj_level, 9))
    for lv in spec["levels"]:
        out.count("dot_dippy_kind", lv["kind"])

    def violation(kind, what_text, call_site, **extra):
        out.violations.append({"kind": kind, "what": what_text, "call_site": call_site,
                               "signature_text": f"{call_site} | {what_text}", **rec, **extra})

    # ---------- implementation-level oracle 1: the hook subprocess against the one-file run
    texts_with_log = [t for t in [spec["user"]["text"], spec["env"]["text"], spec["dotdir_text"]] +
                      [l.get("text") or "" for l in spec["levels"]] if t and "set log " in t]
    with_log = bool(texts_with_log)
    got_t = world.submit_vector(b["cwd"], via, world.home, b["envv"])
    want_t = world.submit_concat(cat3(val)) if what == "layers" else None
    got = dict(got_t())
    want = dict(want_t()) if want_t else None
    if with_log:
        got.update(world.log_probe(b["cwd"], via, world.home, b["envv"]))
        if want is not None:
            want.update(world.concat_log_probe(cat3(val)))
    if what == "layers":
        if got != want:
            diff = {k: [got[k], want[k]] for k in got if got[k] != want[k]}
            pre = {k: v for k, v in got.items() if not k.startswith("log:files")}
            if spec["env"]["kind"] == "nouser" and set(pre.values()) == {"none"}:
                violation("hook-vs-one-file", "DIPPY_CONFIG=~nosuchuser/x (names no file): the hook prints {} for every input "
                          "instead of skipping the absent layer", CS_NOUSER, layers=val, got=got, want=want)
            else:
                violation("hook-vs-one-file", f"hook answers differ from the one-concatenated-file run on {sorted(diff)}",
                          "hook:layers-vs-one-file", layers=val, differences=diff, concatenated=cat3(val))
    elif what == "unreadable":
        pre = {k: v for k, v in got.items() if not k.startswith("log:files")}
        post = {p.name for p in probes(world.tx) if p.event == "PostToolUse"}
        # a config error answers ask; a PostToolUse event (advisory) prints nothing, or ask before /repo 007d10b
        bad = {k: v for k, v in pre.items() if not (v == "decision:ask" or (k in post and v == "silent"))}
        if bad:
            first_denied = next((e for _, e, t in b["chain"] if t is not None or e in (["link", ["denied"]], ["denied"])), None)
            user_ok = b["user"][1] != ["denied"] and b["u_text"] != "<unreadable>"
            if user_ok and first_denied in (["link", ["denied"]], ["denied"]) and set(pre.values()) == {"none"}:
                violation("unreadable-layer", "a .dippy that stat() is denied on: the hook prints {} for every input "
                          "instead of asking (the user and env layers turn the same error into a config error)",
                          CS_PROJ_DENIED, why=val, got=got)
            else:
                violation("unreadable-layer", f"{val}: expected ask for every input, got {sorted(set(pre.values()))}",
                          "hook:unreadable-layer-not-ask", why=val, got=got)
    else:
        out.count("oracle_skipped", "undecodable layer (config-text property)")

    # ---------- the real load_config in-process
    real = world.ask(op="load", cwd=b["cwd"] if via != "process" else b["real_cwd"], env=b["envv"], resolve=True)
    real_unres = world.ask(op="load", cwd=b["cwd"], env=b["envv"], resolve=False)
    kind_only = lambda r: {"configerr": True} if "configerr" in r else r  # noqa: E731  (never compare wording)
    if kind_only(real) != kind_only(real_unres):
        violation("resolve", "load_config(cwd) differs from load_config(cwd.resolve())", "load_config:resolve",
                  resolved=real, unresolved=real_unres)
    real_find = world.ask(op="find", cwd=b["cwd"])
    # implementation-level oracle 2: observable(load_config) == observable(parse_config(one file))
    if what == "layers":
        if "ok" not in real:
            if spec["env"]["kind"] == "nouser" and real == {"crash": "RuntimeError"}:
                violation("load-vs-one-file", "DIPPY_CONFIG=~nosuchuser/x: load_config raises RuntimeError (not ConfigError, "
                          "not skipped)", CS_NOUSER, real=real)
            else:
                violation("load-vs-one-file", f"load_config failed ({real}) although every present layer is readable",
                          "load_config:unexpected-failure", real=real)
        else:
            one = world.ask(op="parse", text=cat3(val))["ok"]
            if observable(real["ok"]) != observable(one):
                violation("load-vs-one-file", "observable fields of load_config differ from parse_config(concatenated text)",
                          "load_config:layers-vs-one-file", real=observable(real["ok"]), one_file=observable(one),
                          concatenated=cat3(val))
            scopes = [r[4] for r in real["ok"]["fams"][0]]
            if scopes != sorted(scopes, key=["user", "project", "env"].index):
                violation("order", f"rule scopes out of order: {scopes}", "load_config:scope-order")
            if real["ok"]["default"] != one["default"]:
                parsed = [None if t is None else world.ask(op="parse", text=t)["ok"] for t in val]
                if real["ok"]["default"] == known_default(parsed):
                    violation("default", f"`default` of the layers is {real['ok']['default']!r}, of the one concatenated file "
                              f"{one['default']!r}: a later `set default ask` does not override an earlier `set default allow` "
                              "(read nowhere in the hook)", CS_DEFAULT, layers=val)
                else:
                    violation("default", f"`default` {real['ok']['default']!r} matches neither the one-file value "
                              f"{one['default']!r} nor the known merge rule", "load_config:default-unexpected", layers=val)
    elif what == "unreadable":
        if "configerr" not in real:
            first_denied = next((e for _, e, t in b["chain"] if t is not None or e in (["link", ["denied"]], ["denied"])), None)
            user_ok = b["user"][1] != ["denied"] and b["u_text"] != "<unreadable>"
            if user_ok and first_denied in (["link", ["denied"]], ["denied"]) and real == {"crash": "PermissionError"}:
                violation("unreadable-layer", "_find_project_config lets PermissionError escape (no ConfigError)",
                          CS_PROJ_DENIED, real=real)
            else:
                violation("unreadable-layer", f"{val}: expected ConfigError, got {real}", "load_config:unreadable-not-configerror",
                          real=real)

    # ---------- correspondence: the Coq model on the generator's description of the layout
    def line_item(line):
        if line not in line_cache:
            line_cache[line] = world.ask(op="line_item", line=line)["ok"]
        eff = line_cache[line]
        if len(eff) > 1:
            raise lib.ModelError(f"one line with {len(eff)} effects: {line!r}")
        return [eff[0]] if eff else []

    chain_wire = [[p, e] for p, e, _ in b["chain"]]
    req = ["load_config", b["user"], chain_wire, b["env"]]
    do_rec = len(xcheck) < 30 and spec["id"] % 5 == 0
    try:
        mres = model.call(req, {"line_item": line_item}, record=do_rec)
        if do_rec and model.transcript is not None and len(model.transcript) < 80:
            xcheck.append((model.last_request, list(model.transcript), mres))
        mfind = model.call(["find_project", chain_wire], {})
    except lib.ModelError as e:
        out.disagreements.append({"correspondence": "Layers.load_config <-> config.load_config", "model": f"error {e}", **rec})
        return lib.Model()
    if mres[0] == "ok":
        mm = {"ok": model_cfg(mres[1])}
    else:
        mm = {mres[0]: True}
    rr = {"ok": real["ok"]} if "ok" in real else ({"configerr": True} if "configerr" in real else {"crash": True})
    out.count("load_outcome", next(iter(rr)))
    if mm != rr:
        d = {"correspondence": "Layers.load_config <-> config.load_config", "model": mm, "impl": real, **rec}
        out.disagreements.append(d)
    mf = {"ok": (mfind[1][0] if mfind[1] else None)} if mfind[0] == "ok" else {"crash": True}
    rf = {"ok": real_find["ok"]} if "ok" in real_find else {"crash": True}
    if mf != rf:
        out.disagreements.append({"correspondence": "Layers.find_project <-> config._find_project_config", "model": mf,
                                  "impl": real_find, **rec})
    out.sample({"cwd": b["cwd"], "DIPPY_CONFIG": b["envv"], "user": spec["user"]["kind"],
                ".dippy kinds from the cwd up": [l["kind"] for l in spec["levels"]], "env": spec["env"]["kind"],
                "present": present, "hook": {k: v for k, v in got.items() if not k.startswith("log:files")}})
    return model


def parse_correspondence(world, model, out, texts, line_cache, rng):
    """parse_config is a line-fold: model parse_lines (real one-line oracle) == real parse_config on whole texts;
    model merge == real _merge_configs; real parse_config(a + '\\n' + b) observable == real merge (the homomorphism)."""
    def line_item(line):
        if line not in line_cache:
            line_cache[line] = world.ask(op="line_item", line=line)["ok"]
        eff = line_cache[line]
        return [eff[0]] if eff else []
    texts = sorted(set(texts))
    n = 0
    for t in texts:
        real = world.ask(op="parse", text=t)["ok"]
        m = model_cfg(model.call(["parse_lines", t], {"line_item": line_item}))
        n += 1
        if m != real:
            out.disagreements.append({"correspondence": "Layers.parse_lines <-> config.parse_config", "text": t,
                                      "model": m, "impl": real})
    pairs = [(rng.choice(texts), rng.choice(texts)) for _ in range(min(60, len(texts)))] if texts else []
    for a, b in pairs:
        real = world.ask(op="merge", a=a, b=b)["ok"]
        m = model_cfg(model.call(["merge_parsed", a, b], {"line_item": line_item}))
        n += 1
        if m != real:
            out.disagreements.append({"correspondence": "Layers.merge_configs <-> config._merge_configs", "a": a, "b": b,
                                      "model": m, "impl": real})
        one = world.ask(op="parse", text=a + "\n" + b)["ok"]
        if observable(one) != observable(real):
            out.violations.append({"kind": "parse-hom", "call_site": "parse_config:homomorphism",
                                   "what": "parse_config(a + '\\n' + b) is not observably _merge_configs(parse_config(a), parse_config(b))",
                                   "a": a, "b": b, "signature_text": "parse_config:homomorphism | " + a + "|" + b})
    out.extra["parse_correspondence_cases"] = n


# ------------------------------------------------------------------------------------------------ entry
class Lane:
    """One scratch world with its own HOME, worker and model process; lanes run side by side."""

    def __init__(self, pid):
        self.out = core.Outcome(pid)
        self.world = World()
        self.model = lib.Model()
        self.xcheck = []
        self.line_cache = {}
        self.texts = []
        self.world.start_worker()
        assert self.world.ask(op="user_config")["ok"] == os.path.join(self.world.home, ".dippy", "config")

    def run(self, specs):
        from . import c10_alias
        for spec in specs:
            if spec.get("alias"):
                self.model = c10_alias.check_alias(self.world, self.model, self.out, spec, self.line_cache, self.xcheck)
            else:
                self.model = check_case(self.world, self.model, self.out, spec, self.line_cache, self.xcheck)
            fresh = sum(1 for v in self.out.violations if v.get("call_site") != CS_DEFAULT)
            if fresh + len(self.out.disagreements) > 15:
                self.out.notes.append(f"lane stopped after case {spec['id']}: more than 15 failures already recorded")
                break
            if not spec.get("alias"):
                self.texts += [spec["user"]["text"], spec["env"]["text"]] + [l["text"] for l in spec["levels"] if l.get("text")]

    def close(self):
        self.model.close()
        self.world.close()


def merge(out, part):
    out.evaluations += part.evaluations
    out.distinct |= part.distinct
    out.violations += part.violations
    out.disagreements += part.disagreements
    out.notes += part.notes
    for dim, d in part.dist.items():
        for k, v in d.items():
            out.dist.setdefault(dim, {})
            out.dist[dim][k] = out.dist[dim].get(k, 0) + v
    for k, v in part.extra.items():
        out.extra.setdefault(k, v)
    for x in part.samples:
        out.sample(x)


def run(tier, seed, replay=None):
    rng = random.Random(seed)
    out = core.Outcome("C10")
    n_lanes = 1 if replay else (5 if tier == "quick" else 6)
    lanes = []
    xcheck = []
    try:
        for _ in range(n_lanes):
            lanes.append(Lane("C10"))
        world = lanes[0].world
        capdrop_ok = world.capdrop is not None
        out.extra["permission_cases"] = ("root with CAP_DAC_OVERRIDE/CAP_DAC_READ_SEARCH dropped by setpriv" if world.capdrop
                                         else "non-root" if capdrop_ok else "SKIPPED: root and no setpriv")
        out.extra["parallel_scratch_worlds"] = n_lanes
        from . import c10_alias
        if replay:
            spec = dict(replay["aspec"] if "aspec" in replay else replay["spec"])
            spec["id"] = 0
            specs = [spec]
        else:
            discrimination(world, out)
            c10_alias.order_matters(world, out, quick=(tier == "quick"))
            specs = systematic(rng, world.tx, capdrop_ok, quick=(tier == "quick"))
            out.extra["systematic_cases"] = len(specs)
            total = 200 if tier == "quick" else 1500
            while len(specs) < total:
                specs.append(rand_spec(rng, world.tx, len(specs), capdrop_ok))
            # second stream: identity and aliasing of the layer files (harness/c10_alias.py)
            arng = random.Random(seed + 10)
            rows = c10_alias.systematic(arng, quick=(tier == "quick"))
            n_core = len(c10_alias.core_rows())
            out.extra["alias_systematic_cases"] = {"core products (env target x spelling; project level x tree location)": n_core,
                                                   "all-pairs cover": len(rows) - n_core}
            n_sys = len(rows)
            for _ in range(40 if tier == "quick" else 900):
                rows.append(c10_alias.rand_row(arng))
            for k, row in enumerate(rows):
                a = c10_alias.mk_aspec(world.tx, len(specs), row)
                # quick tier: the hook subprocess vector where $DIPPY_CONFIG names another layer's file (every spelling), on
                # the level x location rows and on every eighth other case; the in-process oracle, the bash ground truth
                # and the model on all of them
                if tier == "quick":
                    a["hook"] = (k < n_core and (row["target"] in ("U", "P") or not row["far"])) or k % 8 == 0
                else:       # every systematic row, every third random row
                    a["hook"] = k < n_sys or k % 3 == 0
                if row["user"] == "noread" and not capdrop_ok:
                    continue
                specs.append(a)
        with ThreadPoolExecutor(max_workers=n_lanes) as ex:
            futs = [ex.submit(lane.run, specs[k::n_lanes]) for k, lane in enumerate(lanes)]
            for f in futs:
                f.result()
        for lane in lanes:
            merge(out, lane.out)
            xcheck += lane.xcheck[:max(6, 30 // n_lanes)]
        if not replay:
            texts = [t for lane in lanes for t in lane.texts]
            parse_correspondence(world, lanes[0].model, out, texts if tier != "quick" else texts[:400], lanes[0].line_cache, rng)
        out.extra["hook_subprocess_runs"] = sum(l.world.hook_runs for l in lanes)
        out.extra["one_file_runs"] = sum(len(l.world.concat_cache) for l in lanes)
    finally:
        for lane in lanes:
            lane.close()
    n, mism = core.coq_crosscheck("C10", xcheck)
    out.extra["coq_vm_crosscheck"] = {"cases": n, "mismatches": len(mism)}
    if mism:
        out.disagreements.append({"correspondence": "extracted OCaml model <-> vm_compute in Coq", "detail": mism[:5]})
    out.extra["rule"] = (
        "systematic: presence of the three layers x where the project file sits x every assignment of allow/deny/ask to the "
        "layers; every kind of .dippy (file, absent, directory, link to file, link to link to file, relative link, link to "
        "directory, dangling, loop, fifo, mode 000, link into a mode-000 directory, undecodable) at the cwd with and without "
        "a regular file above; every kind of ~/.dippy/config and of $DIPPY_CONFIG (unset, empty, file, link, directory, missing, "
        "dangling, ~nosuchuser, ~/..., /dev/null, fifo, relative, trailing slash, mode 000, denied, undecodable); depth 1-8 x the "
        "level holding the file; cwd direct / symlink / symlink part-way with a decoy .dippy beside the link x cwd given as "
        "top-level JSON field, in tool_input, or as the process cwd; cwd below HOME; the `default` witnesses. random: all of "
        "these dimensions drawn independently, layer texts with shuffled lines, omitted shared directives, junk lines, "
        "with/without final newline. distinct = distinct (kinds, texts, depth, cwd mode) tuples; non-trivial = at least one "
        "layer present or an unreadable layer. Each case = 10 probe inputs to the real hook (+1 decision-log probe) compared "
        "with the one-concatenated-file run, the in-process load_config compared with parse_config(concatenated text), and "
        "the Coq model compared with both load_config and _find_project_config.  SECOND STREAM (harness/c10_alias.py), identity "
        "and aliasing of the layer files: which file $DIPPY_CONFIG names (own file, the user config, the nearest .dippy, a "
        "shadowed .dippy further up) x how it is spelled (absolute, symlink, relative symlink, link chain, relative path, ~, "
        "`..`, `.`, `//`, hard link, symlinked directory, `..` after a symlinked directory, same bytes in another file, trailing "
        "slash) in full; all PAIRS of {what ~/.dippy/config is (own file, absent, symlink/hard link/copy of the project file, "
        "symlink to the env file or to the shadowed .dippy, ~/.dippy a symlinked directory, HOME a symlink, directory, dangling, "
        "mode 000), what the nearest .dippy is (own file, none, absolute/relative symlink, hard link, copy of the user config, "
        "symlink/hard link to the env file, symlink to the shadowed .dippy, directory, dangling, a link loop through the user "
        "config), env target, spelling, level of the project file (cwd .. 3 up, above the tree), tree outside HOME / under HOME / "
        "inside ~/.dippy, how the cwd reaches the hook, assignment of allow/deny/ask to the texts}; random rows.  Ground truth = "
        "the three texts as a bash script reads them; identity measured with os.stat and handed to the model "
        "(load_config_fs).  Every layer text decides every probe, so a layer dropped, added or moved changes an answer.")
    return out
