"""C18 - the pool of the history and residue oracles.

A pool item is one query of harness/c18_worker.py (mostly analyzer.analyze(command, config, cwd, remote), some
whole main() runs and direct check_command calls) plus the family it was generated for.  The pool is built
by construction from the tables of the code under test, not from a list of cases:

  py-leak    for EVERY root module named in cli/python.py SAFE_MODULES (and a few dangerous / unknown ones): a
             script that imports it, in each of the import spellings (import m / from m import x / import m as y /
             import m.sub / inside a def / inside try / two in one statement / from m.sub import x);
  py-victim  scripts that import NOTHING (or only unshadowed modules) living in directories that contain m.py for
             every root, m/ for every root, or half of them; under every command spelling that reaches the script
             (python f, python3 ./f, python dir/f from above, cd dir && python f, env/timeout/bash -c wrappers,
             pipelines); identical script bytes in a clean and in a shadowed directory; python -m calendar next to
             calendar.py / calendar/ and in a clean directory;
  handler    every handler module of cli.KNOWN_HANDLERS under 2 (quick) or 4 argument shapes;
  curated    wrappers, delegations, sql, redirects, substitutions, control flow, cd, unparseable text;
  config     the same commands under every config text (rules, aliases, redirect rules, settings);
  cwd/remote the same command and config in other directories / with the remote flag;
  main       whole hook runs: shell commands in the three host shapes over cwds whose .dippy configures logging onto
             working and failing sinks, MCP tools (allow / deny / ask / unmatched, Pre and PostToolUse), bypass modes;
  check      direct check_command calls.

`core` marks the stratified sub-pool whose ordered pairs are all walked in the quick tier (one item per class of
every family); the thorough tier walks the ordered pairs of the whole pool."""
from __future__ import annotations

import json
import os

FORMS = [
    ("import", "import {m}\nprint({r})\n"),
    ("from", "from {m} import x\nprint(x)\n"),
    ("as", "import {m} as y\nprint(y)\n"),
    ("dotted", "import {m}.sub\nprint(1)\n"),
    ("in-def", "def f():\n    import {m}\n    return {r}\nprint(f())\n"),
    ("in-try", "try:\n    import {m}\nexcept ImportError:\n    {r} = None\nprint({r})\n"),
    ("two", "import string, {m}\nprint(string, {r})\n"),
    ("from-dotted", "from {m}.sub import x\nprint(x)\n"),
]
EXTRA_ROOTS = ["os", "subprocess", "socket", "pickle", "mylib", "numpy", "requests", "utils"]

CONFIGS = [
    "",
    'deny zap "NOZAP"\nallow okcmd\nask git push "careful"\n',
    "allow git *\ndeny-redirect /etc/*\nallow-redirect /tmp/*\n",
    "alias g git\nask docker *\nallow kubectl get *\n",
    "allow python *\nallow rm -rf x\ndeny ls -la\n",
    "allow-redirect **\nallow *\n",
    'deny * "everything"\n',
    "allow-mcp mcp__srv__get*\ndeny-mcp mcp__srv__del* \"NODEL\"\nask-mcp mcp__srv__put*\nafter git commit \"push\"\n",
]

CURATED = {
    "wrapper": ["env FOO=1 git status", "env FOO=1 rm -rf x", "timeout 5 git status", "timeout 5 rm x", "nice ls", "nohup rm x",
                "time ls", "command ls", "command rm x", "xargs ls", "xargs rm", "sh -c 'git push'", "bash -c 'ls -la'",
                "bash -lc 'rm x'", "exec ls", "watch ls", "find . -name x -exec rm {} ;", "find . -name x -exec cat {} +",
                "sudo ls", "env -i bash -c 'git status'"],
    "delegate": ["docker exec c ls", "docker exec c rm x", "docker exec c sh -c 'cat f > /etc/x'", "kubectl exec p -- ls",
                 "kubectl exec p -- rm x", "ssh host ls", "ssh host rm x", "docker run img ls", "podman exec c ls",
                 "docker compose exec s ls"],
    "sql": ["sqlite3 db 'select 1'", "sqlite3 db 'delete from t'", "sqlite3 db .tables", "sqlite3 db '.shell ls'",
            "psql -c 'select 1'", "psql -c 'drop table t'", "mysql -e 'select 1'", "mysql -e 'delete from t'",
            "sqlite3 -readonly db 'select 1'"],
    "redirect": ["echo x > /tmp/f", "echo x > /etc/f", "echo x >> out", "ls 2>&1", "ls 2>/dev/null", "cat < in", "cat <<EOF\nx\nEOF",
                 "ls &> f", "echo x >| f", "cat f > out", "ls > /dev/null", "echo x > out; echo y > /etc/y", "sort -o out f",
                 "tee f", "sed -i s/a/b/ f", "curl -o f http://x", "echo x > sub/out"],
    "subst": ["echo $(git status)", "echo $(rm x)", "echo `ls`", "cat <(ls)", "ls > >(tee f)", "echo $((1+2))",
              "echo ${x:-$(rm x)}", "echo \"$(git push)\"", "X=$(rm x) ls", "X=1 ls"],
    "control": ["if ls; then rm x; fi", "for f in a b; do cat $f; done", "while true; do ls; done", "case x in a) rm x;; esac",
                "f() { rm x; }; f", "(ls; rm x)", "{ ls; git status; }", "ls; cd /tmp; cat x > y", "ls || rm x", "ls &",
                "ls | grep x", "ls | xargs rm", "cd sub && cat f > out", "cd /etc && cat passwd > out", "cd sub; ls"],
    "odd": ["", "   ", "if then", "echo \"unterminated", "((", "frobnicate a", "zap 1", "okcmd a b", "g status", "ls -la",
            "rm -rf x", "git push", "git status", "git commit -m x", "python", "python -c 'print(1)'", "python -V",
            "./script.sh", "/bin/ls", "../x", "ls --help", "frobnicate --version"],
    "tool": ["git log", "git -C sub status", "git config --get user.name", "docker ps", "kubectl get pods", "kubectl delete pod x",
             "aws s3 ls", "aws s3 rm s3://b/k", "gh pr list", "gh pr create", "awk '{print}' f", "awk 'BEGIN{system(\"x\")}'",
             "curl http://x", "curl -X POST http://x", "tar tf a.tar", "tar xf a.tar", "npm list", "npm install", "pip list",
             "pip install x", "terraform plan", "terraform apply", "sed -n p f", "find . -delete", "cargo build", "make"],
}


def _w(path, text):
    os.makedirs(os.path.dirname(path), exist_ok=True)
    with open(path, "w") as f:
        f.write(text)


def main_stdin(mode, command, cwd, **extra):
    if mode == "cursor":
        d = {"command": command, "cwd": cwd}
    else:
        tool = "Bash" if mode == "claude" else "run_shell_command"
        d = {"tool_name": tool, "tool_input": {"command": command}, "cwd": cwd}
    d.update(extra)
    return json.dumps(d)


def build(world, tier, rng, safe_modules, known_handlers):
    """Lay the python world out below world.root/pool and return the items."""
    base = os.path.join(world.root, "pool")
    items = []

    def add(fam, q, core=False, **meta):
        items.append({"q": q, "fam": fam, "core": core, **meta})

    def an(command, cwd, config="", remote=False):
        return {"k": "analyze", "command": command, "config": config, "cwd": cwd, "remote": remote}

    roots = sorted({m.split(".")[0] for m in safe_modules})
    all_roots = roots + EXTRA_ROOTS
    thorough = tier == "thorough"

    # ---- leakers: a clean directory (nothing to shadow), one script per (root, import spelling)
    lk = os.path.join(base, "lk")
    os.makedirs(lk)
    shift = rng.randrange(len(FORMS))
    every_form = set(rng.sample(roots, 3)) | {"json"}
    for i, r in enumerate(all_roots):
        forms = range(len(FORMS)) if (thorough or r in every_form) else [(i + shift) % len(FORMS)]
        for fi in forms:
            name, text = FORMS[fi]
            fn = f"i_{r}_{name.replace('-', '_')}.py"
            _w(os.path.join(lk, fn), text.format(m=r, r=r))
            add("py-leak", an(f"python {fn}", lk), core=(fi == (i + shift) % len(FORMS) and (i % 3 == 0 or r in every_form)), root=r, form=name)
    # ---- victims
    none_src = "total = sum(range(10))\nprint(total)\n"
    shf, shd, half, clean, cal1, cal2 = (os.path.join(base, d) for d in ("shf", "shd", "half", "clean", "cal1", "cal2"))
    for d in (shf, shd, half, clean, cal1, cal2):
        os.makedirs(d)
    for r in all_roots:
        _w(os.path.join(shf, r + ".py"), "print('shadow')\n")
        os.makedirs(os.path.join(shd, r))
    lower = all_roots[: len(all_roots) // 2]
    upper = [r for r in roots if r not in lower]
    for j, r in enumerate(lower):
        if j % 2:
            _w(os.path.join(half, r + ".py"), "print('shadow')\n")
        else:
            os.makedirs(os.path.join(half, r))
    for d in (shf, shd, half, clean):
        _w(os.path.join(d, "none.py"), none_src)
        _w(os.path.join(d, "same.py"), "import json\nimport textwrap\nprint(json.dumps([1, 2]))\n")
    _w(os.path.join(half, "other.py"), "".join(f"import {r}\n" for r in upper[-3:]) + "print(1)\n")
    _w(os.path.join(clean, "other.py"), "".join(f"import {r}\n" for r in upper[-3:]) + "print(1)\n")
    _w(os.path.join(shf, "sub", "none.py"), none_src)          # one level below the shadows: its own directory is clean
    _w(os.path.join(cal1, "calendar.py"), "print('mine')\n")
    os.makedirs(os.path.join(cal2, "calendar"))
    for d in (cal1, cal2):
        _w(os.path.join(d, "none.py"), none_src)
    for d in (shf, shd, half, clean):
        dn = os.path.basename(d)
        add("py-victim", an("python none.py", d), core=True, dir=dn)
        add("py-victim", an("python same.py", d), core=True, dir=dn)
        add("py-victim", an("python3 ./none.py", d), dir=dn)
        add("py-victim", an(f"python {dn}/none.py", base), core=(d == shd), dir=dn)
        add("py-victim", an(f"cd {dn} && python none.py", base), core=(d == shf), dir=dn)
        add("py-victim", an(f"python {d}/none.py", lk), dir=dn)
        if d in (shf, half) or thorough:
            add("py-victim", an("env X=1 python none.py", d), dir=dn)
            add("py-victim", an("timeout 5 python none.py", d), dir=dn)
            add("py-victim", an("bash -c 'python none.py'", d), dir=dn)
            add("py-victim", an("python none.py | cat", d), dir=dn)
            add("py-victim", an("python none.py && python same.py", d), dir=dn)
    add("py-victim", an("python other.py", half), core=True, dir="half")
    add("py-victim", an("python other.py", clean), dir="clean")
    add("py-victim", an("python sub/none.py", shf), core=True, dir="shf/sub")
    for d in (cal1, cal2, clean, shf):
        add("py-victim", an("python -m calendar", d), core=d in (cal1, clean), dir=os.path.basename(d))
        add("py-victim", an("python3 -m calendar 2024", d), dir=os.path.basename(d))
    add("py-victim", an("python none.py", cal1), dir="cal1")
    add("py-victim", an("python missing.py", clean), dir="clean")
    add("py-victim", an("python .", clean), dir="clean")

    # ---- every handler module
    by_module = {}
    for cmd, mod in sorted(known_handlers.items()):
        by_module.setdefault(mod, cmd)
    plain = world.cwds["plain"]["path"]
    rules = world.cwds["rules"]["path"]
    shapes = ["{c} status", "{c}", "{c} --foo bar", "{c} a b c"] if thorough else ["{c} status", "{c}"]
    for mod, cmd in by_module.items():
        for si, sh in enumerate(shapes):
            add("handler", an(sh.format(c=cmd), plain), core=(si == 0), module=mod)

    # ---- curated families, neutral config
    for fam, cmds in CURATED.items():
        for ci, c in enumerate(cmds):
            add(fam, an(c, plain), core=(ci % 3 == 0))
    # ---- round seven (seeded change C18v: the "nothing to analyse" exits returned one shared list, which the arithmetic
    # command's branch appends to): every kind of node the walker knows, in its ordinary AND its degenerate (empty) form, bare /
    # with a redirect that yields a decision / with a here-document holding a substitution; and the cheap queries that take the
    # early exits (assignments, test operands, plain expansions).  The degenerate forms with a redirect and the cheap queries
    # are core items: every ordered pair of them is consecutive in the pair walk.
    node_forms = {
        "arith": ["(( ))", "(())", "(( 1 ))", "((i++))"], "cond": ["[[ -d build ]]", "[[ a == b ]]", "[[ x ]]"],
        "for-arith": ["for ((;;)); do break; done", "for ((i=0;i<1;i++)); do ls; done"], "for": ["for x; do ls; done", "for x in a b; do ls; done"],
        "select": ["select x in a; do break; done"], "case": ["case x in esac", "case x in a) ;; esac", "case x in a) ls;; esac"],
        "brace": ["{ :; }"], "subshell": ["( : )"], "if": ["if :; then :; fi", "if :; then :; else :; fi"], "while": ["while false; do :; done"],
        "until": ["until :; do :; done"], "function": ["f() { :; }", "function f { :; }"], "coproc": ["coproc ls"], "negation": ["! ls", "! :"],
        "time": ["time ls", "time"], "pipe": ["ls |& cat", ": | :"], "list": [": && :", ": || :", ": ; :", ": & :"], "assign": ["x=1", "a[0]=1", "x+=1"],
    }
    suffixes = ["", " > nogrant", " >> /etc/x", " <<EOF\n$(rm x)\nEOF", " <<< $(git push)"]
    for kind, forms in node_forms.items():
        for fi, form in enumerate(forms):
            for si, suf in enumerate(suffixes):
                if kind in ("function",) and suf:
                    continue
                add("nodekind", an(form + suf, plain, CONFIGS[2] if si == 2 else ""), core=(fi == 0 and si in (1, 3)), kind=kind)
    for c in ["x=1", "FOO=bar ls", "[ -f x ]", "test -n a", "echo ${HOME}", "echo ${x:-y}", "[[ -d build ]]", "(( ))", "for x in a; do ls; done",
              "read x", "cat <<EOF\nplain\nEOF", "cat <<< word", "echo $((1+2))", "case x in a|b) ls;; esac"]:
        add("nodekind-victim", an(c, plain), core=True)
    # ---- the same command under every config; the same command and config elsewhere; remote
    crossed = ["git push", "git status", "zap 1", "okcmd a b", "g status", "docker ps", "kubectl get pods", "ls -la", "rm -rf x",
               "python x.py", "echo x > /tmp/f", "echo x > /etc/f", "cat f > out", "frobnicate a", "ls | xargs rm", "git commit -m x"]
    for ci, c in enumerate(crossed):
        for gi, g in enumerate(CONFIGS[1:], 1):
            add("config", an(c, plain, g), core=((ci + gi) % 4 == 0), cfg=gi)
    for c in ["cat f > out", "echo x > sub/out", "python x.py", "python s.py", "cd sub && python s.py", "git -C sub status", "ls ../x"]:
        for cn, cw in world.cwds.items():
            if cn != "plain":
                add("cwd", an(c, cw["path"], CONFIGS[2]), core=(cn == "rules"), cwdn=cn)
    for ci, c in enumerate(["ls", "rm x", "cat f > /etc/x", "python x.py", "python s.py", "git status", "echo $(rm x)", "cat /etc/passwd",
                            "sh -c 'cat f > out'", "find . -delete"]):
        add("remote", an(c, rules, CONFIGS[2], remote=True), core=(ci % 2 == 0))
        add("remote", an(c, rules, CONFIGS[2], remote=False))

    # ---- whole hook runs
    for cn in ("plain", "rules", "logok", "logfull", "lognul", "lognotdir"):
        cw = world.cwds[cn]["path"]
        for mi, mode in enumerate(("claude", "gemini", "cursor")):
            for ci, c in enumerate(("ls", "zap 1", "git push", "python s.py")):
                if thorough or (ci + mi) % 2 == 0 or cn == "logok":
                    add("main", {"k": "main", "stdin": main_stdin(mode, c, cw), "cwdn": cn}, core=(ci == mi), mode=mode, route="shell")
    mcp = world.cwds["mcp"]["path"]
    for tool in ("mcp__srv__get_issue", "mcp__srv__delete", "mcp__srv__put_x", "mcp__other__x"):
        for cn in ("mcp", "plain"):
            for ev in ("PreToolUse", "PostToolUse"):
                d = {"tool_name": tool, "tool_input": {"x": 1}, "cwd": world.cwds[cn]["path"], "hook_event_name": ev}
                route = "post" if ev == "PostToolUse" else ("mcp-hit" if cn == "mcp" and "__srv__" in tool else "mcp-miss")
                add("mcp", {"k": "main", "stdin": json.dumps(d), "cwdn": cn}, core=(ev == "PreToolUse" and cn == "mcp"), mode="claude", route=route)
    add("mcp", {"k": "main", "stdin": json.dumps({"tool_name": "mcp__srv__delete", "tool_input": {}, "cwd": mcp,
                                                  "permission_mode": "bypassPermissions"}), "cwdn": "mcp"}, core=True, mode="claude", route="bypass")
    add("main", {"k": "main", "stdin": main_stdin("claude", "rm -rf x", plain, permission_mode="bypassPermissions"), "cwdn": "plain"}, mode="claude", route="bypass")
    add("main", {"k": "main", "stdin": main_stdin("claude", "git commit -m x", mcp, hook_event_name="PostToolUse"), "cwdn": "mcp"}, core=True, mode="claude", route="post")
    add("main", {"k": "main", "stdin": json.dumps({"tool_name": "Read", "tool_input": {}, "cwd": plain}), "cwdn": "plain"}, mode="claude", route="not-shell")
    add("main", {"k": "main", "stdin": "{not json", "cwdn": "plain"}, core=True, mode="?", route="bad-json")
    for c in ("ls", "zap 1", "python s.py"):
        add("check", {"k": "check", "command": c, "config": CONFIGS[1], "cwd": rules}, core=(c == "zap 1"))
    return items
