"""Fault-injection wrapper for the hook (no change to the repository):

    python hook_fault.py <REPO> <target> <ExceptionClass> [hook flags...]

does what <REPO>/bin/dippy-hook does, after replacing one function the hook calls by one that
raises the chosen exception.  Used by harness/c06.py (and c19/c14)."""
import importlib
import sys

TARGETS = {
    # name: (module, attribute)
    "analyze": ("dippy.dippy", "analyze"),
    "load_config": ("dippy.dippy", "load_config"),
    "configure_logging": ("dippy.dippy", "configure_logging"),
    "log_decision": ("dippy.dippy", "log_decision"),
    "match_mcp": ("dippy.dippy", "match_mcp"),
    "match_after_mcp": ("dippy.dippy", "match_after_mcp"),
    "match_after": ("dippy.core.config", "match_after"),
    "tokenize": ("dippy.core.parser", "tokenize"),
    # inside analyze()
    "parse": ("dippy.core.analyzer", "parse"),
    "get_handler": ("dippy.core.analyzer", "get_handler"),
    "match_command": ("dippy.core.config", "match_command"),
    "match_redirect": ("dippy.core.analyzer", "match_redirect"),
}


def exception_class(name):
    import builtins

    if name == "ConfigError":
        from dippy.core.config import ConfigError

        return ConfigError
    return getattr(builtins, name)


def resolve(target):
    """(module name, attribute): a named target of TARGETS, or any "module:attribute" (harness/c06.py enumerates every function
    of the analysis modules by reflection)."""
    if ":" in target:
        mod_name, attr = target.split(":", 1)
        return mod_name, attr
    return TARGETS[target]


def install(target, exc_name):
    """Replace the target by a function raising exc_name; returns an undo function.  For a "module:attribute" target every
    module of the package that holds the same function object under any name (`from x import f`) is patched too."""
    mod_name, attr = resolve(target)
    mod = importlib.import_module(mod_name)
    cls = exception_class(exc_name)
    old = getattr(mod, attr)

    def boom(*a, **k):
        if cls is UnicodeError:
            raise UnicodeEncodeError("utf-8", "\ud800", 0, 1, "injected")
        raise cls("injected fault")

    patched = [(mod, attr)]
    if ":" in target:
        for name, m in list(sys.modules.items()):
            if m is None or not name.startswith("dippy"):
                continue
            for a, v in list(vars(m).items()):
                if v is old and (m, a) not in patched:
                    patched.append((m, a))
    for m, a in patched:
        setattr(m, a, boom)

    def undo():
        for m, a in patched:
            setattr(m, a, old)
    return undo


if __name__ == "__main__":
    repo, target, exc_name = sys.argv[1:4]
    sys.argv = [repo + "/bin/dippy-hook"] + sys.argv[4:]
    sys.path.insert(0, repo + "/src")
    import dippy.dippy as D

    assert D.__file__.startswith(repo), D.__file__
    if ":" in target:
        importlib.import_module(target.split(":", 1)[0])
    install(target, exc_name)
    D.main()
