"""C18 - verdicts are a pure function of command, configuration, cwd and referenced files.

Histories of 1..400 calls (analyses hitting far more than 32 distinct handler modules so that the
LRU evicts, several configs, cwds, remote flags, whole main() runs in all three host shapes, MODE
assignments, logging configured onto failing sinks in the middle) are executed in ONE Python
process (harness/c18_worker.py); then the query is asked, twice.

Implementation-level oracle (model-free): the answer after the history is the answer of a fresh
process asked only the query, and asking twice gives the same.
Correspondence: Model/Cache.v - the hit/miss sequence of every _load_handler call and cache_info()
equal the model's LRU on the recorded module names; MODE / _log_config / _log_disabled after the
history equal the model's state; vars() of analyzer, cli, config, dippy, parable and every other
dippy.* module are fingerprinted before and after: a changed global outside the model's state is
reported (the model would be missing process state)."""
from __future__ import annotations

import concurrent.futures as cf
import json
import os
import random
import shutil
import subprocess
import tempfile

from . import core, lib

TRUSTED = [
    "Coq 8.16.1 kernel and its VM (vm_compute for the two closed examples)",
    "axioms: none (every theorem of Props/C18.v prints 'Closed under the global context')",
    "tools/tables/t18_cache.py (the lru_cache bound and the single-argument signature of _load_handler, regenerated on every run)",
    "extraction: ExtrOcamlBasic only; OCaml 4.13.1; ocaml/driver.ml; cross-checked in Coq by vm_compute on a sample",
    "the model takes 'an analysis' to be any program whose only access to process state is get_handler (analyzer.analyze has "
    "config, cwd and remote as explicit parameters): validated by the fingerprints of all dippy.* module globals before/after every history",
    "importlib.import_module is deterministic and returns the same module object for the same name (sys.modules); functools.lru_cache - modelled",
    "the handlers themselves, the parser and the file system contents are fixed during a history (the property's 'referenced files')",
]

PY = "/venv/bin/python"
WORKER = os.path.join(os.path.dirname(os.path.abspath(__file__)), "c18_worker.py")
SRC = os.path.join(lib.REPO, "src")
ALLOWED_STATE = {"dippy:MODE", "config:_log_config", "config:_log_disabled", "cli:_load_handler"}

CONFIGS = [
    "",
    'deny zap "NOZAP"\nallow okcmd\nask git push "careful"\n',
    "allow git *\ndeny-redirect /etc/*\nallow-redirect /tmp/*\n",
    "alias g git\nask docker *\nallow kubectl get *\n",
]
CURATED = ["git status", "git push", "docker ps", "docker exec c ls", "kubectl get pods", "env FOO=1 git status",
           "xargs rm", "find . -name x -exec rm {} ;", "sh -c 'git push'", "timeout 5 git status", "ls | grep x",
           "cat f > out", "python x.py", "zap 1", "okcmd a b", "g status", "echo $(git status)", "frobnicate a",
           "ls; cd /tmp; cat x > y", "rm -rf x", "curl http://x", "sed -i s/a/b/ f", "sort -o out f", "awk '{print}' f",
           # commands whose verdict depends on referenced files: the same script bytes sit in every cwd, the
           # sibling modules next to them differ (see World)
           "python s.py", "python3 s.py a b", "python t.py", "cd sub && python s.py", "python sub/s.py", "python -m calendar",
           "sqlite3 db 'select 1'", "python s.py; python t.py"]


def worker(job, home, argv=()):
    env = {"PATH": "/usr/bin:/bin", "HOME": home, "PYTHONHASHSEED": "0"}
    job = dict(job, src=SRC, argv=list(argv))
    p = subprocess.run([PY, WORKER], input=json.dumps(job).encode(), capture_output=True, env=env, cwd=home, timeout=600)
    if p.returncode != 0:
        raise RuntimeError("worker failed: " + p.stderr.decode("utf-8", "replace")[-2000:])
    return json.loads(p.stdout.decode())


def envelope_verdict(ans):
    """(action, reason) of a main() stdout text or a check_command dict, whatever the host shape"""
    if isinstance(ans, str):
        try:
            ans = json.loads(ans) if ans.strip() else {}
        except ValueError:
            return ["?", ans]
    if not isinstance(ans, dict):
        return ["?", str(ans)]
    if "hookSpecificOutput" in ans:
        h = ans["hookSpecificOutput"]
        return [h["permissionDecision"], h["permissionDecisionReason"]]
    if "decision" in ans:
        return [ans["decision"], ans["reason"]]
    if "permission" in ans:
        return [ans["permission"], ans["user_message"]]
    return ["{}", ""]


def envelope_mode(ans):
    if isinstance(ans, str):
        try:
            ans = json.loads(ans) if ans.strip() else {}
        except ValueError:
            return "?"
    if "hookSpecificOutput" in ans:
        return "claude"
    if "decision" in ans:
        return "gemini"
    if "permission" in ans:
        return "cursor"
    return "?"


def main_stdin(mode, command, cwd):
    if mode == "cursor":
        return json.dumps({"command": command, "cwd": cwd})
    tool = "Bash" if mode == "claude" else "run_shell_command"
    return json.dumps({"tool_name": tool, "tool_input": {"command": command}, "cwd": cwd})


class World:
    """scratch HOME and cwds (fixed during a run)"""

    def __init__(self, root):
        self.home = os.path.join(root, "home")
        os.makedirs(os.path.join(self.home, ".claude"))
        self.logs = os.path.join(root, "logs")
        os.makedirs(self.logs)
        with open(os.path.join(self.logs, "afile"), "w") as f:
            f.write("")
        self.cwds = {}
        # name -> (config text, log spec for the model, configure fails, log_decision fails)
        specs = {
            "plain": ("", None, False, False),
            "rules": (CONFIGS[1], None, False, False),
            "logok": (CONFIGS[1] + f"set log {self.logs}/audit.log\nset log-full\n", True, False, False),
            "logfull": (CONFIGS[2] + "set log /dev/full\n", True, False, True),
            "lognul": (CONFIGS[1] + f"set log {self.logs}/a\0b/audit.log\n", True, True, False),
            "lognotdir": (CONFIGS[3] + f"set log {self.logs}/afile/audit.log\n", True, True, False),
        }
        for name, (text, log, cfail, dfail) in specs.items():
            d = os.path.join(root, "cwd_" + name)
            os.makedirs(d)
            if text:
                with open(os.path.join(d, ".dippy"), "w") as f:
                    f.write(text)
            with open(os.path.join(d, "x.py"), "w") as f:
                f.write("print(1)\n")
            # identical script bytes in every cwd; what lies next to them differs from cwd to cwd
            os.makedirs(os.path.join(d, "sub"))
            for rel in ("s.py", "t.py", os.path.join("sub", "s.py")):
                with open(os.path.join(d, rel), "w") as f:
                    f.write("import json\nimport textwrap\nprint(json.dumps([1, 2]))\n")
            if name in ("rules", "logfull"):
                with open(os.path.join(d, "json.py"), "w") as f:       # a sibling shadows a safe module
                    f.write("print('shadow')\n")
            if name in ("logok", "lognul"):
                os.makedirs(os.path.join(d, "sub", "textwrap"))        # ... a package, one level down
            if name == "lognotdir":
                with open(os.path.join(d, "t.py"), "w") as f:           # same name, different bytes
                    f.write("import os\nos.system('x')\n")
            self.cwds[name] = {"path": d, "log": log, "cfail": cfail, "dfail": dfail}


def gen_query(rng, world, commands, explicit):
    r = rng.random()
    cwdn = rng.choice(list(world.cwds))
    cwd = world.cwds[cwdn]["path"]
    if r < 0.70:
        return {"k": "analyze", "command": rng.choice(commands), "config": rng.choice(CONFIGS), "cwd": cwd,
                "remote": rng.random() < 0.1}
    if r < 0.86:
        return {"k": "main", "stdin": main_stdin(rng.choice(["claude", "gemini", "cursor"]), rng.choice(commands), cwd),
                "cwdn": cwdn}
    if r < 0.90 and not explicit:
        return {"k": "setmode", "mode": rng.choice(["claude", "gemini", "cursor"])}
    if r < 0.94:
        kind = rng.choice(["none", "ok", "devfull", "nul"])
        log = {"none": None, "ok": world.logs + "/direct.log", "devfull": "/dev/full", "nul": world.logs + "/a\0b/x.log"}[kind]
        return {"k": "configure", "log": log, "full": rng.random() < 0.5, "fails": kind == "nul", "dfails": kind == "devfull"}
    if r < 0.98:
        return {"k": "log_decision"}
    return {"k": "check", "command": rng.choice(commands), "config": rng.choice(CONFIGS), "cwd": cwd}


def gen_final(rng, world, commands):
    cwdn = rng.choice(list(world.cwds))
    cwd = world.cwds[cwdn]["path"]
    if rng.random() < 0.7:
        return {"k": "analyze", "command": rng.choice(commands), "config": rng.choice(CONFIGS), "cwd": cwd,
                "remote": rng.random() < 0.1}
    return {"k": "main", "stdin": main_stdin(rng.choice(["claude", "gemini", "cursor"]), rng.choice(commands), cwd), "cwdn": cwdn}


def model_queries(world, queries, answers, per_query, loads, explicit):
    """translate executed queries into the model's; the analysis is 'the modules it asked for + its result'"""
    out = []
    pos = 0
    dfails_direct = False
    for q, a, nloads in zip(queries, answers, per_query):
        names = [m for m, _ in loads[pos:pos + nloads]]
        pos += nloads
        k = q["k"]
        if k == "analyze":
            out.append(["analyze", names, a[0], a[1]])
        elif k == "main":
            c = world.cwds[q["cwdn"]]
            v = envelope_verdict(a)
            det = envelope_mode(a) if explicit is None else explicit
            if envelope_mode(a) == "?":
                # a fixed mode flag with an input of another host's shape: main() answers {} before any decision
                out.append(["configure", [["x", True]] if c["log"] else [], c["cfail"]])
                dfails_direct = c["dfail"]
                continue
            out.append(["main", det, names, v[0], v[1], [["x", True]] if c["log"] else [], c["cfail"], c["dfail"]])
            dfails_direct = False
        elif k == "check":
            v = envelope_verdict(a)
            # a direct check_command logs through whatever sink is configured: tell the model whether it fails
            out.append(["check", names, v[0], v[1]])
            if dfails_direct:
                out.append(["log_decision", True])
        elif k == "setmode":
            out.append(["setmode", q["mode"]])
        elif k == "configure":
            out.append(["configure", [["x", bool(q.get("full"))]] if q.get("log") else [], bool(q.get("fails"))])
            dfails_direct = bool(q.get("dfails"))
        elif k == "log_decision":
            out.append(["log_decision", dfails_direct])
    return out


def run(tier, seed, replay=None):
    lib.use_repo()
    import dippy.cli as cli

    rng = random.Random(seed)
    out = core.Outcome("C18")
    root = tempfile.mkdtemp(prefix="dippy-verif-")
    model = lib.Model()
    xcheck = []
    try:
        world = World(root)
        by_module = {}
        for cmd, mod in sorted(cli.KNOWN_HANDLERS.items()):
            by_module.setdefault(mod, cmd)
        handler_cmds = [f"{c} status" for c in by_module.values()] + [f"{c} --foo bar" for c in by_module.values()] + \
                       list(by_module.values()) + [f"{c} a b c" for c in by_module.values()]
        commands = CURATED + handler_cmds
        out.extra["handler_modules"] = len(by_module)

        jobs = []   # (label, history, final, argv)
        if replay and replay.get("history") is not None:
            jobs.append(("replay", replay["history"], replay["final"], replay.get("argv", [])))
        else:
            n_hist = 150 if tier == "quick" else 1500
            for i in range(n_hist):
                explicit = rng.choice([None, None, None, "gemini", "cursor"])
                L = rng.choice([1, 2, 5, 33, 40, 100, 400]) if i < 14 else rng.randint(1, 400)
                hist = [gen_query(rng, world, commands, explicit) for _ in range(L)]
                q = gen_final(rng, world, commands)
                jobs.append(("random", hist, [q, q], ["--" + explicit] if explicit else []))
            # referenced files: the same command in every ordered pair of cwds (what one cwd's files say must
            # not stick to the next analysis of identical script bytes elsewhere)
            names = list(world.cwds)
            for cmd in ("python s.py", "python t.py", "cd sub && python s.py", "python sub/s.py"):
                for a in names:
                    for b in names:
                        if a == b:
                            continue
                        hist = [{"k": "analyze", "command": cmd, "config": "", "cwd": world.cwds[a]["path"], "remote": False}]
                        q = {"k": "analyze", "command": cmd, "config": "", "cwd": world.cwds[b]["path"], "remote": False}
                        jobs.append(("files", hist, [q, q], []))
            # systematic eviction: for every handler module, 40 other handlers first, then the query on it
            mods = list(by_module.items())
            step = 1
            for j in range(0, len(mods), step):
                mod, cmd = mods[j]
                others = [c for m, c in mods if m != mod]
                rng.shuffle(others)
                hist = [{"k": "analyze", "command": f"{c} status", "config": "", "cwd": world.cwds["plain"]["path"], "remote": False}
                        for c in others[:40]]
                q = {"k": "analyze", "command": f"{cmd} status", "config": rng.choice(CONFIGS), "cwd": world.cwds["rules"]["path"], "remote": False}
                hist = [q] + hist      # loaded, evicted, loaded again
                jobs.append(("evict", hist, [q, q], []))
            # priming: other shapes of the same command first (a per-command memo would show here)
            for mod, cmd in mods:
                plain = world.cwds["plain"]["path"]
                hist = [{"k": "analyze", "command": c, "config": cfgt, "cwd": plain, "remote": False}
                        for c, cfgt in ((cmd, ""), (f"{cmd} a b c", CONFIGS[1]), (f"{cmd} status", CONFIGS[2]))]
                q = {"k": "analyze", "command": f"{cmd} status", "config": "", "cwd": plain, "remote": False}
                jobs.append(("prime", hist, [q, q], []))
            # logging failure in the middle, mode switches around it
            for mode in ("claude", "gemini", "cursor"):
                q = {"k": "main", "stdin": main_stdin(mode, "git push", world.cwds["logok"]["path"]), "cwdn": "logok"}
                hist = [{"k": "main", "stdin": main_stdin("gemini", "ls", world.cwds["logfull"]["path"]), "cwdn": "logfull"},
                        {"k": "log_decision"},
                        {"k": "main", "stdin": main_stdin("cursor", "zap 1", world.cwds["lognul"]["path"]), "cwdn": "lognul"},
                        {"k": "setmode", "mode": "cursor"},
                        {"k": "configure", "log": "/dev/full", "full": True, "fails": False, "dfails": True},
                        {"k": "log_decision"}, {"k": "log_decision"}]
                jobs.append(("logfail", hist, [q, q], []))

        # fresh answers, one process per distinct (query, argv)
        fresh_keys = {}
        for label, hist, final, argv in jobs:
            fresh_keys.setdefault(json.dumps([final[0], argv], sort_keys=True), (final[0], argv))

        def fresh(item):
            q, argv = item
            return worker({"history": [], "final": [q], "snapshot": False}, world.home, argv)["answers"][0]

        with cf.ThreadPoolExecutor(max_workers=12) as ex:
            keys = list(fresh_keys)
            fresh_ans = dict(zip(keys, ex.map(fresh, [fresh_keys[k] for k in keys])))
            # a fresh process is itself deterministic
            again = dict(zip(keys[:20], ex.map(fresh, [fresh_keys[k] for k in keys[:20]])))
            results = list(ex.map(lambda j: worker({"history": [], "final": j[1] + j[2], "snapshot": True},
                                                   world.home, j[3]), jobs))
        for k, a in again.items():
            if a != fresh_ans[k]:
                out.violations.append({"kind": "fresh-nondeterministic", "what": "two fresh processes answer the same query differently",
                                       "query": fresh_keys[k][0], "a": a, "b": fresh_ans[k], "signature_text": "fresh:" + k[:200]})

        max_distinct = 0
        for (label, hist, final, argv), res in zip(jobs, results):
            explicit = argv[0][2:] if argv else None
            answers = res["answers"]
            a1, a2 = answers[-2], answers[-1]
            q = final[0]
            key = json.dumps([q, argv], sort_keys=True)
            fa = fresh_ans[key]
            distinct_mods = len({m for m, _ in res["loads"]})
            max_distinct = max(max_distinct, distinct_mods)
            out.case(json.dumps([hist, q, argv], sort_keys=True), nontrivial=len(hist) >= 1)
            out.count("kind", label)
            out.count("history_length", "1" if len(hist) == 1 else "2-32" if len(hist) <= 32 else "33-100" if len(hist) <= 100 else "101-400")
            out.count("distinct_handlers_loaded", "0-32" if distinct_mods <= 32 else "33-60" if distinct_mods <= 60 else "61+")
            out.count("final_query", q["k"])
            out.count("explicit_mode", explicit or "auto")
            out.count("evictions", "yes" if res["cache_info"][1] > res["cache_info"][3] else "no")
            out.sample({"history_length": len(hist), "query": q, "answer": a1 if not isinstance(a1, str) else a1[:160],
                        "cache_info": res["cache_info"], "state": res["state"]})
            # ---- implementation-level oracle
            cmp1, cmpf = a1, fa
            if q["k"] == "main" and explicit is not None:
                # with a fixed mode flag, an assignment to dippy.MODE from outside is not undone by main():
                # the property is about the verdict, compare (action, reason)
                cmp1, cmpf = envelope_verdict(a1), envelope_verdict(fa)
            base = {"history": hist, "final": final, "argv": argv, "after_history": a1, "fresh": fa}
            if cmp1 != cmpf:
                out.violations.append({"kind": "history-dependence", "what": "the answer after the history differs from a fresh process's",
                                       **base, "signature_text": "history:" + json.dumps([q, argv], sort_keys=True)[:300]})
            if a1 != a2:
                out.violations.append({"kind": "repetition", "what": "asking the same query twice in a row gives different answers",
                                       **base, "second": a2, "signature_text": "repeat:" + json.dumps(q, sort_keys=True)[:300]})
            # ---- hidden state
            extra = [c for c in res["changed"] if c[0] not in ALLOWED_STATE]
            if extra:
                out.disagreements.append({"correspondence": "Cache.state <-> module globals of the process",
                                          "what": "process state outside the model changed during the history", "changed": extra[:10],
                                          "history_length": len(hist)})
            # ---- LRU correspondence
            names = [m for m, _ in res["loads"]]
            hits = [h for _, h in res["loads"]]
            rec = len(xcheck) < 12 and len(names) <= 40
            r = model.call(["lru_trace", names], record=rec)
            if rec:
                xcheck.append((model.last_request, [], r))
            m_hits = [h == "1" for h in r[0]]
            ci = res["cache_info"]
            if m_hits != hits or len(r[1]) != ci[3] or sum(hits) != ci[0] or len(hits) - sum(hits) != ci[1]:
                out.disagreements.append({"correspondence": "Cache.trace <-> functools.lru_cache on _load_handler",
                                          "names": names[:80], "impl_hits": hits[:80], "model_hits": m_hits[:80],
                                          "cache_info": ci, "model_size": len(r[1])})
            # ---- state machine correspondence
            mq = model_queries(world, hist + final, answers, res["loads_per_query"], res["loads"], explicit)
            rec = len(xcheck) < 24 and len(mq) <= 8
            r = model.call(["cache_hist", [explicit] if explicit else [], mq], record=rec)
            if rec:
                xcheck.append((model.last_request, [], r))
            m_state = {"MODE": r[2], "log_config": r[3] == "1", "log_disabled": r[4] == "1"}
            i_state = {k: res["state"][k] for k in m_state}
            if m_state != i_state or len(r[1]) != ci[3]:
                out.disagreements.append({"correspondence": "Cache.step <-> MODE/_log_config/_log_disabled after the history",
                                          "model": m_state, "impl": i_state, "history": hist[-6:], "argv": argv})
        out.extra["max_distinct_handlers_in_one_history"] = max_distinct
        if not replay and max_distinct <= 32:
            out.disagreements.append({"correspondence": "generator", "what": "no history loaded more than 32 distinct handlers: the LRU never evicted"})

        # the refuted statement, on the real code: a direct check_command call reads the MODE left by the last main()
        q = {"k": "check", "command": "ls", "config": "", "cwd": world.cwds["plain"]["path"]}
        h = [{"k": "main", "stdin": main_stdin("gemini", "ls", world.cwds["plain"]["path"]), "cwdn": "plain"}]
        a_hist = worker({"history": h, "final": [q], "snapshot": False}, world.home)["answers"][0]
        a_fresh = worker({"history": [], "final": [q], "snapshot": False}, world.home)["answers"][0]
        out.extra["C18_envelope_refuted_on_real_code"] = {
            "after_gemini_main": envelope_mode(a_hist), "fresh": envelope_mode(a_fresh),
            "same_verdict": envelope_verdict(a_hist)[0] == envelope_verdict(a_fresh)[0]}
        if envelope_verdict(a_hist)[0] != envelope_verdict(a_fresh)[0]:
            out.violations.append({"kind": "history-dependence", "what": "check_command's verdict depends on MODE", "history": h, "final": [q],
                                   "signature_text": "history:check_command"})
    finally:
        model.close()
        shutil.rmtree(root, ignore_errors=True)
    n, mism = core.coq_crosscheck("C18", xcheck)
    out.extra["coq_vm_crosscheck"] = {"cases": n, "mismatches": len(mism)}
    if mism:
        out.disagreements.append({"correspondence": "extracted OCaml model <-> vm_compute in Coq", "detail": mism[:5]})
    out.extra["rule"] = (
        "random histories of 1..400 calls (70% analyze over one command per handler module x 4 argument shapes (bare, 1, 2, 3 words) + 24 curated compound "
        "commands, 4 configs, 6 cwds, 10% remote; 16% whole main() runs in the three host shapes over cwds whose .dippy logs to a good "
        "file, /dev/full, a NUL path, a path below a file; MODE assignments; direct configure_logging/log_decision/check_command), "
        "with and without a mode flag; systematic: every handler module loaded, evicted by 40 others, asked again; every handler command primed with its other shapes and configs; logging-failure "
        "sandwiches per host.  distinct = distinct (history, query, flags); every case is non-trivial (history of at least one call)")
    return out
