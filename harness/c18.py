"""C18 - verdicts are a pure function of command, configuration, cwd and referenced files.

Four streams, all on the real code in real processes (harness/c18_worker.py):

1. Histories of 1..400 calls (analyses hitting far more than 32 distinct handler modules so that the
   LRU evicts, several configs, cwds, remote flags, whole main() runs in all three host shapes, MODE
   assignments, logging configured onto failing sinks in the middle) executed in ONE Python process;
   then the query is asked, twice.
2. History oracle over a constructed pool (harness/c18_pool.py: every handler module, a script importing
   each safe-listed module in each import spelling, scripts importing nothing next to m.py / m/ for every
   m, the same bytes in clean and shadowed directories, every config text x command, cwd and remote
   variants, wrappers, delegations, sql, redirects, substitutions, MCP tools, whole hook runs onto
   working and failing log sinks): every item answered in a fresh process; then random permutations
   (forwards and backwards) and ONE walk in which every ordered pair (leaker, victim) is consecutive -
   the walk is PairWalk.pair_walk of the model (C18_pair_walk: complete, n*n+2n long) - in long-lived
   processes, with the caller's Config objects shared or re-parsed; every answer must be the fresh one.
   A wrong answer is shrunk (the analysis directly before; else delta debugging over the prefix, each
   candidate in a fresh process) to a replayable history.
3. Residue oracle (harness/c18_state.py): before and after EVERY analysis of a pass over the pool,
   everything reachable from the dippy modules is fingerprinted - module globals, class attributes,
   default-argument objects, closure cells, function attributes, functools caches (and the objects they
   hand out), the caller's shared Config objects, process-level settings.  What one call changes must be
   what Cache.residue says it changes (handler cache; MODE / _log_config / _log_disabled for main());
   anything else is reported - with a concrete (leaker, victim) replay when the pool holds a victim,
   as the residue itself (no-failing-input-found) when not.
4. The static inventory of process state in the source (tools/tables/t18_cache.py) is tied to the model by
   theorem C18_state_tie.

Implementation-level oracle (model-free): the answer after the history is the answer of a fresh
process asked only the query, and asking twice gives the same.
Correspondence: Model/Cache.v - the hit/miss sequence of every _load_handler call and cache_info()
equal the model's LRU on the recorded module names; MODE / _log_config / _log_disabled after the
history equal the model's state; per call, the changed state components equal Cache.residues."""
from __future__ import annotations

import concurrent.futures as cf
import json
import os
import random
import shutil
import subprocess
import tempfile

from . import c18_pool, core, lib

TRUSTED = [
    "Coq 8.16.1 kernel and its VM (vm_compute for the closed examples and the state tie)",
    "axioms: none (every theorem of Props/C18.v prints 'Closed under the global context')",
    "tools/tables/t18_cache.py (the lru_cache bound and signature of _load_handler; the static inventory of functools caches, global "
    "statements, class-level containers, mutable defaults, table writes, foreign writes and argument writes - a syntactic scan, regenerated on every run)",
    "extraction: ExtrOcamlBasic only; OCaml 4.13.1; ocaml/driver.ml; cross-checked in Coq by vm_compute on a sample",
    "the model takes 'an analysis' to be any program whose only access to process state is get_handler (analyzer.analyze has "
    "config, cwd and remote as explicit parameters): validated per analysis by the residue oracle - harness/c18_state.py fingerprints every object "
    "reachable from the dippy modules (globals, class attributes, defaults, closures, function attributes, functools caches and their values, "
    "the caller's Config objects, process settings).  Its completeness is the hypothesis of C18_residue_sound: state kept where the walker does "
    "not look (C extension objects, the file system, other processes) is not seen; the history oracle is the independent net for that",
    "a child forked from a process that has imported dippy and analysed nothing is a fresh process (compared with really fresh interpreters "
    "for every python victim and 1 item in 8 of the rest, each run)",
    "importlib.import_module is deterministic and returns the same module object for the same name (sys.modules); functools.lru_cache - modelled",
    "the handlers themselves, the parser and the file system contents are fixed during a history (the property's 'referenced files')",
]

PY = "/venv/bin/python"
WORKER = os.path.join(os.path.dirname(os.path.abspath(__file__)), "c18_worker.py")
SRC = os.path.join(lib.REPO, "src")
# the process state of the model (Cache.state), by the name the snapshot gives it
MODEL_STATE = {"cli:_load_handler": "lru", "dippy:MODE": "mode", "core.config:_log_config": "logcfg",
               "core.config:_log_disabled": "logdis"}
# outside the model, on whole main() runs and direct check_command calls only: the first setup_logging() of a process
# installs the approvals-log FileHandler (one descriptor, logging.root, raiseExceptions off); without it the first
# logging.warning() of approve/ask/deny makes the logging module install its stderr handler.  A write-only sink:
# nothing in dippy reads logging.root; C15 checks that it never reaches stdout.
MAIN_ONLY_STATE = {"proc:fds", "proc:logging.root", "proc:logging.raiseExceptions"}
# Python's import memo: a module imported on first use (dippy.core.parser by the PostToolUse route, datetime by
# log_decision) stays in sys.modules; its body runs once, as it would have at start-up
IMPORT_MEMO = {"proc:sys.modules"}
ALLOWED_STATE = set(MODEL_STATE) | MAIN_ONLY_STATE | IMPORT_MEMO


def allowed(g, kind):
    return g in MODEL_STATE or g in IMPORT_MEMO or g.startswith("import:") or (g in MAIN_ONLY_STATE and kind in ("main", "check"))


def group(path):
    """module:name of a snapshot path (module:name.attr[key]#...)"""
    head, _, rest = path.partition(":")
    for i, ch in enumerate(rest):
        if ch in "[#" or (ch == "." and head not in ("proc", "import")):
            return head + ":" + rest[:i]
    return path

CONFIGS = [
    "",
    'deny zap "NOZAP"\nallow okcmd\nask git push "careful"\n',
    "allow git *\ndeny-redirect /etc/*\nallow-redirect /tmp/*\n",
    "alias g git\nask docker *\nallow kubectl get *\n",
]
CURATED = ["git status", "git push", "docker ps", "docker exec c ls", "kubectl get pods", "env FOO=1 git status",
           "xargs rm", "find . -name x -exec rm {} ;", "sh -c 'git push'", "timeout 5 git status", "ls | grep x",
           "cat f > out", "python x.py", "zap 1", "okcmd a b", "g status", "echo $(git status)", "frobnicate a",
           "ls; cd /tmp; cat x > y", "rm -rf x", "curl http://x", "sed -i s/a/b/ f", "sort -o out f", "awk '{print}' f",
           # commands whose verdict depends on referenced files: the same script bytes sit in every cwd, the
           # sibling modules next to them differ (see World)
           "python s.py", "python3 s.py a b", "python t.py", "cd sub && python s.py", "python sub/s.py", "python -m calendar",
           "sqlite3 db 'select 1'", "python s.py; python t.py"]


def worker(job, home, argv=()):
    env = {"PATH": "/usr/bin:/bin", "HOME": home, "PYTHONHASHSEED": "0"}
    job = dict(job, src=SRC, argv=list(argv))
    p = subprocess.run([PY, WORKER], input=json.dumps(job).encode(), capture_output=True, env=env, cwd=home, timeout=600)
    if p.returncode != 0:
        raise RuntimeError("worker failed: " + p.stderr.decode("utf-8", "replace")[-2000:])
    return json.loads(p.stdout.decode())


def envelope_verdict(ans):
    """(action, reason) of a main() stdout text or a check_command dict, whatever the host shape"""
    if isinstance(ans, str):
        try:
            ans = json.loads(ans) if ans.strip() else {}
        except ValueError:
            return ["?", ans]
    if not isinstance(ans, dict):
        return ["?", str(ans)]
    if "hookSpecificOutput" in ans:
        h = ans["hookSpecificOutput"]
        return [h["permissionDecision"], h["permissionDecisionReason"]]
    if "decision" in ans:
        return [ans["decision"], ans["reason"]]
    if "permission" in ans:
        return [ans["permission"], ans["user_message"]]
    return ["{}", ""]


def envelope_mode(ans):
    if isinstance(ans, str):
        try:
            ans = json.loads(ans) if ans.strip() else {}
        except ValueError:
            return "?"
    if "hookSpecificOutput" in ans:
        return "claude"
    if "decision" in ans:
        return "gemini"
    if "permission" in ans:
        return "cursor"
    return "?"


def main_stdin(mode, command, cwd):
    if mode == "cursor":
        return json.dumps({"command": command, "cwd": cwd})
    tool = "Bash" if mode == "claude" else "run_shell_command"
    return json.dumps({"tool_name": tool, "tool_input": {"command": command}, "cwd": cwd})


class World:
    """scratch HOME and cwds (fixed during a run)"""

    def __init__(self, root):
        self.root = root
        self.home = os.path.join(root, "home")
        os.makedirs(os.path.join(self.home, ".claude"))
        os.makedirs(os.path.join(self.home, ".dippy"))
        with open(os.path.join(self.home, ".dippy", "config"), "w") as f:     # main() merges it below every project config
            f.write('deny userzap "USER"\nallow-mcp mcp__user__*\nalias uz userzap\n')
        self.logs = os.path.join(root, "logs")
        os.makedirs(self.logs)
        with open(os.path.join(self.logs, "afile"), "w") as f:
            f.write("")
        self.cwds = {}
        # name -> (config text, log spec for the model, configure fails, log_decision fails)
        specs = {
            "plain": ("", None, False, False),
            "rules": (CONFIGS[1], None, False, False),
            "logok": (CONFIGS[1] + f"set log {self.logs}/audit.log\nset log-full\n", True, False, False),
            "logfull": (CONFIGS[2] + "set log /dev/full\n", True, False, True),
            "lognul": (CONFIGS[1] + f"set log {self.logs}/a\0b/audit.log\n", True, True, False),
            "lognotdir": (CONFIGS[3] + f"set log {self.logs}/afile/audit.log\n", True, True, False),
            "mcp": (c18_pool.CONFIGS[7], None, False, False),
        }
        logspec = {"logok": [f"{self.logs}/audit.log", True], "logfull": ["/dev/full", False],
                   "lognul": [f"{self.logs}/a\0b/audit.log", False], "lognotdir": [f"{self.logs}/afile/audit.log", False]}
        for name, (text, log, cfail, dfail) in specs.items():
            d = os.path.join(root, "cwd_" + name)
            os.makedirs(d)
            if text:
                with open(os.path.join(d, ".dippy"), "w") as f:
                    f.write(text)
            with open(os.path.join(d, "x.py"), "w") as f:
                f.write("print(1)\n")
            # identical script bytes in every cwd; what lies next to them differs from cwd to cwd
            os.makedirs(os.path.join(d, "sub"))
            for rel in ("s.py", "t.py", os.path.join("sub", "s.py")):
                with open(os.path.join(d, rel), "w") as f:
                    f.write("import json\nimport textwrap\nprint(json.dumps([1, 2]))\n")
            if name in ("rules", "logfull"):
                with open(os.path.join(d, "json.py"), "w") as f:       # a sibling shadows a safe module
                    f.write("print('shadow')\n")
            if name in ("logok", "lognul"):
                os.makedirs(os.path.join(d, "sub", "textwrap"))        # ... a package, one level down
            if name == "lognotdir":
                with open(os.path.join(d, "t.py"), "w") as f:           # same name, different bytes
                    f.write("import os\nos.system('x')\n")
            self.cwds[name] = {"path": d, "log": log, "cfail": cfail, "dfail": dfail, "logspec": logspec.get(name)}


def gen_query(rng, world, commands, explicit):
    r = rng.random()
    cwdn = rng.choice(list(world.cwds))
    cwd = world.cwds[cwdn]["path"]
    if r < 0.70:
        return {"k": "analyze", "command": rng.choice(commands), "config": rng.choice(CONFIGS), "cwd": cwd,
                "remote": rng.random() < 0.1}
    if r < 0.86:
        return {"k": "main", "stdin": main_stdin(rng.choice(["claude", "gemini", "cursor"]), rng.choice(commands), cwd),
                "cwdn": cwdn}
    if r < 0.90 and not explicit:
        return {"k": "setmode", "mode": rng.choice(["claude", "gemini", "cursor"])}
    if r < 0.94:
        kind = rng.choice(["none", "ok", "devfull", "nul"])
        log = {"none": None, "ok": world.logs + "/direct.log", "devfull": "/dev/full", "nul": world.logs + "/a\0b/x.log"}[kind]
        return {"k": "configure", "log": log, "full": rng.random() < 0.5, "fails": kind == "nul", "dfails": kind == "devfull"}
    if r < 0.98:
        return {"k": "log_decision"}
    return {"k": "check", "command": rng.choice(commands), "config": rng.choice(CONFIGS), "cwd": cwd}


def gen_final(rng, world, commands):
    cwdn = rng.choice(list(world.cwds))
    cwd = world.cwds[cwdn]["path"]
    if rng.random() < 0.7:
        return {"k": "analyze", "command": rng.choice(commands), "config": rng.choice(CONFIGS), "cwd": cwd,
                "remote": rng.random() < 0.1}
    return {"k": "main", "stdin": main_stdin(rng.choice(["claude", "gemini", "cursor"]), rng.choice(commands), cwd), "cwdn": cwdn}


def model_queries(world, queries, answers, per_query, loads, explicit):
    """translate executed queries into the model's; the analysis is 'the modules it asked for + its result'"""
    out = []
    pos = 0
    dfails_direct = False
    for q, a, nloads in zip(queries, answers, per_query):
        names = [m for m, _ in loads[pos:pos + nloads]]
        pos += nloads
        k = q["k"]
        if k == "analyze":
            out.append(["analyze", names, a[0], a[1]])
        elif k == "main":
            c = world.cwds[q["cwdn"]]
            v = envelope_verdict(a)
            det = envelope_mode(a) if explicit is None else explicit
            spec = [c.get("logspec") or ["x", True]] if c["log"] else []
            if envelope_mode(a) == "?":
                # a fixed mode flag with an input of another host's shape: main() answers {} before any decision
                out.append(["configure", spec, c["cfail"]])
                dfails_direct = c["dfail"]
                continue
            out.append(["main", det, names, v[0], v[1], spec, c["cfail"], c["dfail"]])
            dfails_direct = False
        elif k == "check":
            v = envelope_verdict(a)
            # a direct check_command logs through whatever sink is configured: tell the model whether it fails
            out.append(["check", names, v[0], v[1]])
            if dfails_direct:
                out.append(["log_decision", True])
        elif k == "setmode":
            out.append(["setmode", q["mode"]])
        elif k == "configure":
            out.append(["configure", [["x", bool(q.get("full"))]] if q.get("log") else [], bool(q.get("fails"))])
            dfails_direct = bool(q.get("dfails"))
        elif k == "log_decision":
            out.append(["log_decision", dfails_direct])
    return out


# ============================================================================================ pool oracles
def same_answer(q, a, b):
    """a direct check_command call builds its envelope from the MODE a previous main() left (C18_envelope_refuted):
    its verdict and reason are compared; everything else byte for byte"""
    if q["k"] == "check":
        return envelope_verdict(a) == envelope_verdict(b)
    return a == b


def pool_model_queries(world, it, names, answer):
    """one executed pool item as queries of the model: a shell command through main() is QMain; the other routes of
    main() (MCP tool, PostToolUse, bypass mode, not a shell tool) detect the mode, configure logging and possibly log one
    decision without analysing anything; unreadable input does nothing at all"""
    q = it["q"]
    if q["k"] != "main" or it.get("route") == "shell":
        return model_queries(world, [q], [answer], [len(names)], [[m, False] for m in names], None)
    route = it.get("route")
    if route == "bad-json":
        return []
    c = world.cwds[q["cwdn"]]
    out = [["setmode", it["mode"]], ["configure", [c.get("logspec") or ["x", True]] if c["log"] else [], c["cfail"]]]
    if route in ("mcp-hit", "bypass"):
        out.append(["log_decision", c["dfail"]])
    return out


def ddmin(hist, fails, budget=60):
    """smallest sub-history (order kept) that still fails; `fails(list)` runs one fresh process"""
    n = 2
    while len(hist) >= 2 and budget > 0:
        size = max(1, len(hist) // n)
        chunks = [hist[i:i + size] for i in range(0, len(hist), size)]
        reduced = False
        for i, c in enumerate(chunks):               # a chunk alone
            budget -= 1
            if fails(c):
                hist, n, reduced = c, 2, True
                break
        if not reduced:
            for i in range(len(chunks)):             # everything but a chunk
                rest = [x for j, c in enumerate(chunks) if j != i for x in c]
                budget -= 1
                if rest and fails(rest):
                    hist, n, reduced = rest, max(n - 1, 2), True
                    break
        if not reduced:
            if n >= len(hist):
                break
            n = min(len(hist), 2 * n)
    return hist


def pool_oracles(out, world, tier, rng, model, xcheck, items):
    """History oracle (permutations and all ordered pairs in one process == fresh process) and residue oracle
    (nothing reachable from the dippy modules changes across an analysis, the model's state apart)."""
    pool = [it["q"] for it in items]
    n = len(pool)
    for it in items:
        out.count("pool_family", it["fam"])
    thorough = tier == "thorough"
    timer = lib.Timer()
    times = out.extra.setdefault("pool_seconds", {})

    def fresh1(q):
        return worker({"history": [], "final": [q], "snapshot": False}, world.home)["answers"][0]

    # fresh answers: each item in a child forked from a process that has imported dippy and analysed nothing; a
    # sample (every python victim, 1 item in 8 of the rest) also in a really fresh interpreter: they must agree
    k_f = 6
    with cf.ThreadPoolExecutor(max_workers=12) as ex:
        parts = list(ex.map(lambda j: worker({"forkpool": pool[j::k_f]}, world.home)["answers"], range(k_f)))
        fresh = [None] * n
        for j, part in enumerate(parts):
            fresh[j::k_f] = part
        sample = [i for i, it in enumerate(items) if it["fam"] == "py-victim" or i % 8 == 0]
        spawned = list(ex.map(lambda i: fresh1(pool[i]), sample))
    for i, a in zip(sample, spawned):
        if a != fresh[i]:
            out.violations.append({"kind": "fresh-nondeterministic", "what": "a fresh interpreter and a child forked before any analysis answer differently",
                                   "query": pool[i], "a": a, "b": fresh[i], "history": [], "final": [pool[i], pool[i]], "argv": [],
                                   "signature_text": "fresh:" + json.dumps(pool[i], sort_keys=True)[:200]})
    times["fresh"] = timer.s()
    out.extra["pool"] = {"items": n, "core": sum(1 for it in items if it["core"]), "fresh_interpreters_compared": len(sample),
                         "fresh_verdicts": {}}
    for it, a in zip(items, fresh):
        v = a[0] if it["q"]["k"] == "analyze" else envelope_verdict(a)[0]
        d = out.extra["pool"]["fresh_verdicts"].setdefault(it["fam"], {})
        d[v] = d.get(v, 0) + 1

    def history_fails(victim, share):
        def f(hist_idx):
            r = worker({"history": [pool[i] for i in hist_idx], "final": [pool[victim]], "snapshot": False,
                        "share_config": share}, world.home)
            return not same_answer(pool[victim], r["answers"][0], fresh[victim])
        return f

    reported = set()

    def report(victim, prefix, share, got, stream, residue=None):
        """shrink the history before a wrong answer to a replay; one report per victim"""
        if victim in reported or len(reported) >= 12:
            return
        reported.add(victim)
        fails = history_fails(victim, share)
        hist = None
        if prefix and fails(prefix[-1:]):
            hist = prefix[-1:]                                  # the analysis directly before is enough
        else:
            ded = list(dict.fromkeys(prefix))
            if fails(ded):
                hist = ddmin(ded, fails)
            elif fails(prefix):
                hist = ddmin(prefix, fails) if len(prefix) <= 2000 else prefix
        q = pool[victim]
        if hist is None:
            out.violations.append({"kind": "history-dependence", "what": "an item of the pool was answered differently from a fresh process inside "
                                   f"a {stream}; the sub-history could not be reproduced in a fresh process", "final": [q, q], "history": [],
                                   "argv": [], "after_history": got, "fresh": fresh[victim], "signature_text": "history-unreproduced:" + json.dumps(q, sort_keys=True)[:300]})
            return
        got = worker({"history": [pool[i] for i in hist], "final": [q], "snapshot": False, "share_config": share}, world.home)["answers"][0]
        v = {"kind": "history-dependence", "stream": stream,
             "what": "the answer after the history (shrunk from a %s) differs from a fresh process's" % stream,
             "history": [pool[i] for i in hist], "final": [q, q], "argv": [], "share_config": share,
             "after_history": got, "fresh": fresh[victim], "leaker_family": [items[i]["fam"] for i in hist][:5], "victim_family": items[victim]["fam"],
             "signature_text": "history:" + json.dumps([q, []], sort_keys=True)[:300]}
        if residue:
            v["residue_left_by_the_history"] = residue
        out.violations.append(v)

    def check_seen(res, seq, share, stream):
        """compare every answer an item got in one process with its fresh answer; earliest wrong answers first"""
        bad = []
        for idx_s, entries in res["seen"].items():
            idx = int(idx_s)
            for a, pos, cnt in entries:
                if not same_answer(pool[idx], a, fresh[idx]):
                    bad.append((pos, idx, a))
        bad.sort()
        for pos, idx, a in bad[:3]:
            report(idx, seq[:pos], share, a, stream)
        return len(bad)

    # ---------------------------------------------------------------- residue oracle: one pass over the whole pool
    order = list(range(n))
    rng.shuffle(order)
    k_res = 8
    chunks = [order[i::k_res] for i in range(k_res)]
    with cf.ThreadPoolExecutor(max_workers=8) as ex:
        res_runs = list(ex.map(lambda c: worker({"pool": pool, "seq": c, "residue": True, "share_config": True}, world.home), chunks))
    times["residue_runs"] = timer.s()
    residue_by_group = {}     # group -> (leaker index, changes)
    lazy_imports = set()
    snap_ms, paths, shims = [], 0, set()
    n_model = 0
    for c, res in zip(chunks, res_runs):
        snap_ms.append(res["snap_ms"] or 0)
        paths = max(paths, res["paths"] or 0)
        shims |= set(res["shims"])
        check_seen(res, c, True, "residue pass")
        changes_at = {pos: ch for pos, idx, ch in res["residue"]}
        # the model's residue (Cache.residues) for this process's calls, in its order
        mq_at = {}
        mq = []
        for pos, idx in enumerate(c):
            names, a = res["steps"][pos]
            one = pool_model_queries(world, items[idx], names, a)
            mq_at[pos] = (len(mq), len(one))
            mq += one
        rec = len(xcheck) < 30 and len(mq) <= 12
        mres = model.call(["cache_residue", [], mq], record=rec) if mq else []
        if rec and mq:
            xcheck.append((model.last_request, [], mres))
        for pos, idx in enumerate(c):
            it = items[idx]
            ch = changes_at.get(pos, [])
            measured = {}
            for path, b, a, detail in ch:
                measured.setdefault(group(path), []).append([path, b, a, detail])
            start, cnt = mq_at[pos]
            expected = set()
            for r in mres[start:start + cnt]:
                expected |= set(r)
            modelled = True
            out.case(json.dumps(["residue", it["q"]], sort_keys=True))
            out.count("kind", "residue")
            for g, lst in measured.items():
                comp = MODEL_STATE.get(g)
                if comp is not None:
                    if modelled:
                        n_model += 1
                        ok = comp in expected or (comp == "lru" and res["steps"][pos][0])
                        if not ok:
                            out.disagreements.append({"correspondence": "Cache.residue <-> state left by one call (residue oracle)",
                                                      "what": f"the call changed {g}, the model says it leaves {sorted(expected)}", "query": it["q"], "changes": lst[:5]})
                    continue
                if allowed(g, it["q"]["k"]):
                    if g.startswith("import:") or g in IMPORT_MEMO:
                        lazy_imports.add(g if g.startswith("import:") else lst[0][3][:120])
                    continue
                residue_by_group.setdefault(g, (idx, lst[:8]))
            if modelled:
                got = {MODEL_STATE[g] for g in measured if g in MODEL_STATE}
                missing = {e for e in expected if e not in got}
                if missing:
                    out.disagreements.append({"correspondence": "Cache.residue <-> state left by one call (residue oracle)",
                                              "what": f"the model says the call changes {sorted(expected)}, the process shows only {sorted(got)}",
                                              "query": it["q"]})
    out.extra["residue_oracle"] = {"analyses_snapshotted": n, "paths_per_snapshot": paths, "snapshot_ms": round(sum(snap_ms) / len(snap_ms), 1),
                                   "functools_caches_found": sorted(shims), "model_state_changes_compared": n_model,
                                   "unexplained_groups": sorted(residue_by_group),
                                   "imports_on_first_use": sorted(lazy_imports)}
    times["residue_compare"] = timer.s()
    # residue nobody explains: look for a victim of it in the pool
    for g, (leaker, changes) in sorted(residue_by_group.items())[:6]:
        seq = [leaker] + [i for i in range(n)]
        found = False
        for share in (True, False):
            res = worker({"pool": pool, "seq": seq, "residue": False, "share_config": share}, world.home)
            cand = []
            for idx_s, entries in res["seen"].items():
                idx = int(idx_s)
                for a, pos, cnt in entries:
                    if not same_answer(pool[idx], a, fresh[idx]):
                        cand.append((pos, idx, a))
            cand.sort()
            for pos, idx, a in cand[:40]:
                if history_fails(idx, share)([leaker]):
                    before = len(out.violations)
                    reported.discard(idx)
                    report(idx, [leaker], share, a, "search from the residue " + g, residue=changes)
                    found = len(out.violations) > before
                    if found:
                        break
            if found:
                break
        if not found:
            out.disagreements.append({"correspondence": "Cache.state <-> objects reachable from the dippy modules (residue oracle)",
                                      "what": f"an analysis left a change in {g}, which is neither state of the model nor a justified memo table; "
                                              "no pool item was found whose answer it changes",
                                      "left_by": pool[leaker], "changes": changes})

    times["residue_search"] = timer.s()
    # ---------------------------------------------------------------- history oracle: permutations (and back)
    n_perm = 24 if thorough else 6
    perms = []
    for i in range(n_perm):
        o = list(range(n))
        rng.shuffle(o)
        perms.append((o + o[::-1], i % 2 == 1))
    # ---------------------------------------------------------------- history oracle: all ordered pairs, one walk
    sub = list(range(n)) if thorough else [i for i, it in enumerate(items) if it["core"]]
    m = len(sub)
    walk = []
    for i in range(m):
        walk += [sub[ord(x)] for x in model.call(["pair_block", chr(m), chr(i)])]
    small = [ord(x) for x in model.call(["pair_walk", chr(7)], record=True)]
    xcheck.append((model.last_request, [], [chr(x) for x in small]))
    blocks7 = []
    for i in range(7):
        blocks7 += [ord(x) for x in model.call(["pair_block", chr(7), chr(i)])]
    pairs = set(zip(walk, walk[1:]))
    if blocks7 != small or len(pairs) != m * m or len(walk) != m * m + 2 * m:
        out.disagreements.append({"correspondence": "PairWalk.pair_walk <-> the walk the harness runs",
                                  "what": "the blocks do not make up the walk of C18_pair_walk", "pairs": len(pairs), "expected": m * m, "length": len(walk)})
    times["walk_from_model"] = timer.s()
    k_walk = 12 if thorough else 6
    size = (len(walk) + k_walk - 1) // k_walk
    pieces = []
    for j in range(k_walk):
        lo = max(0, j * size - 1)                       # one element of overlap: the pair across the cut stays consecutive
        pieces.append((walk[lo:(j + 1) * size], j % 2 == 1))
    runs = [(p, s, "permutation and its reverse") for p, s in perms] + [(p, s, "walk over all ordered pairs") for p, s in pieces if p]
    with cf.ThreadPoolExecutor(max_workers=8) as ex:
        results = list(ex.map(lambda r: worker({"pool": pool, "seq": r[0], "residue": False, "share_config": r[1]}, world.home), runs))
    times["history_runs"] = timer.s()
    wrong = 0
    covered = set()
    for (seq, share, stream), res in zip(runs, results):
        wrong += check_seen(res, seq, share, stream)
        out.case(json.dumps([stream, lib.sha(seq), share]))
        out.count("kind", "pool " + stream.split()[0])
        out.count("history_length", "101-400" if len(seq) <= 400 else "401+")
        if stream.startswith("walk"):
            covered |= set(zip(seq, seq[1:]))
    out.evaluations += sum(len(r[0]) for r in runs)
    out.extra["history_oracle"] = {"pool": n, "pair_pool": m, "ordered_pairs_walked": len(covered & pairs), "ordered_pairs_expected": m * m,
                                   "walk_length": len(walk), "walk_processes": k_walk, "permutations": n_perm,
                                   "analyses_in_long_lived_processes": sum(len(r[0]) for r in runs), "wrong_answers": wrong}
    if len(covered & pairs) != m * m:
        out.disagreements.append({"correspondence": "generator", "what": "the walk pieces do not cover every ordered pair", "covered": len(covered & pairs), "expected": m * m})


def environment_mutation_stream(out, root):
    """The verdict is a function of the file system as it IS: between two analyses of the same command in one process the
    world changes - a module appears next to the script or goes away, the script's bytes change while size and mtime stay,
    the script is replaced by a rename, the directory is swapped through a symlink - and each answer must equal the answer
    of a fresh interpreter asked at that moment."""
    import subprocess
    from pathlib import Path
    from dippy.core import analyzer as an
    from dippy.core.config import parse_config

    cfg = parse_config("")
    probe = ("import sys, json; from pathlib import Path; from dippy.core.analyzer import analyze; from dippy.core.config import parse_config; "
             "d = analyze(sys.argv[1], parse_config(''), Path(sys.argv[2])); print(json.dumps([d.action, d.reason]))")

    def fresh(cmd, cwd):
        r = subprocess.run([core.PY, "-c", probe, cmd, cwd], capture_output=True, text=True, timeout=60,
                           env={**os.environ, "PYTHONPATH": os.path.join(lib.REPO, "src")})
        return json.loads(r.stdout) if r.returncode == 0 and r.stdout.strip() else ["error", r.stderr[-200:]]

    base = os.path.join(root, "mutate")
    safe_src = "import json\nprint(json.dumps([1, 2]))\n"
    bad_src = "import os\nos.system('id')#" + "x" * 200 + "\n"

    def pad(src, n):
        return src + "#" * (n - len(src) - 1) + "\n" if len(src) < n else src

    n = max(len(safe_src), len(bad_src)) + 8
    scenarios = []
    for name, steps in [
        ("sibling-appears", [("write", "json.py", "x = 1\n")]), ("sibling-dir-appears", [("mkdir", "json")]), ("sibling-pyc-appears", [("write", "json.pyc", "")]),
        ("transitive-sibling-appears", [("write", "re.py", "x = 1\n")]),
        ("sibling-goes", [("write", "json.py", "x = 1\n"), ("analyze",), ("remove", "json.py")]),
        ("same-size-same-mtime", [("rewrite-keep-stat", "x.py", pad(bad_src, n))]),
        ("replaced-by-rename", [("rename-in", "x.py", pad(bad_src, n))]),
        ("script-removed", [("remove", "x.py")]),
        ("dir-swapped", [("swap-dir",)]),
    ]:
        scenarios.append((name, steps))
    for name, steps in scenarios:
        d = os.path.join(base, name, "w")
        os.makedirs(d, exist_ok=True)
        alt = os.path.join(base, name, "alt")
        os.makedirs(alt, exist_ok=True)
        with open(os.path.join(d, "x.py"), "w") as f:
            f.write(pad(safe_src, n))
        with open(os.path.join(alt, "x.py"), "w") as f:
            f.write(pad(bad_src, n))
        link = os.path.join(base, name, "cur")
        if os.path.lexists(link):
            os.unlink(link)
        os.symlink("w", link)
        for cmd, cwd in (("python3 x.py", link), (f"python3 {link}/x.py", root)):
            # restore the starting world for the second spelling
            for fn in os.listdir(d):
                p = os.path.join(d, fn)
                if fn != "x.py":
                    (os.rmdir if os.path.isdir(p) else os.unlink)(p)
            with open(os.path.join(d, "x.py"), "w") as f:
                f.write(pad(safe_src, n))
            os.unlink(link)
            os.symlink("w", link)
            history = []
            for step in [("analyze",)] + list(steps) + [("analyze",)]:
                kind = step[0]
                if kind == "analyze":
                    got = an.analyze(cmd, cfg, Path(cwd))
                    want = fresh(cmd, cwd)
                    out.case(["mutation", name, cmd, len(history)])
                    out.count("stream", "environment-mutation")
                    if [got.action, got.reason] != want:
                        out.violations.append({"kind": "stale-world", "what": f"after {history or 'nothing'}: {cmd!r} in one process answers {got.action} ({got.reason!r}), "
                                               f"a fresh interpreter asked now answers {want[0]} ({want[1]!r})",
                                               "scenario": name, "command": cmd, "history": history, "signature_text": f"stale-world | {name} | {cmd.split()[-1][-8:]}"})
                elif kind == "write":
                    with open(os.path.join(d, step[1]), "w") as f:
                        f.write(step[2])
                elif kind == "mkdir":
                    os.makedirs(os.path.join(d, step[1]), exist_ok=True)
                elif kind == "remove":
                    os.unlink(os.path.join(d, step[1]))
                elif kind == "rewrite-keep-stat":
                    p = os.path.join(d, step[1])
                    st = os.stat(p)
                    with open(p, "r+") as f:
                        f.write(step[2])
                        f.truncate()
                    os.utime(p, ns=(st.st_atime_ns, st.st_mtime_ns))
                elif kind == "rename-in":
                    p = os.path.join(d, step[1])
                    st = os.stat(p)
                    with open(p + ".new", "w") as f:
                        f.write(step[2])
                    os.utime(p + ".new", ns=(st.st_atime_ns, st.st_mtime_ns))
                    os.replace(p + ".new", p)
                elif kind == "swap-dir":
                    os.unlink(link)
                    os.symlink("alt", link)
                history.append(list(step)[:2])


def run(tier, seed, replay=None):
    lib.use_repo()
    import dippy.cli as cli

    rng = random.Random(seed)
    out = core.Outcome("C18")
    root = tempfile.mkdtemp(prefix="dippy-verif-")
    model = lib.Model()
    xcheck = []
    try:
        world = World(root)
        by_module = {}
        for cmd, mod in sorted(cli.KNOWN_HANDLERS.items()):
            by_module.setdefault(mod, cmd)
        handler_cmds = [f"{c} status" for c in by_module.values()] + [f"{c} --foo bar" for c in by_module.values()] + \
                       list(by_module.values()) + [f"{c} a b c" for c in by_module.values()]
        commands = CURATED + handler_cmds
        out.extra["handler_modules"] = len(by_module)
        import dippy.cli.python as pyh
        # the pool's files exist in every run (a replay names them); its random choices have their own stream
        items = c18_pool.build(world, tier, random.Random(seed + 18), pyh.SAFE_MODULES, cli.KNOWN_HANDLERS)

        jobs = []   # (label, history, final, argv)
        share_replay = False
        if replay and replay.get("history") is not None:
            # scratch paths are recorded relative to the root of the run
            replay = json.loads(json.dumps(replay).replace("{ROOT}", root))
            share_replay = bool(replay.get("share_config"))
            jobs.append(("replay", replay["history"], replay["final"], replay.get("argv", [])))
        else:
            n_hist = 80 if tier == "quick" else 1500
            for i in range(n_hist):
                explicit = rng.choice([None, None, None, "gemini", "cursor"])
                L = rng.choice([1, 2, 5, 33, 40, 100, 400]) if i < 14 else rng.randint(1, 400)
                hist = [gen_query(rng, world, commands, explicit) for _ in range(L)]
                q = gen_final(rng, world, commands)
                jobs.append(("random", hist, [q, q], ["--" + explicit] if explicit else []))
            # referenced files: the same command in every ordered pair of cwds (what one cwd's files say must
            # not stick to the next analysis of identical script bytes elsewhere)
            names = list(world.cwds)
            # (thorough tier; in the quick tier the pool's py-victim and cwd families hold the same shapes)
            for cmd in ("python s.py", "python t.py", "cd sub && python s.py", "python sub/s.py") if tier == "thorough" else ():
                for a in names:
                    for b in names:
                        if a == b:
                            continue
                        hist = [{"k": "analyze", "command": cmd, "config": "", "cwd": world.cwds[a]["path"], "remote": False}]
                        q = {"k": "analyze", "command": cmd, "config": "", "cwd": world.cwds[b]["path"], "remote": False}
                        jobs.append(("files", hist, [q, q], []))
            # systematic eviction: for every handler module, 40 other handlers first, then the query on it
            mods = list(by_module.items())
            step = 1
            for j in range(0, len(mods), step):
                mod, cmd = mods[j]
                others = [c for m, c in mods if m != mod]
                rng.shuffle(others)
                hist = [{"k": "analyze", "command": f"{c} status", "config": "", "cwd": world.cwds["plain"]["path"], "remote": False}
                        for c in others[:40]]
                q = {"k": "analyze", "command": f"{cmd} status", "config": rng.choice(CONFIGS), "cwd": world.cwds["rules"]["path"], "remote": False}
                hist = [q] + hist      # loaded, evicted, loaded again
                jobs.append(("evict", hist, [q, q], []))
            # priming: other shapes of the same command first (a per-command memo would show here)
            for mod, cmd in mods:
                plain = world.cwds["plain"]["path"]
                hist = [{"k": "analyze", "command": c, "config": cfgt, "cwd": plain, "remote": False}
                        for c, cfgt in ((cmd, ""), (f"{cmd} a b c", CONFIGS[1]), (f"{cmd} status", CONFIGS[2]))]
                q = {"k": "analyze", "command": f"{cmd} status", "config": "", "cwd": plain, "remote": False}
                jobs.append(("prime", hist, [q, q], []))
            # logging failure in the middle, mode switches around it
            for mode in ("claude", "gemini", "cursor"):
                q = {"k": "main", "stdin": main_stdin(mode, "git push", world.cwds["logok"]["path"]), "cwdn": "logok"}
                hist = [{"k": "main", "stdin": main_stdin("gemini", "ls", world.cwds["logfull"]["path"]), "cwdn": "logfull"},
                        {"k": "log_decision"},
                        {"k": "main", "stdin": main_stdin("cursor", "zap 1", world.cwds["lognul"]["path"]), "cwdn": "lognul"},
                        {"k": "setmode", "mode": "cursor"},
                        {"k": "configure", "log": "/dev/full", "full": True, "fails": False, "dfails": True},
                        {"k": "log_decision"}, {"k": "log_decision"}]
                jobs.append(("logfail", hist, [q, q], []))

        # fresh answers, one process per distinct (query, argv)
        fresh_keys = {}
        for label, hist, final, argv in jobs:
            fresh_keys.setdefault(json.dumps([final[0], argv], sort_keys=True), (final[0], argv))

        def fresh(item):
            q, argv = item
            return worker({"history": [], "final": [q], "snapshot": False}, world.home, argv)["answers"][0]

        if not replay:
            pool_oracles(out, world, tier, rng, model, xcheck, items)

        with cf.ThreadPoolExecutor(max_workers=12) as ex:
            keys = list(fresh_keys)
            # children forked from a process (per flag set) that has imported dippy and analysed nothing; 20 of them are
            # compared with really fresh interpreters just below
            by_argv = {}
            for k in keys:
                by_argv.setdefault(tuple(fresh_keys[k][1]), []).append(k)
            parts = []
            for argv, ks in by_argv.items():
                for j in range(4):
                    if ks[j::4]:
                        parts.append((argv, ks[j::4]))
            fresh_ans = {}
            for (argv, ks), ans in zip(parts, ex.map(lambda p: worker({"forkpool": [fresh_keys[k][0] for k in p[1]]}, world.home, p[0])["answers"], parts)):
                fresh_ans.update(zip(ks, ans))
            # a fresh process is itself deterministic
            again = dict(zip(keys[:20], ex.map(fresh, [fresh_keys[k] for k in keys[:20]])))
            results = list(ex.map(lambda j: worker({"history": [], "final": j[1] + j[2], "snapshot": True, "share_config": share_replay},
                                                   world.home, j[3]), jobs))
        for k, a in again.items():
            if a != fresh_ans[k]:
                out.violations.append({"kind": "fresh-nondeterministic", "what": "two fresh processes answer the same query differently",
                                       "query": fresh_keys[k][0], "a": a, "b": fresh_ans[k], "signature_text": "fresh:" + k[:200]})

        max_distinct = 0
        for (label, hist, final, argv), res in zip(jobs, results):
            explicit = argv[0][2:] if argv else None
            answers = res["answers"]
            a1, a2 = answers[-2], answers[-1]
            q = final[0]
            key = json.dumps([q, argv], sort_keys=True)
            fa = fresh_ans[key]
            distinct_mods = len({m for m, _ in res["loads"]})
            max_distinct = max(max_distinct, distinct_mods)
            out.case(json.dumps([hist, q, argv], sort_keys=True), nontrivial=len(hist) >= 1)
            out.count("kind", label)
            out.count("history_length", "1" if len(hist) == 1 else "2-32" if len(hist) <= 32 else "33-100" if len(hist) <= 100 else "101-400")
            out.count("distinct_handlers_loaded", "0-32" if distinct_mods <= 32 else "33-60" if distinct_mods <= 60 else "61+")
            out.count("final_query", q["k"])
            out.count("explicit_mode", explicit or "auto")
            out.count("evictions", "yes" if res["cache_info"][1] > res["cache_info"][3] else "no")
            out.sample({"history_length": len(hist), "query": q, "answer": a1 if not isinstance(a1, str) else a1[:160],
                        "cache_info": res["cache_info"], "state": res["state"]})
            # ---- implementation-level oracle
            cmp1, cmpf = a1, fa
            if q["k"] == "main" and explicit is not None:
                # with a fixed mode flag, an assignment to dippy.MODE from outside is not undone by main():
                # the property is about the verdict, compare (action, reason)
                cmp1, cmpf = envelope_verdict(a1), envelope_verdict(fa)
            base = {"history": hist, "final": final, "argv": argv, "after_history": a1, "fresh": fa}
            if cmp1 != cmpf:
                out.violations.append({"kind": "history-dependence", "what": "the answer after the history differs from a fresh process's",
                                       **base, "signature_text": "history:" + json.dumps([q, argv], sort_keys=True)[:300]})
            if a1 != a2:
                out.violations.append({"kind": "repetition", "what": "asking the same query twice in a row gives different answers",
                                       **base, "second": a2, "signature_text": "repeat:" + json.dumps(q, sort_keys=True)[:300]})
            # ---- hidden state
            extra = [c for c in res["changed"] if not allowed(group(c[0]), "main")]
            if extra:
                out.disagreements.append({"correspondence": "Cache.state <-> module globals of the process",
                                          "what": "process state outside the model changed during the history", "changed": extra[:10],
                                          "history_length": len(hist)})
            # ---- LRU correspondence
            names = [m for m, _ in res["loads"]]
            hits = [h for _, h in res["loads"]]
            rec = len(xcheck) < 12 and len(names) <= 40
            r = model.call(["lru_trace", names], record=rec)
            if rec:
                xcheck.append((model.last_request, [], r))
            m_hits = [h == "1" for h in r[0]]
            ci = res["cache_info"]
            if m_hits != hits or len(r[1]) != ci[3] or sum(hits) != ci[0] or len(hits) - sum(hits) != ci[1]:
                out.disagreements.append({"correspondence": "Cache.trace <-> functools.lru_cache on _load_handler",
                                          "names": names[:80], "impl_hits": hits[:80], "model_hits": m_hits[:80],
                                          "cache_info": ci, "model_size": len(r[1])})
            # ---- state machine correspondence
            mq = model_queries(world, hist + final, answers, res["loads_per_query"], res["loads"], explicit)
            rec = len(xcheck) < 24 and len(mq) <= 8
            r = model.call(["cache_hist", [explicit] if explicit else [], mq], record=rec)
            if rec:
                xcheck.append((model.last_request, [], r))
            m_state = {"MODE": r[2], "log_config": r[3] == "1", "log_disabled": r[4] == "1"}
            i_state = {k: res["state"][k] for k in m_state}
            if m_state != i_state or len(r[1]) != ci[3]:
                out.disagreements.append({"correspondence": "Cache.step <-> MODE/_log_config/_log_disabled after the history",
                                          "model": m_state, "impl": i_state, "history": hist[-6:], "argv": argv})
        out.extra["max_distinct_handlers_in_one_history"] = max_distinct
        if not replay and max_distinct <= 32:
            out.disagreements.append({"correspondence": "generator", "what": "no history loaded more than 32 distinct handlers: the LRU never evicted"})

        # the refuted statement, on the real code: a direct check_command call reads the MODE left by the last main()
        q = {"k": "check", "command": "ls", "config": "", "cwd": world.cwds["plain"]["path"]}
        h = [{"k": "main", "stdin": main_stdin("gemini", "ls", world.cwds["plain"]["path"]), "cwdn": "plain"}]
        a_hist = worker({"history": h, "final": [q], "snapshot": False}, world.home)["answers"][0]
        a_fresh = worker({"history": [], "final": [q], "snapshot": False}, world.home)["answers"][0]
        out.extra["C18_envelope_refuted_on_real_code"] = {
            "after_gemini_main": envelope_mode(a_hist), "fresh": envelope_mode(a_fresh),
            "same_verdict": envelope_verdict(a_hist)[0] == envelope_verdict(a_fresh)[0]}
        if envelope_verdict(a_hist)[0] != envelope_verdict(a_fresh)[0]:
            out.violations.append({"kind": "history-dependence", "what": "check_command's verdict depends on MODE", "history": h, "final": [q],
                                   "signature_text": "history:check_command"})
        if not replay:
            environment_mutation_stream(out, root)
        # scratch paths relative to the root of the run, so that a replay file works in the next run's scratch directory
        out.violations = json.loads(json.dumps(out.violations).replace(root, "{ROOT}"))
        out.disagreements = json.loads(json.dumps(out.disagreements).replace(root, "{ROOT}"))
    finally:
        model.close()
        shutil.rmtree(root, ignore_errors=True)
    n, mism = core.coq_crosscheck("C18", xcheck)
    out.extra["coq_vm_crosscheck"] = {"cases": n, "mismatches": len(mism)}
    if mism:
        out.disagreements.append({"correspondence": "extracted OCaml model <-> vm_compute in Coq", "detail": mism[:5]})
    out.extra["rule"] = (
        "random histories of 1..400 calls (70% analyze over one command per handler module x 4 argument shapes (bare, 1, 2, 3 words) + 24 curated compound "
        "commands, 4 configs, 7 cwds, 10% remote; 16% whole main() runs in the three host shapes over cwds whose .dippy logs to a good "
        "file, /dev/full, a NUL path, a path below a file; MODE assignments; direct configure_logging/log_decision/check_command), "
        "with and without a mode flag; systematic: every handler module loaded, evicted by 40 others, asked again; every handler command primed with its other shapes and configs; logging-failure "
        "sandwiches per host.  Pool (harness/c18_pool.py, built from SAFE_MODULES and KNOWN_HANDLERS of the tree under test): fresh answer per item; "
        "residue snapshots around every item once; permutations forwards and backwards; one walk with every ordered pair of the core sub-pool (quick) / of the "
        "whole pool (thorough) consecutive, cut into pieces that overlap by one element, Config objects shared in every other process.  "
        "distinct = distinct (history, query, flags) / pool item / walk piece; every case is non-trivial (history of at least one call)")
    return out
