"""C06 - the hook protocol is total and fails closed.

The REAL hook runs as a subprocess of <REPO>/bin/dippy-hook (or of harness/hook_fault.py, which
replaces one function the hook calls by one that raises) in a scratch HOME / project tree.

Implementation-level oracle (model-free), for every pre-execution run:
  exit status 0; no "Traceback" on stderr; stdout is exactly one line holding one JSON object;
  that object is {} or a decision envelope; with a function made to raise, the answer is the
  fault-free answer, {} or the config-error ask - at the 8 named call sites as real processes, and at EVERY module-level
  function of the analysis modules and of the handler modules the commands load (found by reflection) x 22 commands x
  exception classes in-process, each reached point once more as a real process; an ALLOW envelope is legitimate (bypass permission mode
  on a routed call, or an independent in-process analyze() of a str command says allow with that
  reason, or the last matching *-mcp rule says allow) and, when a function that every allow path
  must call was made to raise, not there at all; unreadable / non-object stdin gives {} or ask.
Correspondence: Model/Hook.v main (extracted) with oracle answers taken from the real functions
in-process == the real process (items printed, exit status), on the same cases."""
from __future__ import annotations

import fnmatch
import json
import random
from pathlib import Path

from . import core, lib
from . import hookgen as g
from . import hooklib as H
from . import hookplace as P

TRUSTED = [
    "Coq 8.16.1 kernel and its VM (vm_compute for closed facts over the generated tables and the Examples)",
    "axioms: none (every theorem of Props/C06.v prints 'Closed under the global context')",
    "tools/gen_tables.py (SHELL_TOOL_NAMES, GEMINI_TOOL_NAMES, BYPASS_MODES, ENV_TRUTHY regenerated from dippy.py on every run)",
    "extraction: ExtrOcamlBasic only; OCaml 4.13.1; ocaml/driver.ml; cross-checked in Coq by vm_compute on a sample",
    "modelled, not verified: json.load, Path.resolve/cwd, load_config, configure_logging, log_decision, analyze, fnmatch, tokenize, "
    "match_after's per-rule matcher are oracles (any behaviour, may raise); the theorems hold for all of them",
    "not in the model: the legacy text log (logging.info/warning/error): stdlib logging swallows handler errors (and, since "
    "setup_logging sets logging.raiseExceptions = False, prints nothing about them), so these calls never raise into main(); json.dumps(ensure_ascii) and print of an ASCII line to a working stdout are total; setup_logging() raises "
    "nothing but OSError (it would need Path.home() to fail: no HOME and no passwd entry)",
    "C06_total assumes the functions main() calls raise subclasses of Exception only (KeyboardInterrupt / SystemExit escape `except Exception` by design)",
    "harness: subprocess runner, fault wrapper harness/hook_fault.py (monkeypatches, no repository change), host readers written from docs/hook-systems/*.md",
]

EXCS = ["ValueError", "KeyError", "RecursionError", "MemoryError", "OSError", "RuntimeError", "UnicodeError"]
OUTER = ["analyze", "load_config", "configure_logging", "log_decision"]
INNER = ["parse", "get_handler", "match_command", "match_redirect"]
MCP_CFG = 'allow-mcp mcp__ok__*\ndeny-mcp mcp__ok__bad "no"\nask-mcp mcp__q__* "sure?"\n'
DENY_CFG = 'deny zap "NOZAP"\nallow okcmd\n'


def build_cases(sc: H.Scratch, tier: str, rng: random.Random):
    wd = sc.proj(None)
    cases = []
    add = cases.append
    mk = lambda v, **kw: H.Case(g.dumps(v), **kw)  # noqa: E731

    # 1. every shape x field x JSON type, with an allow-class command, no flags
    cases.extend(g.type_grid(wd))
    # ... the same grid under an explicit flag of ANOTHER host for a slice of it
    for i, c in enumerate(list(g.type_grid(wd, "pwd"))):
        if i % (7 if tier == "quick" else 2) == 0:
            c.flags = (("--claude",), ("--gemini",), ("--cursor",))[i % 3]
            c.label += ":flag" + c.flags[0]
            add(c)

    # 2. top level is not an object; nesting 10 .. 100000
    for v in [None, True, False, 0, 5, 1.5, "", "command", "x command y", "tool_name command", [], ["command"],
              ["command", "tool_name"], [1, 2], [{"command": "ls"}]]:
        add(mk(v, label="top:" + json.dumps(v)[:20]))
        add(mk(v, label="top:flag:" + json.dumps(v)[:20], flags=("--cursor",)))
    for n in (10, 100, 500, 5000, 100000):
        for kind in ("arr", "obj"):
            add(H.Case(g.nest(n, kind), label=f"nest:{kind}:{n}"))
            add(H.Case(b'{"tool_name":"Bash","tool_input":{"command":' + g.nest(n, kind) + b"}}", label=f"nest-in-command:{kind}:{n}"))
        add(H.Case(b'{"tool_name":"Bash","cwd":' + g.nest(n, "arr") + b',"tool_input":{"command":"ls"}}', label=f"nest-in-cwd:{n}"))

    # 3. malformed bytes
    good = g.dumps(g.base_input("claude", "ls", wd))
    mal = [b"", b" ", b"{", b"}", b"{}", b"[]", b"nul", good + b" x", good + good, good[:-1], b"\xef\xbb\xbf" + good,
           b'{"tool_name":"Bash","tool_input":{"command":"rm x"},"tool_input":{"command":"ls"}}',
           b'{"tool_name":"Bash","tool_name":"mcp__a","tool_input":{"command":"ls"}}',
           b'{"tool_name":"Bash","tool_input":{"command":"ls"},"cwd":NaN}',
           b'{"tool_name":"Bash","tool_input":{"command":"ls"},"cwd":Infinity}',
           b'{"tool_name":"Bash","tool_input":{"command":"ls"},"x":1e999}',
           b'{"tool_name":"Bash","tool_input":{"command":"ls \xff"}}', b"\xff\xfe" + good, good.replace(b"Bash", b"Ba\xc0sh"),
           b'{"tool_name":"Bash","tool_input":{"command":"ls \\ud800"}}',
           b'{"tool_name":"Bash","tool_input":{"command":"\\udc00\\ud800"}}',
           b'{"tool_name":"Bash\\ud800","tool_input":{"command":"ls"}}',
           b'{"tool_name":"mcp__\\ud800","tool_input":{}}',
           b'{"tool_name":"Bash","cwd":"/tmp/\\ud800","tool_input":{"command":"ls"}}',
           b'{"tool_name":"Bash","tool_input":{"command":"ls \\u0000 x"}}',
           b'{"tool_name":"Bash","cwd":"/tmp/a\\u0000b","tool_input":{"command":"ls"}}',
           b'{"tool_name":"Bash\\u0000","tool_input":{"command":"ls"}}',
           b'{"command":"ls","cwd":"\\u0000"}', b'{"command":"ls\\u0000","cwd":"' + wd.encode() + b'"}',
           b'{"tool_name":"Bash","hook_event_name":"\\ud800","tool_input":{"command":"ls"}}',
           b'{"tool_name":"Bash","permission_mode":"\\ud800","tool_input":{"command":"ls"}}',
           b" " * 200000 + good, good.replace(b"{", b"{" + b" " * 100000, 1)]
    for i, b in enumerate(mal):
        add(H.Case(b, label=f"malformed:{i}"))
        if b"\xff" in b or b"\xc0" in b or b"\\ud" in b:
            add(H.Case(b, label=f"malformed:{i}:strict", io="strict"))
    for i in range(12 if tier == "quick" else 150):
        k = rng.randrange(1, len(good))
        add(H.Case(good[:k], label="truncated"))
        add(H.Case(bytes(rng.randrange(256) for _ in range(rng.randrange(1, 60))), label="random-bytes"))
        b = bytearray(good)
        for _ in range(rng.randrange(1, 4)):
            b[rng.randrange(len(b))] = rng.randrange(256)
        add(H.Case(bytes(b), label="bit-flips"))

    # 4. sizes 10 B .. 500 kB; command nesting 10 .. 100000
    sizes = [10, 100, 1000, 10000, 100000, 500000]
    for n in sizes:
        for shape in ("claude", "cursor"):
            add(mk(g.base_input(shape, ("echo " + "a " * n)[:n], wd), label=f"size:words:{n}"))
        add(mk(g.base_input("claude", ("ls | " * n)[: max(n - 4, 0)] + "ls", wd), label=f"size:pipeline:{n}"))
        add(mk(g.base_input("gemini", "x" * n, wd), label=f"size:oneword:{n}"))
        add(mk(g.base_input("claude", "echo '" + "q" * n, wd), label=f"size:unterminated:{n}"))
        add(mk(g.base_input("claude", "ls", wd + "/" + "d" * n), label=f"size:cwd:{n}"))
        add(mk({"tool_name": "mcp__" + "t" * n, "tool_input": {}}, label=f"size:mcp-name:{n}"))
    for n in (10, 100, 1000, 10000, 100000):
        add(mk(g.base_input("claude", "(" * n + "ls" + ")" * n, wd), label=f"cmdnest:subshell:{n}"))
        add(mk(g.base_input("cursor", "echo " + "$(" * n + "ls" + ")" * n, wd), label=f"cmdnest:cmdsub:{n}"))
        add(mk(g.base_input("gemini", "{ " * n + "ls" + "; }" * n, wd), label=f"cmdnest:brace:{n}"))
        add(mk(g.base_input("claude", "if true; then " * n + "ls" + "; fi" * n, wd), label=f"cmdnest:if:{n}"))

    # 5. cwd: unusable in every way
    for cwdv in [wd, wd + "/sub", wd + "/nonexistent/deeper", ".", "sub", "..", "", "/", "/proc/self/fd/99999", "~", "relative/none",
                 "/dev/null/x", wd + "/../../.."]:
        for shape in ("claude", "cursor"):
            add(mk(g.base_input(shape, "ls", cwdv), label=f"cwd:{cwdv[-20:]}"))
    for shape in g.SHAPES:
        d = g.base_input(shape, "ls", wd)
        d.pop("cwd")
        add(mk(d, label="cwd:gone", cwd_gone=True))
        add(mk(g.base_input(shape, "ls", wd), label="cwd:gone-but-given", cwd_gone=True))
        add(mk(g.base_input(shape, "ls", "."), label="cwd:gone-relative", cwd_gone=True))

    # 6. internal failures, injected at every function main() / analyze() calls
    cmds = {"claude": "ls > out.txt", "gemini": "git status", "cursor": "ls"}
    for tgt in OUTER + INNER:
        for ex in EXCS:
            for shape in (g.SHAPES if tier == "thorough" else [g.SHAPES[(len(cases)) % 3]]):
                add(mk(g.base_input(shape, cmds[shape], wd), label=f"fault:{tgt}", fault=(tgt, ex)))
                if tier == "thorough":
                    add(mk(g.base_input(shape, "git status | cat > o.txt", wd), label=f"fault:{tgt}", fault=(tgt, ex), user_cfg=DENY_CFG))
    for ex in EXCS + ["ConfigError"]:
        add(mk(g.base_input("claude", "ls", wd), label="fault:load_config", fault=("load_config", ex)))
        add(mk(g.base_input("claude", "ls", wd, permission_mode="bypassPermissions"), label="fault+bypass", fault=("log_decision", ex)))
        add(mk(g.base_input("claude", "ls", wd, permission_mode="dontAsk"), label="fault+bypass", fault=("analyze", ex)))
        add(mk({"tool_name": "mcp__ok__x", "tool_input": {}}, label="fault:mcp", fault=("match_mcp", ex), user_cfg=MCP_CFG))
        add(mk({"tool_name": "mcp__ok__x", "tool_input": {}}, label="fault:mcp", fault=("log_decision", ex), user_cfg=MCP_CFG))
        add(mk({"tool_name": "mcp__ok__x", "tool_input": {}}, label="fault:mcp-unrelated", fault=("analyze", ex), user_cfg=MCP_CFG))
    add(mk(g.base_input("claude", "ls", wd), label="config-error", env_cfg="/proc/self/mem"))
    add(mk(g.base_input("cursor", "ls", wd), label="config-error", env_cfg="/proc/self/mem"))
    add(mk(g.base_input("gemini", "ls", wd, permission_mode="bypassPermissions"), label="config-error+bypass", env_cfg="/proc/self/mem"))
    add(mk(g.base_input("claude", "ls", wd), label="config-not-utf8", env_cfg=sc.file(b"allow \xff\xfe\n")))
    add(mk(g.base_input("claude", "ls", wd), label="config-is-dir", env_cfg=wd))

    # 6b. random structured stream: random objects over the routing keys, random value types and plausible values
    plausible = {"tool_name": ["Bash", "shell", "run_shell", "run_shell_command", "execute_shell", "mcp__ok__x", "mcp__q__y", "Read", "bash", ""],
                 "command": ["ls", "rm x", "git status", "echo $(", "", "zap it"], "cwd": [wd, wd + "/sub", ".", "", "/nonexistent"],
                 "hook_event_name": ["PreToolUse", "BeforeTool", "beforeShellExecution", "posttooluse", ""],
                 "permission_mode": ["default", "bypassPermissions", "dontAsk", "plan"]}
    def rnd_value(key):
        if rng.random() < 0.6 and key in plausible:
            return rng.choice(plausible[key])
        return rng.choice(g.TYPES[1:])[1]
    for _ in range(150 if tier == "quick" else 3000):
        d = {}
        for key in ("tool_name", "command", "cwd", "hook_event_name", "permission_mode"):
            if rng.random() < 0.6:
                d[key] = rnd_value(key)
        if rng.random() < 0.7:
            ti = {}
            if rng.random() < 0.8:
                ti["command"] = rnd_value("command")
            if rng.random() < 0.2:
                ti["cwd"] = rnd_value("cwd")
            d["tool_input"] = ti if rng.random() < 0.85 else rng.choice(g.TYPES[1:])[1]
        flags = rng.choice([(), (), (), ("--claude",), ("--gemini",), ("--cursor",)])
        add(H.Case(g.dumps(d), label="random-structured", flags=flags, user_cfg=rng.choice([None, MCP_CFG, DENY_CFG])))

    # 7. the legitimate allows, and denies
    for pm in ("bypassPermissions", "dontAsk", "default", "plan", "acceptEdits", "BYPASSPERMISSIONS", ["bypassPermissions"], {"dontAsk": 1}, None, 1):
        for shape in g.SHAPES:
            add(mk(g.base_input(shape, "rm -rf x", wd, permission_mode=pm), label="bypass"))
        add(mk({"tool_name": "mcp__z__t", "tool_input": {}, "permission_mode": pm}, label="bypass:mcp"))
        add(mk({"tool_name": "Read", "tool_input": {}, "permission_mode": pm}, label="bypass:other-tool"))
    for tn in ("mcp__ok__x", "mcp__ok__bad", "mcp__q__y", "mcp__none", "mcp__", "mcp_", "Mcp__ok__x", "Read", "Write", "Task", "bash", "BASH", ""):
        add(mk({"tool_name": tn, "tool_input": {"command": "ls"}}, label="tools", user_cfg=MCP_CFG))
    for cmd in ("ls", "echo hi", "git status", "rm x", "git push", "frobnicate a", "zap it", "okcmd", "echo $(", "", "   ", "ls; zap 1"):
        for shape in g.SHAPES:
            add(mk(g.base_input(shape, cmd, wd), label="verdict-classes", user_cfg=DENY_CFG))
    return cases


# ---------------------------------------------------------------- the oracle
def required_calls(kind):
    return {"bypass": {"load_config", "configure_logging", "log_decision"},
            "analysis": {"load_config", "configure_logging", "log_decision", "analyze"},
            "mcp": {"load_config", "configure_logging", "log_decision", "match_mcp"}}[kind]


def allow_origin(sc, c: H.Case, value, reason):
    """Model-free: find a legitimate origin of an allow answer, or None."""
    from dippy.core import analyzer as an

    if not isinstance(value, dict):
        return None
    tn = value.get("tool_name")
    routed = "tool_name" not in value or (isinstance(tn, str) and (tn.startswith("mcp__") or tn in H.SHELL_TOOLS))
    pm = value.get("permission_mode")
    if isinstance(pm, str) and pm in H.BYPASS and routed and reason == pm:
        return "bypass"
    ti = value.get("tool_input") if isinstance(value.get("tool_input"), dict) else {}
    cwds = [x for x in (value.get("cwd"), ti.get("cwd")) if isinstance(x, str) and x] + [sc.proj(c.proj_cfg)]
    if isinstance(tn, str) and tn.startswith("mcp__"):   # tool_name present: the tool path, whatever the mode
        for cwd in cwds:
            try:
                cfg = H.real_load_config(sc, c, cwd)
            except Exception:  # noqa: BLE001
                continue
            last = None
            for r in cfg.mcp_rules:
                if fnmatch.fnmatch(tn, r.pattern):
                    last = r
            if last is not None and last.decision == "allow":
                return "mcp"
        return None
    for cmd in (value.get("command"), ti.get("command")):
        if not isinstance(cmd, str):
            continue
        for cwd in cwds:
            undo = None
            try:
                if c.fault and c.fault[0] in INNER:
                    from . import hook_fault
                    undo = hook_fault.install(*c.fault)
                cfg = H.real_load_config(sc, c, cwd)
                d = an.analyze(cmd, cfg, Path(cwd).resolve())
                if d.action == "allow" and d.reason == reason:
                    return "analysis"
            except Exception:  # noqa: BLE001
                pass
            finally:
                if undo:
                    undo()
    return None


def judge(sc, c: H.Case, out: core.Outcome):
    """The implementation-level oracle on one finished run."""
    def bad(what, sig):
        out.violations.append({"kind": "protocol", "what": what, **H.describe(c, sc), "signature_text": f"{sig} | {c.label}"})

    kind, value = H.read_stdin(c)
    items = H.parse_stdout(c.out)
    if c.rc != 0:
        return bad(f"exit status {c.rc}", "exit-status")
    if H.has_traceback(c):
        return bad("traceback on stderr", "traceback")
    if len(items) != 1 or items[0][0] != "J" or not isinstance(items[0][1], dict):
        return bad(f"stdout is not exactly one JSON object: {c.out[:200]!r}", "not-one-object")
    obj = items[0][1]
    dec = H.any_decision(obj)
    if obj != {} and (dec is None or dec[1] == "?"):
        return bad(f"stdout object is neither {{}} nor a decision envelope: {obj}", "unknown-object")
    if dec is None:
        out.count("answer", "{}")
        return
    m, verdict, reason = dec
    out.count("answer", verdict)
    unreadable = kind != "ok" or not isinstance(value, dict)
    if unreadable and verdict != "ask":
        return bad(f"{verdict} on unreadable / non-object stdin", "decision-on-unreadable")
    if verdict == "allow":
        origin = allow_origin(sc, c, value, reason)
        if origin is None:
            return bad(f"allow ({reason!r}) without a legitimate origin", "allow-without-origin")
        if c.fault and c.fault[0] in required_calls(origin):
            return bad(f"allow although {c.fault[0]} raised {c.fault[1]}", "allow-after-failure")
        out.count("allow_origin", origin)
    if verdict == "deny":
        # load_config / configure_logging / log_decision precede every deny; analyze / match_mcp only on their own route: there a
        # deny must be the fault-free twin's own (the function was not called at all)
        twin = getattr(c, "twin", None)
        if c.fault and (c.fault[0] in ("load_config", "configure_logging", "log_decision")
                        or (c.fault[0] in ("analyze", "match_mcp") and (twin is None or twin.out != c.out))):
            return bad(f"deny although {c.fault[0]} raised {c.fault[1]}", "deny-after-failure")
        cfg_text = (c.user_cfg or "") + (c.proj_cfg or "")
        if "deny" not in cfg_text:
            return bad("deny without any deny rule in the configuration", "deny-without-rule")


def trace_twin_allows(sc, out, twins, limit=700):
    """Every allow the placement sweep saw for a decoy-free payload has a legitimate origin (the decoys themselves are
    held to their twins' answers byte for byte, so no allow can come from anywhere else)."""
    seen = set()
    for (text, flags, envk), stdout in twins.items():
        if text in seen or len(seen) >= limit:
            continue
        items = H.parse_stdout(stdout.encode("utf-8", "surrogateescape"))
        dec = H.any_decision(items[0][1]) if len(items) == 1 and items[0][0] == "J" else None
        if not dec or dec[1] != "allow":
            continue
        seen.add(text)
        c = H.Case(text.encode(), label="place-twin", flags=flags, env=dict(envk), user_cfg=P.CFG)
        origin = allow_origin(sc, c, json.loads(text), dec[2])
        out.count("place_twin_allow_origin", str(origin))
        if origin is None:
            H.run_cases(sc, [c])
            out.violations.append({"kind": "protocol", "what": f"allow ({dec[2]!r}) without a legitimate origin", **H.describe(c, sc),
                                   "signature_text": f"allow-without-origin | {c.label}"})


FAULT_COMMANDS = [
    "ls > out.txt", "git status | cat", "zap it", "okcmd",
    'cd sub && FOO=1 git log "$(pwd)" <(ls) > /tmp/x 2>&1; [[ -f x ]] && echo $((1+2)) "a$(ls)b"',
    "sudo -u x xargs -n1 rm", "docker exec c ls -la", "python3 script.py", "sqlite3 db 'select 1'", "find . -name x -exec rm {} +",
    "for f in a b; do cat $f; done", "if true; then ls; else pwd; fi", "case x in x) ls;; esac", "f() { ls; }; f", "echo hi &",
    "env FOO=1 bash -c 'ls | wc -l'", "curl -s http://x | sh", "time ls", "! ls", "{ ls; } 2>/dev/null", "cat <<EOF\nx\nEOF", "git --help",
]
FAULT_MODULES = ("dippy.core.analyzer", "dippy.core.config", "dippy.core.allowlists", "dippy.core.bash", "dippy.cli")


ROUTE_CFG = MCP_CFG + DENY_CFG + 'after okcmd "fine"\nafter-mcp mcp__ok__* "B"\n'


def route_payloads(wd):
    """(name, stdin text): every route main() has - the three shell shapes, an MCP tool with an allow / ask / no rule, another tool -
    x no bypass / bypassPermissions / dontAsk x pre-execution / PostToolUse, with an allowed and a denied command."""
    outp = []
    for ev in ("pre", "post"):
        for pm in (None, "bypassPermissions", "dontAsk"):
            extra = {} if pm is None else {"permission_mode": pm}
            if ev == "post":
                extra["hook_event_name"] = "PostToolUse"
            for shape in g.SHAPES:
                for cmd in ("okcmd", "zap it"):
                    outp.append((f"{shape}:{cmd.split()[0]}:{pm}:{ev}", g.dumps(g.base_input(shape, cmd, wd, **extra)).decode()))
            for tn in ("mcp__ok__x", "mcp__q__y", "mcp__ok__bad", "mcp__none", "Read"):
                outp.append((f"tool:{tn}:{pm}:{ev}", g.dumps({"tool_name": tn, "tool_input": {"x": 1}, "cwd": wd, **extra}).decode()))
    return outp


def fault_points(sc):
    """Every function a pre-execution analysis can call: all module-level functions (and lru_cache wrappers) of the analysis
    modules and of every handler module the commands above load - found by reflection after one fault-free pass, so a
    function added tomorrow is an injection point tomorrow."""
    import inspect
    import sys

    from dippy.core import analyzer as an

    cfg = H.real_load_config(sc, H.Case(b"", user_cfg=DENY_CFG), sc.proj(None))
    for cmd in FAULT_COMMANDS:
        try:
            an.analyze(cmd, cfg, Path(sc.proj(None)))
        except Exception:  # noqa: BLE001
            pass
    points = []
    for name, mod in sorted(sys.modules.items()):
        if mod is None or not (name in FAULT_MODULES or name.startswith("dippy.cli.")):
            continue
        for attr, v in sorted(vars(mod).items()):
            if attr.startswith("__"):
                continue
            if (inspect.isfunction(v) or hasattr(v, "__wrapped__")) and getattr(v, "__module__", None) == name:
                points.append(f"{name}:{attr}")
    return points


def fault_sweep(sc, out, tier):
    """A function of the analysis made to raise, for EVERY function x commands that reach different parts x exception classes:
    the answer is the fault-free answer (function not reached), {} or an ask - nothing else, in particular never an allow
    or a deny that was not there.  Run in-process (harness/hook_sweep_worker.py installs the fault for one job); anything
    else than unchanged / {} is re-run for real through harness/hook_fault.py."""
    import os
    import subprocess
    import time

    t0 = time.time()
    wd = sc.proj(None)
    points = fault_points(sc)
    excs = EXCS if tier == "thorough" else ["ValueError", "RecursionError"]
    texts = [g.dumps(g.base_input(g.SHAPES[i % 3], cmd, wd)).decode() for i, cmd in enumerate(FAULT_COMMANDS)]
    jobs = [{"i": i, "stdin": t} for i, t in enumerate(texts)]
    meta = {}
    for pt in points:
        for ti, t in enumerate(texts):
            for ex in (excs if tier == "thorough" else [excs[(ti + len(pt)) % len(excs)]]):
                meta[len(jobs)] = (pt, ex, ti)
                jobs.append({"i": len(jobs), "stdin": t, "fault": [pt, ex]})
    # the calls main() itself makes (named targets of hook_fault.py) x EVERY route x bypass / none x pre / post
    routes = route_payloads(wd)
    r0 = len(jobs)
    jobs += [{"i": r0 + i, "stdin": t} for i, (_, t) in enumerate(routes)]
    rmeta = {}
    for tgt in OUTER + ["match_mcp", "match_after", "match_after_mcp", "tokenize"]:
        for ri, (rname, t) in enumerate(routes):
            for ex in (excs if tier == "thorough" else [excs[(ri + len(tgt)) % len(excs)]]):
                rmeta[len(jobs)] = (tgt, ex, r0 + ri, rname)
                jobs.append({"i": len(jobs), "stdin": t, "fault": [tgt, ex]})
    env = {"HOME": sc.home(ROUTE_CFG), "PATH": "/usr/bin:/bin", "PYTHONHASHSEED": "0"}
    p = subprocess.run([H.PY, os.path.join(H.HERE, "hook_sweep_worker.py"), lib.REPO], input="".join(json.dumps(j) + "\n" for j in jobs).encode(),
                       capture_output=True, cwd=wd, env=env, timeout=1500)
    res = {}
    for line in p.stdout.decode("utf-8", "replace").split("\n"):
        if line.startswith("{"):
            r = json.loads(line)
            res[r["i"]] = (r["out"], r["exc"])
    if len(res) != len(jobs):
        out.disagreements.append({"correspondence": "in-process sweep (hook_sweep_worker.py) <-> bin/dippy-hook process",
                                  "detail": f"fault sweep: {len(res)} of {len(jobs)} jobs answered; rc={p.returncode} {p.stderr[-300:].decode('utf-8', 'replace')}"})
        return []
    reached = set()
    suspects = []
    asks = []
    for i, (pt, ex, ti) in meta.items():
        got, base = res[i], res[ti]
        out.evaluations += 1
        if got == base:
            out.count("fault_sweep", "unchanged")
            continue
        reached.add(pt)
        if got == ("{}\n", None):
            out.count("fault_sweep", "{}")
            continue
        its = H.parse_stdout(got[0].encode("utf-8", "surrogateescape"))
        dec = H.any_decision(its[0][1]) if len(its) == 1 and its[0][0] == "J" else None
        if dec and dec[1] == "ask" and got[1] is None:
            out.count("fault_sweep", "ask")      # handled inside (parse_config skips the line, ...): fail-closed
            asks.append((pt, ex, ti))
            continue
        out.count("fault_sweep", "other")
        suspects.append((pt, ex, ti, got, base))
    out.distinct.update(lib.sha(["fault", pt, ex, ti]) for pt, ex, ti in meta.values())
    # routes: a failing load_config / configure_logging / log_decision leaves NO decision but ask on a pre-execution event (every
    # allow and every deny path calls all three first); any target: unchanged, {}, ask, or silence on PostToolUse
    rcases = []
    for i, (tgt, ex, bi, rname) in rmeta.items():
        got, base = res[i], res[bi]
        out.evaluations += 1
        its = H.parse_stdout(got[0].encode("utf-8", "surrogateescape"))
        dec = H.any_decision(its[0][1]) if len(its) == 1 and its[0][0] == "J" else None
        strict = tgt in ("load_config", "configure_logging", "log_decision")
        ok = got[1] is None and (got == base or got[0] == "{}\n" or (dec and dec[1] == "ask") or (got[0] == "" and ":post" in rname))
        if strict and dec and dec[1] in ("allow", "deny"):
            ok = False
        out.count("fault_routes", "ok" if ok else "suspect")
        # real processes: every suspect, and a sample of the pre-execution routes (PostToolUse output is C19's to judge)
        if not ok or (i % 5 == 0 and ":post" not in rname and len(rcases) < (30 if tier == "quick" else 200)):
            c = H.Case(jobs[i]["stdin"].encode(), label="fault:route" + ("" if ok else "-suspect") + ":" + rname, fault=(tgt, ex), user_cfg=ROUTE_CFG)
            c.strict = strict
            rcases.append(c)
    out.distinct.update(lib.sha(["fault-route", t, ex, r]) for t, ex, _, r in rmeta.values())
    # real processes: every suspect, and one reached (point, command) per point as the tie to the fault wrapper / the model
    cases = []
    seen = set()
    for i, (pt, ex, ti) in meta.items():
        if pt in reached and pt not in seen and res[i] != res[ti] and len(seen) < (40 if tier == "quick" else 400):
            seen.add(pt)
            cases.append(H.Case(texts[ti].encode(), label="fault:point", fault=(pt, ex), user_cfg=ROUTE_CFG))
    for pt, ex, ti, got, base in suspects[:20]:
        cases.append(H.Case(texts[ti].encode(), label="fault:point-suspect", fault=(pt, ex), user_cfg=ROUTE_CFG))
    for pt, ex, ti in asks[:6]:
        cases.append(H.Case(texts[ti].encode(), label="fault:point-ask", fault=(pt, ex), user_cfg=ROUTE_CFG))
    cases += rcases
    out.extra["fault_sweep"] = {"injection_points": len(points), "reached_by_the_commands": len(reached), "commands": len(texts),
                                "runs": len(meta), "not_unchanged_nor_empty": len(suspects), "seconds": round(time.time() - t0, 1)}
    return cases


def fault_effect(sc, c, out):
    """With a function made to raise, the answer is the fault-free one, or {}, or an ask - nothing else."""
    bad, good = H.parse_stdout(c.out), H.parse_stdout(c.twin.out)
    if bad == good:
        return "unchanged"
    if bad == [("J", {})]:
        return "{}"
    d = H.any_decision(bad[0][1]) if len(bad) == 1 and bad[0][0] == "J" else None
    if d is not None and d[1] == "ask" and (c.fault[1] == "ConfigError"):
        return "config-error ask"
    if d is not None and d[1] == "ask":
        # some callers handle the failure of what they call themselves - parse_config skips the configuration line,
        # analyze() (since 89536cc) reports a failure of the parser as a parse error - and the answer is an ask:
        # fail-closed, as the property demands (an ask is never more lenient than the fault-free answer or {})
        return "ask"
    out.violations.append({"kind": "protocol", "what": f"{c.fault[0]} raising {c.fault[1]} turned the answer {good} into {bad}",
                           **H.describe(c, sc), "without_fault": c.twin.out[:300].decode("utf-8", "replace"),
                           "signature_text": f"fault-not-monotone | {c.label}"})
    return "other"


def run(tier, seed, replay=None):
    lib.use_repo()
    rng = random.Random(seed)
    out = core.Outcome("C06")
    sc = H.Scratch()
    hm = None
    try:
        placed = None
        if replay and replay.get("twin_case"):
            placed = P.replay_pair(sc, out, replay, "protocol")
            cases = []
        elif replay:
            cases = [H.replay_case(sc, replay)]
        else:
            cases = build_cases(sc, tier, rng)
        # the fault-free twin of every fault case (C06_failures_monotone, model-free restatement)
        twins = {}
        for c in cases:
            if c.fault:
                k = lib.sha([c.data.decode("latin-1"), list(c.flags), c.user_cfg, c.proj_cfg, c.env_cfg])
                if k not in twins:
                    twins[k] = H.Case(c.data, label="twin", flags=c.flags, env=c.env, user_cfg=c.user_cfg, proj_cfg=c.proj_cfg, env_cfg=c.env_cfg)
                c.twin = twins[k]
        H.run_cases(sc, cases + list(twins.values()))
        hm = H.HookModel(sc)
        xcheck = []
        if placed is not None:
            cases = [placed]
        elif not replay:
            # WHERE a host-declared field is read from: exhaustive in-process sweep + covering sample of real processes
            place_cases, place_twins = P.run_placement(sc, out, tier, "protocol", hm=hm, events=("pre",), sample_limit=70)
            cases = cases + place_cases
            trace_twin_allows(sc, out, place_twins)
            # near-miss spellings of every literal a host field is compared with: answered like the neutral value
            value_cases, _ = P.run_values(sc, out, tier, "protocol", hm=hm, sample_limit=24)
            cases = cases + value_cases
            # internal failures "at any point of analysis": every function, found by reflection
            fcases = fault_sweep(sc, out, tier)
            ftwins = {}
            for c in fcases:
                k = c.data
                if k not in ftwins:
                    ftwins[k] = H.Case(c.data, label="twin", user_cfg=c.user_cfg)
                c.twin = ftwins[k]
            H.run_cases(sc, fcases + list(ftwins.values()))
            cases = cases + fcases
        for idx, c in enumerate(cases):
            if c.fault:
                out.count("fault_effect", fault_effect(sc, c, out))
            plain = c.label.startswith("verdict-classes") or c.label == "tools"
            out.case(c.key(), nontrivial=not plain)
            out.count("stream", c.label.split(":")[0])
            if c.fault:
                out.count("fault_target", c.fault[0])
                out.count("fault_class", c.fault[1])
            out.count("stdin_bytes", len(str(len(c.data))))
            if idx % 97 == 0:
                out.sample({"label": c.label, "stdin": c.data[:160].decode("utf-8", "backslashreplace"), "flags": list(c.flags),
                            "fault": c.fault, "stdout": c.out[:160].decode("utf-8", "backslashreplace"), "exit": c.rc})
            judge(sc, c, out)
            # correspondence
            if c.fault and c.fault[0] in ("match_mcp", "match_after_mcp"):
                continue
            rec = len(xcheck) < 30 and idx % 41 == 0 and len(c.data) < 400
            try:
                items, rc, tb = hm.main(c, record=rec)
            except (lib.ModelError, RecursionError) as e:
                out.disagreements.append({"correspondence": "Hook.main <-> bin/dippy-hook", "model": f"error {e}", **H.describe(c, sc)})
                hm.restart()
                continue
            if rec and hm.model.transcript is not None and len(hm.model.transcript) < 40:
                xcheck.append((hm.model.last_request, list(hm.model.transcript), hm.last_raw))
            real = H.canon_items(H.parse_stdout(c.out))
            if not H.same_items(items, H.parse_stdout(c.out)) or rc != c.rc or tb != H.has_traceback(c):
                out.disagreements.append({"correspondence": "Hook.main <-> bin/dippy-hook",
                                          "model": {"items": str(H.canon_items(items)), "exit": rc, "traceback": tb},
                                          "impl": {"items": str(real), "exit": c.rc, "traceback": H.has_traceback(c)},
                                          **H.describe(c, sc)})
        observe_environment(sc, out)
    finally:
        if hm:
            hm.close()
        sc.close()
    xcheck = xcheck + getattr(out, "xview", [])[:8]
    n, mism = core.coq_crosscheck("C06", xcheck)
    out.extra["coq_vm_crosscheck"] = {"cases": n, "mismatches": len(mism)}
    if mism:
        out.disagreements.append({"correspondence": "extracted OCaml model <-> vm_compute in Coq", "detail": mism[:5]})
    out.extra["rule"] = (
        "real subprocess runs of bin/dippy-hook. systematic: 3 input shapes x 8 fields x 13 JSON values (missing, null, bools, "
        "numbers, strings, arrays, objects), a slice again under a foreign --flag; non-object top levels; nesting 10..100000 at top "
        "level / in command / in cwd; malformed bytes (truncations, duplicate keys, trailing garbage, NaN, BOM, invalid UTF-8 with "
        "lenient and strict stdin decoding, lone surrogates and NUL in every str field, random bytes, byte flips); commands 10 B..500 kB "
        "(words, pipeline, one word, unterminated quote), cwd and MCP names of those sizes, command nesting 10..100000 (subshell, $(), "
        "brace group, if); unusable cwd (missing, relative, deleted working directory); 8 injection points x 7 exception classes "
        "(+ ConfigError) on shell, bypass and MCP paths; random objects over the routing keys with random types / plausible values / flags; unreadable / non-UTF-8 / directory config; bypass modes of every type on "
        "shell, MCP and other tools; all verdict classes; field placement (harness/hookplace.py): every key the hook looks up x decoy values "
        "(bypass modes, PostToolUse, tool names, allowed command, allowing directory) x place (tool_input, deeper in tool_input, tool_response, "
        "other object, array, nested copy of the payload, near-miss spellings at the top level and in tool_input, duplicate member in the text) "
        "x top-level state (own / absent / null / empty) x host (claude, gemini, cursor, mcp, other tool, claude with top-level bypass) x "
        "forced mode, run in-process (differences confirmed by real processes) plus a pairwise-covering sample as real processes; value families: ~35 near-miss spellings of each literal of permission_mode / hook_event_name / "
        "tool_name x hosts x forced modes, same method. distinct = distinct (stdin, flags, env, configs, fault, io); non-trivial = "
        "everything except the plain well-formed verdict-class and tool-name cases")
    return out


def observe_environment(sc, out):
    """Faults of the environment rather than of stdin (outside the property's quantifier): recorded, not judged."""
    import os
    import subprocess

    wd = sc.proj(None)
    data = g.dumps(g.base_input("claude", "ls", wd))
    obs = {}
    home = sc.home("# env\n")
    os.makedirs(os.path.join(home, ".claude"), exist_ok=True)
    log = os.path.join(home, ".claude", "hook-approvals.log")
    if not os.path.lexists(log):
        os.symlink("/dev/full", log)
    env = {"HOME": home, "PATH": "/usr/bin:/bin"}
    cmd = [H.PY, os.path.join(lib.REPO, "bin", "dippy-hook")]
    p = subprocess.run(cmd, input=data, capture_output=True, cwd=wd, env=env)
    obs["legacy log on a full device"] = {"exit": p.returncode, "stdout_ok": H.parse_stdout(p.stdout)[:1] != [],
                                          "tracebacks_on_stderr": p.stderr.count(b"Traceback")}
    with open("/dev/full", "w") as full:
        p = subprocess.run(cmd, input=data, stdout=full, stderr=subprocess.PIPE, cwd=wd, env={"HOME": sc.home(None), "PATH": "/usr/bin:/bin"})
    obs["stdout on a full device"] = {"exit": p.returncode, "stderr": p.stderr[-120:].decode("utf-8", "replace")}
    p = subprocess.run(["/bin/sh", "-c", 'exec "$@" >&-', "sh", *cmd], input=data, stderr=subprocess.PIPE, cwd=wd,
                       env={"HOME": sc.home(None), "PATH": "/usr/bin:/bin"})
    obs["stdout closed"] = {"exit": p.returncode, "stderr": p.stderr[-120:].decode("utf-8", "replace")}
    out.extra["environment_observations"] = obs
