"""Function-level ties: every pure helper of core/analyzer.py that the walker model mirrors is compared with
its Gallina counterpart (entry `fn` of Entry/WalkerE.v, batched) on

  * ALL token sequences up to a length over a token alphabet taken from the function's own source (every
    literal it tests for, near-misses, one neutral token), and
  * a random stream of longer sequences over the same alphabet.

A program-level stream only reaches these functions through whatever words the program generator happens to
build; a change confined to one helper (a resumed search index, a forgotten spelling, a boundary) shows up
here on an input a few tokens long.  `run_ties(out, model, names, tier, rng)` is called by the property
checks that rest on the helper (C01: scanners/counters, C02: fd prefix, C04/C03: quote removal, C07:
assignment words).  It returns {helper: [inputs on which they differ]} so that the caller can look for a program on
which the PROPERTY fails (the difference alone is a broken correspondence, not yet a violation)."""
from __future__ import annotations

import itertools

BATCH = 1500


def _unary(x):
    return len(x)


def _bool(x):
    return x == "1"


def _ident(x):
    return x


TIES = {
    # name: (python attribute of dippy.core.analyzer, tokens, (quick exhaustive length, thorough length), n_random (quick, thorough), decode, encode-impl)
    "unclosed_arith": ("_has_unclosed_arith", ["$((", "))", ") )", "(", ")", "$(", "a", " ", "+", "$"], (6, 7), (3000, 60000), _bool, bool),
    "count_openers": ("_count_openers", ["$(", "`", "<(", ">(", "'", '"', "\\", "a", ")", "$((", " ", "$", "<", "("], (4, 5), (3000, 60000), _unary, int),
    "strip_quotes": ("_strip_quotes", ["'", '"', "\\", "$", "a", " ", "`", "\n", "!", "$'", '$"'], (5, 6), (3000, 60000), _ident, str),
    "is_assignment": ("_is_assignment_word", ["a", "_", "1", "[", "]", "+", "=", "-", "/", ".", "A", "é", " "], (5, 6), (3000, 60000), _bool, bool),
    "strip_fd_prefix": ("_strip_fd_prefix", [">", ">>", "<", "&", "|", "1", "2", "10", "{", "}", "v", "_", "-", "a"], (4, 5), (2000, 40000), _ident, str),
    "sets_execution_var": ("allowlists:sets_execution_var", ["PATH", "LD_PRELOAD", "IFS", "PATHX", "XPATH", "a", "_", "1", "=", "+", ":", "/bin", "/usr/bin", "/tmp", ".", "[", " ", "$PATH"],
                           (4, 5), (4000, 80000), _bool, lambda r: r is not None),
    "analyze_prelude": ("_analyze_prelude_probe", [" ", "\t", "\n", "\r", "\x0b", "\x0c", "\xa0", "\u2003", "\u0085", "\u2028", "\ufeff", "a", "ls", ";", "'", "\x00"],
                        (4, 5), (3000, 60000), _ident, None),
    "has_inert_opener": ("_has_inert_opener", ["$(", "`", "'", '"', "\\", "$", "(", "a", " ", ")"], (6, 7), (3000, 60000), _bool, bool),
    # _match_written_file given match_redirect's answer (first character: A allow, K ask, D deny, N no rule), then the target word
    "written_rule": ("_written_file_probe", ["$", "`", "*", "?", "[", "{", "a", "/", "..", "~", "]", "}", " ", "'", "\\", "é"], (3, 4), (2000, 40000), _ident, None),
    "plain_raw": ("_is_plain_raw", ["$(", ")", "(", "`", "#", " ", "\n", "'", '"', "\\", "a", ";", "${", "}"], (4, 5), (3000, 60000), _bool, bool),
}


def sequences(tokens, upto):
    for n in range(0, upto + 1):
        for tup in itertools.product(tokens, repeat=n):
            yield "".join(tup)


def run_ties(out, model, names, tier, rng, an=None):
    """compare model and implementation; disagreements are appended to out.disagreements"""
    if an is None:
        from dippy.core import analyzer as an  # noqa: F811
    thorough = tier == "thorough"
    diffs = {}
    for name in names:
        attr, tokens, lens, nrand, dec, conv = TIES[name]
        if attr == "_analyze_prelude_probe":
            # analyze() has no separate prelude function: observe what reaches the parser (a spy in place of parse)
            reached = []

            def spy(text):
                reached.append(text)
                return []

            def f(s, an=an, reached=reached, spy=spy):
                real = an.parse
                an.parse = spy
                try:
                    del reached[:]
                    an.analyze(s, None, None)
                finally:
                    an.parse = real
                return [reached[0]] if reached else []

            conv = lambda r: r  # noqa: E731
            dec = lambda m: m if isinstance(m, list) else m  # noqa: E731
        elif attr == "_written_file_probe":
            # _match_written_file(target, config, cwd) with match_redirect replaced by a constant answer
            class _M:
                def __init__(self, d):
                    self.decision, self.pattern, self.message = d, "p", None

            def f(s, an=an, _M=_M):
                real = an.match_redirect
                ans = {"A": "allow", "K": "ask", "D": "deny"}.get(s[:1])
                an.match_redirect = lambda t, c, d: _M(ans) if ans else None
                try:
                    r = an._match_written_file(s[1:], None, None)
                finally:
                    an.match_redirect = real
                return "N" if r is None else {"allow": "A", "ask": "K", "deny": "D"}[r.decision]

            if getattr(an, "_match_written_file", None) is None:
                f = None
            conv = lambda r: r  # noqa: E731
        elif ":" in attr:      # a helper of another module of dippy.core
            import importlib
            modname, attr = attr.split(":")
            f = getattr(importlib.import_module("dippy.core." + modname), attr, None)
        else:
            f = getattr(an, attr, None)
        if f is None:
            out.disagreements.append({"correspondence": f"Walker.{name} <-> analyzer.{attr}", "detail": "the implementation has no such function any more"})
            continue
        seen = set()
        inputs = []
        for s in sequences(tokens, lens[1] if thorough else lens[0]):
            if s not in seen:
                seen.add(s)
                inputs.append(s)
        n_ex = len(inputs)
        for _ in range(nrand[1] if thorough else nrand[0]):
            s = "".join(rng.choice(tokens) for _ in range(rng.randint(lens[0] + 1, lens[0] + 9)))
            if s not in seen:
                seen.add(s)
                inputs.append(s)
        if attr == "_written_file_probe":
            inputs = [p + s for s in inputs for p in "AKDN"]
        bad = 0
        for i in range(0, len(inputs), BATCH):
            chunk = inputs[i:i + BATCH]
            mv = model.call(["fn", name, chunk])
            if not isinstance(mv, list) or len(mv) != len(chunk):
                out.disagreements.append({"correspondence": f"Walker.{name} <-> analyzer.{attr}", "detail": f"model answered {str(mv)[:200]}"})
                break
            for s, m in zip(chunk, mv):
                try:
                    iv = conv(f(s))
                except Exception as e:  # the model is total; an exception of the helper is a difference
                    iv = f"exception {type(e).__name__}"
                if dec(m) != iv:
                    bad += 1
                    if len(diffs.setdefault(name, [])) < 400:
                        diffs[name].append(s)
                    if bad <= 3:
                        out.disagreements.append({"correspondence": f"Walker.{name} <-> analyzer.{attr}", "input": s, "model": dec(m), "impl": iv})
        out.evaluations += len(inputs)
        out.dist.setdefault("function_tie", {})[name] = len(inputs)
        out.extra.setdefault("function_ties", {})[name] = {"implementation": f"dippy.core.analyzer.{attr}", "alphabet": tokens, "exhaustive_up_to_tokens": lens[1] if thorough else lens[0],
                                                           "exhaustive_cases": n_ex, "random_cases": len(inputs) - n_ex, "differences": bad}
    return diffs
