"""Generators for C04/C13: wrapper invocations in every option spelling, quoting strings, token soups."""
from __future__ import annotations

import shlex
from dataclasses import dataclass, field

BIN = "@BIN@"  # replaced by the scratch stub directory at run time

# verdict atoms (classes are measured at run time, these labels are only documentation)
ATOMS = [
    ("ls", ["ls"]),
    ("echo hi", ["echo", "hi"]),
    ("git status", ["git", "status"]),
    ("rm x", ["rm", "x"]),
    ("git push", ["git", "push"]),
    ("frobnicate a", ["frobnicate", "a"]),
    ("zap", ["zap"]),
    ("okcmd", ["okcmd"]),
]
CORE = ["ls", "rm x", "git push", "zap"]
NESTED = [
    ("env rm x", ["env", "rm", "x"]),
    ("nice rm x", ["nice", "rm", "x"]),
    ("timeout 5 git push", ["timeout", "5", "git", "push"]),
    ("sh -c 'rm x'", ["sh", "-c", "rm x"]),
    ("command ls", ["command", "ls"]),
    ("env zap", ["env", "zap"]),
    ("nohup env ls", ["nohup", "env", "ls"]),
    ("xargs rm", ["xargs", "rm"]),
]
TRAILING = [[], ["-h"], ["--help"], ["--version"], ["help"]]
CONFIG_TEXT = 'deny zap "NOZAP"\nallow okcmd\n'


def q(words):
    return " ".join(shlex.quote(w) for w in words)


@dataclass
class Case:
    text: str
    words: list  # the argv of the outermost wrapper command as bash passes it (for the spec)
    wrapper: str
    site: str  # call-site label of the spelling
    inner: str
    truth: str = "bash"  # bash | docker | spec | none
    stdin: bytes = b"ITEM\n"
    validate: bool = True  # compare the spec with the real tool on this case
    plain_inner: bool = True
    expect: list | None = None  # for shells: the argv lists the inner string stands for
    tags: dict = field(default_factory=dict)


@dataclass
class Opt:
    short: str | None
    long: str | None
    kind: str  # no | req | opt
    values: list = field(default_factory=list)


TOOLS = {
    "timeout": dict(
        opts=[Opt("k", "kill-after", "req", ["1"]), Opt("s", "signal", "req", ["KILL"]), Opt("v", "verbose", "no"),
              Opt(None, "foreground", "no"), Opt(None, "preserve-status", "no")],
        pre=[["5"], ["5s"], ["0.5"]]),
    "nice": dict(opts=[Opt("n", "adjustment", "req", ["5"])], pre=[[]], extra=[("legacy -N", ["-5"]), ("legacy --N", ["--5"])]),
    "nohup": dict(opts=[], pre=[[]]),
    "command": dict(opts=[Opt("p", None, "no")], pre=[[]]),
    "builtin": dict(opts=[], pre=[[]]),
    "env": dict(
        opts=[Opt("i", "ignore-environment", "no"), Opt("u", "unset", "req", ["X", "ls"]), Opt("C", "chdir", "req", ["."]),
              Opt("v", "debug", "no"), Opt(None, "block-signal", "opt", ["INT"]), Opt(None, "default-signal", "opt", ["PIPE"]),
              Opt(None, "ignore-signal", "opt", ["INT"]), Opt(None, "list-signal-handling", "no")],
        pre=[[], ["A=1"], ["A=1", "B=x y"]], extra=[("lone -", ["-"])]),
    "xargs": dict(
        opts=[Opt("0", "null", "no"), Opt("a", "arg-file", "req", ["in.txt"]), Opt("d", "delimiter", "req", [","]),
              Opt("E", None, "req", ["STOP", "ls"]), Opt("e", "eof", "opt", ["STOP"]), Opt("I", None, "req", ["{}", "ls"]),
              Opt("i", "replace", "opt", ["{}"]), Opt("L", None, "req", ["1"]), Opt("l", "max-lines", "opt", ["1"]),
              Opt("n", "max-args", "req", ["1"]), Opt("P", "max-procs", "req", ["1"]), Opt("r", "no-run-if-empty", "no"),
              Opt("s", "max-chars", "req", ["2000"]), Opt("t", "verbose", "no"), Opt("x", "exit", "no"),
              Opt(None, "process-slot-var", "req", ["V", "ls"])],
        pre=[[]]),
    "strace": dict(
        opts=[Opt("o", None, "req", ["out", "ls"]), Opt("f", None, "no"), Opt("E", None, "req", ["V=1", "ls"]),
              Opt("s", None, "req", ["10"]), Opt("P", None, "req", ["ls"])],
        pre=[[]]),
}


def min_abbrev(name, all_longs):
    """shortest unique proper prefix of a long option name, or None."""
    for n in range(1, len(name)):
        p = name[:n]
        if sum(1 for l in all_longs if l.startswith(p)) == 1:
            return p
    return None


def spellings(tool):
    """-> list of (label, words) : every option of the tool in every spelling its option syntax accepts."""
    t = TOOLS[tool]
    longs = [o.long for o in t["opts"] if o.long] + ["help", "version"]
    noarg_short = next((o.short for o in t["opts"] if o.kind == "no" and o.short), None)
    out = [("no option", [])]
    for o in t["opts"]:
        ab = min_abbrev(o.long, longs) if o.long else None
        name = f"-{o.short}" if o.short else f"--{o.long}"
        if o.kind == "no":
            if o.short:
                out.append((f"{name} short", [f"-{o.short}"]))
                if noarg_short and noarg_short != o.short:
                    out.append((f"{name} cluster", [f"-{noarg_short}{o.short}"]))
                out.append((f"{name} twice", [f"-{o.short}", f"-{o.short}"]))
            if o.long:
                out.append((f"--{o.long} long", [f"--{o.long}"]))
                if ab:
                    out.append((f"--{o.long} abbrev", [f"--{ab}"]))
        elif o.kind == "req":
            for v in o.values:
                vl = "" if v == o.values[0] else f" value={v}"
                if o.short:
                    out.append((f"-{o.short} separate{vl}", [f"-{o.short}", v]))
                    out.append((f"-{o.short} attached{vl}", [f"-{o.short}{v}"]))
                    if noarg_short:
                        out.append((f"-{o.short} cluster separate{vl}", [f"-{noarg_short}{o.short}", v]))
                        out.append((f"-{o.short} cluster attached{vl}", [f"-{noarg_short}{o.short}{v}"]))
                if o.long:
                    out.append((f"--{o.long} separate{vl}", [f"--{o.long}", v]))
                    out.append((f"--{o.long} =joined{vl}", [f"--{o.long}={v}"]))
                    if ab:
                        out.append((f"--{o.long} abbrev separate{vl}", [f"--{ab}", v]))
                        out.append((f"--{o.long} abbrev =joined{vl}", [f"--{ab}={v}"]))
        else:  # optional argument: only attached / =-joined
            v = o.values[0]
            if o.short:
                out.append((f"-{o.short} optarg absent", [f"-{o.short}"]))
                out.append((f"-{o.short} optarg attached", [f"-{o.short}{v}"]))
            if o.long:
                out.append((f"--{o.long} optarg absent", [f"--{o.long}"]))
                out.append((f"--{o.long} optarg =joined", [f"--{o.long}={v}"]))
                if ab:
                    out.append((f"--{o.long} abbrev optarg =joined", [f"--{ab}={v}"]))
    for label, words in t.get("extra", []):
        out.append((label, words))
    return out


def inner_pool(tier):
    atoms = [a for a in ATOMS]
    if tier == "quick":
        return [a for a in atoms if a[0] in CORE] + NESTED[:3], atoms + NESTED
    return atoms + NESTED, atoms + NESTED


def getopt_cases(tier):
    """timeout nice nohup command builtin env xargs strace: real-tool ground truth under bash."""
    small, full = inner_pool(tier)
    cases = []
    for tool in TOOLS:
        t = TOOLS[tool]
        for label, ow in spellings(tool):
            for dd in (False, True):
                pres = t["pre"] if (label == "no option" or tier == "thorough") else t["pre"][:1]
                for pre in pres:
                    inners = full if label == "no option" else small
                    for iname, iw in inners:
                        trails = TRAILING if (label == "no option" and iname in CORE) else [[]]
                        for tr in trails:
                            fix = []
                            if tool == "env" and any(w in ("-i", "-", "--ignore-environment") or (w.startswith("-") and not w.startswith("--") and "i" in w[1:] and "=" not in w) or w.startswith("--ig") for w in ow):
                                fix = [f"PATH={BIN}"]
                            if tool == "env":
                                words = [tool] + ow + (["--"] if dd else []) + fix + pre + iw + tr
                            else:
                                words = [tool] + ow + (["--"] if dd else []) + pre + iw + tr
                            plain = all(iname != n for n, _ in NESTED)
                            validate = (plain and not (tool == "command" and ("-p" in ow or iw[0] == "echo"))
                                        and tool not in ("builtin", "strace"))
                            site = f"{tool} | {label} | dd={int(dd)} | pre={' '.join(pre) or '-'}"
                            cases.append(Case(q(words), words, tool, site, iname + (" +" + tr[0] if tr else ""),
                                              validate=validate, plain_inner=plain))
    return cases


def inner_flag_cases(tier):
    """Round 2: the inner command's own arguments are tokens the wrapper itself understands (`timeout 5 rm -k x`,
    `command rm -v x`, `env zap x -u`): run under real bash like every other case - the tools stop parsing their
    options at the command name, so the inner command runs with these arguments."""
    cases = []
    for tool in TOOLS:
        t = TOOLS[tool]
        flags = []
        for o in t["opts"]:
            if o.short:
                flags.append("-" + o.short)
        flags += ["--" + o.long for o in t["opts"] if o.long][:3] + ["--", "-v", "-V", "-p", "-h"]
        if tool == "xargs":
            flags = [f for f in flags if f not in ("-I", "-i", "--replace")]
        seen = set()
        for f in flags:
            if f in seen:
                continue
            seen.add(f)
            for shape, iw in (("1st", ["rm", f, "x"]), ("2nd", ["zap", "x", f])):
                words = [tool] + t["pre"][0] + iw
                cases.append(Case(q(words), words, tool, f"{tool} | no option | inner arg {shape} = {f}", " ".join(iw),
                                  validate=tool not in ("builtin", "strace", "command")))
    return cases


RAW_TEXTS = [
    # (site, shell text): sh -c strings written as several quoted segments / with escapes
    ("sh -c | several quoted segments", "sh -c 'ls '\"; rm x; \"'echo'"),
    ("sh -c | several quoted segments", "bash -c 'ls '\"; git push\"''"),
    ("sh -c | escaped backquote in double quotes", "sh -c \"echo \\`rm x\\`\""),
    ("sh -c | escaped dollar-paren in double quotes", "sh -c \"echo \\$(rm x)\""),
    ("sh -c | ansi-c segment", "sh -c 'ls #'$'\\n''rm x'"),
    ("sh -c | backslash escapes", "sh -c ls\\;rm\\ x"),
    ("env | several quoted segments", "env 'ls'\"; rm x\"''"),
    ("xargs sh -c | several quoted segments", "xargs sh -c 'ls '\"; rm x; \"'echo'"),
]


def odd_cases(tier):
    """command names the wrapper loop mistakes for numbers/flags; a bare launcher fed by xargs;
    sh -c strings written as several quoted segments / with escapes (word-value extraction)."""
    cases = []
    for tool, pre in (("nohup", []), ("command", []), ("nice", []), ("timeout", ["5"]), ("builtin", ["command"]), ("env", [])):
        for name in ("5", "-"):
            for rest in (["ls"], ["rm", "x"]):
                words = [tool] + pre + [name] + rest
                cases.append(Case(q(words), words, tool, f"{tool} | command named {name}", " ".join([name] + rest), validate=False))
    # a NAME=value word behind a wrapper PROGRAM is the name of the program it runs (only bash reads assignments): the
    # stub called A=1 is really executed; `time` is a keyword, bash reads the assignment itself
    for tool, pre in (("nohup", []), ("command", []), ("nice", []), ("nice", ["-n", "5"]), ("timeout", ["5"]), ("timeout", ["-s", "KILL", "5"]),
                      ("nohup", ["nice"]), ("command", ["--"])):
        for name in ("A=1", "B[0]+=x"):
            for rest in ([], ["ls"], ["rm", "x"], ["ls", "--help"]):
                words = [tool] + pre + [name] + rest
                cases.append(Case(q(words), words, tool, f"{tool} | command named like an assignment {name}", " ".join([name] + rest), validate=False))
    for rest in (["ls"], ["rm", "x"]):
        cases.append(Case("time A=1 " + " ".join(rest), ["time", "A=1"] + rest, "time", "time | keyword, then a real assignment", " ".join(rest), validate=False))
    words = ["timeout", "5", "--", "ls"]
    cases.append(Case(q(words), words, "timeout", "timeout | -- after the duration", "-- ls", validate=False))
    words = ["xargs", "-e", "STOP", "head"]
    cases.append(Case(q(words), words, "xargs", "xargs | -e followed by a separate word (pinned by tests/cli/test_xargs.py)", "STOP head", validate=False))
    for launcher in (["env"], ["env", "-i", f"PATH={BIN}"], ["nice"], ["nohup"], ["sh", "-c"], ["xargs"], ["timeout", "5"], ["command"]):
        words = ["xargs"] + launcher
        cases.append(Case(q(words), words, "xargs", "xargs | bare launcher, stdin supplies the command", " ".join(launcher),
                          stdin=b"rm x\n", validate=False, plain_inner=False))
    for site, text in RAW_TEXTS:
        cases.append(Case(text, text.split(), text.split()[0], site, "raw", validate=False, plain_inner=False, stdin=b""))
    return cases


def env_split_cases(tier):
    cases = []
    small, full = inner_pool(tier)
    for iname, iw in small:
        s = " ".join(iw)
        if "'" in s:
            continue
        for label, ow in [("-S separate", ["-S", s]), ("-S attached", ["-S" + s]), ("--split-string =joined", ["--split-string=" + s]),
                          ("--split-string separate", ["--split-string", s]), ("-S cluster", ["-vS", s]),
                          ("-S with options inside", ["-S", "-u X " + s]), ("-S abbrev", ["--split=" + s]),
                          ("-S trailing words", ["-S", iw[0]] + iw[1:] if len(iw) > 1 else ["-S", iw[0], "extra"])]:
            words = ["env"] + ow
            cases.append(Case(q(words), words, "env", f"env | {label}", iname, plain_inner=all(iname != n for n, _ in NESTED),
                              validate=all(iname != n for n, _ in NESTED)))
    # round seven (`env -S '#' rm x` was approved as an empty command line): env reads the -S string by its OWN syntax - a "#"
    # comment ends the string only, \c ends it, \_ is a blank, quotes group - and the words behind the string still run.  Real
    # env decides what is executed; the spec makes no claim for these strings (validate=False).
    odd_strings = ["env #", "env # c", "nohup env #", "env -i #", "#", "# c", " #", "ls #", "ls#", "ls #;", "", " ", "\\c", "ls \\c", "\\_", "'#'", '"#" ', "a\\#", "ls\\_-la #"]
    for S in odd_strings:
        for iname, iw in small[:6]:
            if any(iname == n for n, _ in NESTED):
                continue
            for label, ow in (("-S odd string separate", ["-S", S]), ("-S odd string attached", ["-S" + S]), ("-S odd string =joined", ["--split-string=" + S])):
                words = ["env"] + ow + iw
                cases.append(Case(q(words), words, "env", f"env | {label} {S!r}", iname, validate=False, plain_inner=False))
    return cases


def find_cases(tier):
    cases = []
    small, full = inner_pool(tier)
    shapes = [
        ("-exec ;", lambda c: ["-exec"] + c + [";"]),
        ("-exec {} ;", lambda c: ["-exec"] + c + ["{}", ";"]),
        ("-exec {} +", lambda c: ["-exec"] + c + ["{}", "+"]),
        ("-execdir ;", lambda c: ["-execdir"] + c + [";"]),
        ("-exec ls ; then -exec ;", lambda c: ["-exec", "ls", ";", "-exec"] + c + [";"]),
        ("-exec ls {} + then -exec ;", lambda c: ["-exec", "ls", "{}", "+", "-exec"] + c + [";"]),
        ("-exec ; then -exec ls ;", lambda c: ["-exec"] + c + [";", "-exec", "ls", ";"]),
        ("-name X -exec ;", lambda c: ["-name", ".", "-exec"] + c + [";"]),
        ("-name -exec -o -exec ;", lambda c: ["-name", "-exec", "-o", "-exec"] + c + [";"]),
        ("( -exec ; )", lambda c: ["(", "-exec"] + c + [";", ")"]),
        ("-exec ls + lone plus", lambda c: ["-exec", "echo", "+"] + c + [";"]),
        ("-exec env -u + lone plus", lambda c: ["-exec", "env", "-u", "+"] + c + [";"]),
        ("-printf -exec -exec ;", lambda c: ["-printf", "", "-exec"] + c + [";"]),
        ("! -exec ;", lambda c: ["!", "-exec"] + c + [";"]),
        ("-exec ; -print", lambda c: ["-exec"] + c + [";", "-print"]),
    ]
    for label, f in shapes:
        for iname, iw in (full if label == "-exec ;" else small):
            for semi in ("\\;", "';'"):
                expr = f(iw)
                words = ["find", ".", "-maxdepth", "0"] + expr
                text = " ".join(semi if w == ";" else ("\\(" if w == "(" else "\\)" if w == ")" else shlex.quote(w)) for w in words)
                plain = all(iname != n for n, _ in NESTED)
                cases.append(Case(text, words, "find", f"find | {label} | semi={semi}", iname, plain_inner=plain,
                                  validate=plain and label not in ("! -exec ;", "-exec env -u + lone plus")))
    return cases


def shell_cases(tier):
    cases = []
    small, full = inner_pool(tier)
    forms = [
        ("-c", lambda s: ["-c", s]),
        ("-ec cluster", lambda s: ["-ec", s]),
        ("-ce cluster", lambda s: ["-ce", s]),
        ("-e -c", lambda s: ["-e", "-c", s]),
        ("-c -e (option after -c)", lambda s: ["-c", "-e", s]),
        ("-o errexit -c", lambda s: ["-o", "errexit", "-c", s]),
        ("-c then $0 args", lambda s: ["-c", s, "rm", "x"]),
        ("-c -- ", lambda s: ["-c", "--", s]),
        ("+c", lambda s: ["+c", s]),
        ("-s -c", lambda s: ["-s", "-c", s]),
        ("-c trailing -h", lambda s: ["-c", s, "-h"]),
        ("-c trailing --help", lambda s: ["-c", s, "--help"]),
        ("script then -c", lambda s: ["script.sh", "-c", s]),
        ("-- script -c", lambda s: ["--", "script.sh", "-c", s]),
        ("script -h", lambda s: ["script.sh", "-h"]),
        ("script --help", lambda s: ["script.sh", "--help"]),
        ("script", lambda s: ["script.sh"]),
        ("-e script", lambda s: ["-e", "script.sh"]),
    ]
    bash_only = [
        ("--norc -c", lambda s: ["--norc", "-c", s]),
        ("--posix -c", lambda s: ["--posix", "-c", s]),
        ("-norc -c (one dash)", lambda s: ["-norc", "-c", s]),
        ("--rcfile F -c", lambda s: ["--rcfile", "in.txt", "-c", s]),
        ("-rcfile ls -c (one dash)", lambda s: ["-rcfile", "ls", "-c", s]),
        ("-O extglob -c", lambda s: ["-O", "extglob", "-c", s]),
        ("-cO extglob", lambda s: ["-cO", "extglob", s]),
        ("--help", lambda s: ["--help"]),
        ("--version -c", lambda s: ["--version", "-c", s]),
    ]
    for sh in ("sh", "bash", "dash"):
        for label, f in forms + (bash_only if sh == "bash" else []):
            for iname, iw in small:
                if "'" in iname:
                    continue
                s = iname
                words = [sh] + f(s)
                plain = all(iname != n for n, _ in NESTED)
                runs_script = "script.sh" in words and words.index("script.sh") < (words.index(s) if s in words else 99)
                cases.append(Case(q(words), words, sh, f"{sh} | {label}", iname, plain_inner=plain, stdin=b"",
                                  validate=plain and iw[0] != "echo", expect=[iw], tags={"script": runs_script}))
    return cases


DOCKER_EXEC_SPELLINGS = [
    ("plain", []), ("-i", ["-i"]), ("-d", ["-d"]), ("-di cluster", ["-di"]), ("--interactive", ["--interactive"]),
    ("--privileged", ["--privileged"]),
    ("-e separate", ["-e", "A=1"]), ("-e attached", ["-eA=1"]), ("-e =joined short", ["-e=A=1"]), ("--env separate", ["--env", "A=1"]),
    ("--env =joined", ["--env=A=1"]), ("-ie cluster separate", ["-ie", "A=1"]), ("-ieA=1 cluster attached", ["-ieA=1"]),
    ("-w separate", ["-w", "/tmp"]), ("--workdir=", ["--workdir=/tmp"]), ("-u separate", ["-u", "root"]),
    ("-iu cluster separate", ["-iu", "root"]), ("--user separate", ["--user", "root"]),
    ("--env-file separate", ["--env-file", "/dev/null"]), ("--detach-keys separate", ["--detach-keys", "a"]),
    ("--detach-keys =joined", ["--detach-keys=a"]), ("-e twice", ["-e", "A=1", "-e", "B=2"]),
]
DOCKER_GLOBAL_SPELLINGS = [
    ("no global", []), ("-D", ["-D"]), ("--debug", ["--debug"]), ("-l separate", ["-l", "debug"]), ("-l attached", ["-ldebug"]),
    ("--log-level separate", ["--log-level", "debug"]), ("--log-level=", ["--log-level=debug"]), ("-Dl cluster separate", ["-Dl", "debug"]),
    ("--config separate", ["--config", "cfgdir"]),
]


def docker_cases(tier, base="docker"):
    cases = []
    small, full = inner_pool(tier)
    containers = ["c", "ls", "cat"]
    for glabel, gw in DOCKER_GLOBAL_SPELLINGS:
        for label, ow in DOCKER_EXEC_SPELLINGS:
            if glabel != "no global" and label not in ("plain", "-e separate", "-ie cluster separate"):
                continue
            for dd in ("none", "before-container", "after-container"):
                for cont in (containers if (label in ("plain", "-ie cluster separate", "--detach-keys separate", "-iu cluster separate") or dd != "none") else containers[:1]):
                    for iname, iw in (full if (label == "plain" and cont == "c" and dd == "none") else small[:4]):
                        words = [base] + gw + ["exec"] + ow + (["--"] if dd == "before-container" else []) + [cont] + (["--"] if dd == "after-container" else []) + iw
                        cases.append(Case(q(words), words, base, f"{base} exec | {glabel} | {label} | dd={dd} | container={cont}", iname,
                                          truth="docker" if base == "docker" else "spec", stdin=b"",
                                          plain_inner=all(iname != n for n, _ in NESTED)))
    # the container sub-command spelling and trailing help tokens
    for iname, iw in small[:4]:
        for tr in TRAILING[1:]:
            words = [base, "exec", "c"] + iw + tr
            cases.append(Case(q(words), words, base, f"{base} exec | trailing {tr[0]}", iname, truth="docker" if base == "docker" else "spec", stdin=b""))
    return cases


KUBECTL_SPELLINGS = [
    ("pod -- cmd", lambda c: ["exec", "pod", "--"] + c),
    ("-it pod -- cmd", lambda c: ["exec", "-it", "pod", "--"] + c),
    ("pod -it -- cmd", lambda c: ["exec", "pod", "-it", "--"] + c),
    ("-n ns before exec", lambda c: ["-n", "ns", "exec", "pod", "--"] + c),
    ("--namespace=ns", lambda c: ["--namespace=ns", "exec", "pod", "--"] + c),
    ("-c ctr", lambda c: ["exec", "pod", "-c", "ctr", "--"] + c),
    ("-cctr attached", lambda c: ["exec", "pod", "-cctr", "--"] + c),
    ("--container ctr", lambda c: ["exec", "pod", "--container", "ctr", "--"] + c),
    ("--context x before exec", lambda c: ["--context", "x", "exec", "pod", "--"] + c),
    ("--kubeconfig f (not in handler table)", lambda c: ["--kubeconfig", "f", "exec", "pod", "--"] + c),
    ("-s server (not in handler table)", lambda c: ["-s", "srv", "exec", "pod", "--"] + c),
    ("legacy pod cmd (no --)", lambda c: ["exec", "pod"] + c),
    ("flag value is -- (--cache-dir --)", lambda c: ["exec", "--cache-dir", "--", "ls", "--"] + c),
    ("flag value is -- (-c --)", lambda c: ["exec", "-c", "--", "ls", "--"] + c),
    ("-- twice", lambda c: ["exec", "pod", "--", "ls", "--"] + c),
    ("pod named ls", lambda c: ["exec", "ls", "--"] + c),
    ("-f file", lambda c: ["exec", "-f", "pod.yaml", "--"] + c),
]


def kubectl_cases(tier):
    cases = []
    small, full = inner_pool(tier)
    for base in ("kubectl", "k"):
        for label, f in KUBECTL_SPELLINGS:
            for iname, iw in (full if label == "pod -- cmd" else small):
                for tr in (TRAILING if (label == "pod -- cmd" and iname in CORE) else [[]]):
                    words = [base] + f(iw) + tr
                    cases.append(Case(q(words), ["kubectl"] + words[1:], base, f"kubectl exec | {label}", iname + (" +" + tr[0] if tr else ""),
                                      truth="spec", stdin=b"", plain_inner=all(iname != n for n, _ in NESTED)))
    return cases


FD_SPELLINGS = [
    ("-x cmd", lambda c: ["-x"] + c), ("--exec cmd", lambda c: ["--exec"] + c), ("-X cmd", lambda c: ["-X"] + c),
    ("--exec-batch cmd", lambda c: ["--exec-batch"] + c), ("--exec=cmd", lambda c: ["--exec=" + c[0]] + c[1:]),
    ("-xcmd attached", lambda c: ["-x" + c[0]] + c[1:]), ("-Hx cluster", lambda c: ["-Hx"] + c),
    ("-Hxcmd cluster attached", lambda c: ["-Hx" + c[0]] + c[1:]), ("pattern -x cmd", lambda c: ["pat", "-x"] + c),
    ("-e ext -x cmd", lambda c: ["-e", "py", "-x"] + c), ("-e x (value looks like exec flag) then -x", lambda c: ["-e", "x", "-x"] + c),
    ("-x ls ; -x cmd (two execs)", lambda c: ["-x", "ls", ";", "-x"] + c), ("-tx cluster (t takes a value)", lambda c: ["-tx"] + c),
    ("-d 1 -x cmd", lambda c: ["-d", "1", "-x"] + c), ("--max-depth 1 -x", lambda c: ["--max-depth", "1", "-x"] + c),
    ("-x cmd ; (terminated)", lambda c: ["-x"] + c + [";"]),
]


def fd_cases(tier):
    cases = []
    small, full = inner_pool(tier)
    for label, f in FD_SPELLINGS:
        for iname, iw in small:
            words = ["fd"] + f(iw)
            cases.append(Case(q(words), words, "fd", f"fd | {label}", iname, truth="spec", stdin=b"",
                              plain_inner=all(iname != n for n, _ in NESTED)))
    # fd appends the path of every result to a command that holds no placeholder ({} {/} {//} {.} {/.}), as xargs appends
    # its items: a bare launcher runs the FOUND FILE (expected argv given explicitly; no fd binary here - fd --help)
    for flag in ("-x", "--exec", "-X"):
        for launcher in (["env"], ["nice"], ["nohup"], ["timeout", "5"], ["command"], ["env", "-i"]):
            words = ["fd", flag] + launcher
            cases.append(Case(q(words), words, "fd", "fd | bare launcher, fd appends the found path", " ".join(launcher), truth="expect",
                              expect=[launcher + ["./ITEM"]], stdin=b"", validate=False, plain_inner=False))
        # the appended path in EVERY clause of several: a bare launcher first, last, in the middle
        for clauses in ([["env"], ["ls"]], [["ls"], ["env"]], [["ls"], ["env"], ["ls"]], [["nice"], ["nohup"]], [["ls", "{}"], ["env"]], [["env"], ["ls", "{}"]]):
            words = ["fd"]
            for ci, cl in enumerate(clauses):
                words += ([";"] if ci else []) + [flag] + cl
            cases.append(Case(q(words), words, "fd", "fd | several clauses, a bare launcher among them", " ; ".join(" ".join(c) for c in clauses), truth="expect",
                              expect=[[w.replace("{}", "./ITEM") for w in cl] + ([] if "{}" in cl else ["./ITEM"]) for cl in clauses],
                              stdin=b"", validate=False, plain_inner=False))
        # a brace that is not one of fd's placeholders ({} {/} {//} {.} {/.}) does not stop fd from appending the path
        for launcher in (["env", "A={"], ["env", "A={x}"], ["env", "-u", "{"], ["env", "A=}{"], ["env", "A={/x}"], ["nohup", "env", "B={ }"]):
            words = ["fd", flag] + launcher
            cases.append(Case(q(words), words, "fd", "fd | launcher with a brace that is no placeholder, fd appends the found path", " ".join(launcher),
                              truth="expect", expect=[launcher + ["./ITEM"]], stdin=b"", validate=False, plain_inner=False))
        # ... and each real placeholder, also inside a word, does
        for ph in ("{}", "{/}", "{//}", "{.}", "{/.}", "x{}y", "--out={.}.bak"):
            words = ["fd", flag, "env", "A=" + ph]
            cases.append(Case(q(words), words, "fd", "fd | placeholder inside a word, nothing appended", "env A=" + ph, truth="expect",
                              expect=[["env", "A=" + ph.replace("{}", "./ITEM")]], stdin=b"", validate=False, plain_inner=False))
    return cases


def other_launcher_cases(tier):
    """uv run, arch, caffeinate, script, tar --to-command, fzf binds: no binary here and no spec -
    correspondence of the handler models and the metamorphic 'never more lenient than the inner' check
    on the obvious reading of the spelling (expected inner given explicitly)."""
    cases = []
    small, full = inner_pool(tier)
    forms = [
        ("uv run", lambda c: ["uv", "run"] + c), ("uv run --python 3.12", lambda c: ["uv", "run", "--python", "3.12"] + c),
        ("uv run --with=x", lambda c: ["uv", "run", "--with=x"] + c), ("uv run -q", lambda c: ["uv", "run", "-q"] + c),
        ("arch -x86_64", lambda c: ["arch", "-x86_64"] + c), ("arch -arch arm64", lambda c: ["arch", "-arch", "arm64"] + c),
        ("arch -e A=1", lambda c: ["arch", "-e", "A=1"] + c),
        ("caffeinate", lambda c: ["caffeinate"] + c), ("caffeinate -i", lambda c: ["caffeinate", "-i"] + c),
        ("caffeinate -dis cluster", lambda c: ["caffeinate", "-dis"] + c), ("caffeinate -t 5", lambda c: ["caffeinate", "-t", "5"] + c),
        ("script -q /dev/null (BSD)", lambda c: ["script", "-q", "/dev/null"] + c),
        ("script -t 0 out", lambda c: ["script", "-t", "0", "out"] + c),
    ]
    for label, f in forms:
        for iname, iw in small:
            for tr in (TRAILING if iname in CORE[:2] else [[]]):
                words = f(iw) + tr
                cases.append(Case(q(words), words, words[0], f"{words[0]} | {label}", iname + (" +" + tr[0] if tr else ""), truth="expect", stdin=b"",
                                  expect=[iw + tr], plain_inner=all(iname != n for n, _ in NESTED)))
    for iname, iw in small:
        s = " ".join(iw)
        for label, words, exp in [
            ("tar --to-command=", ["tar", "-xf", "a.tar", "--to-command=" + s], [iw]),
            ("tar --to-command sep", ["tar", "-xf", "a.tar", "--to-command", s], [iw]),
            ("fzf --bind execute()", ["fzf", "--bind", f"enter:execute({s})"], [iw]),
            ("fzf --bind= execute()", ["fzf", f"--bind=enter:execute({s})"], [iw]),
            ("fzf two binds", ["fzf", "--bind", "enter:execute(ls)", "--bind", f"ctrl-a:execute({s})"], [["ls"], iw]),
            ("fzf become()", ["fzf", "--bind", f"enter:become({s})"], [iw]),
        ]:
            cases.append(Case(q(words), words, words[0], f"{words[0]} | {label}", iname, truth="expect", stdin=b"", expect=exp,
                              plain_inner=all(iname != n for n, _ in NESTED)))
    return cases


# ---------------------------------------------------------------- quoting strings
META = list("|&;()<>$`\\\"' \t\n*?[]#~=%!{}^,+-@:./_")


def quoting_strings(rng, n_random):
    out = [""]
    out += META
    out += [a + b for a in META for b in META]
    out += ["it's", "a b", "'", "''", "'''", "\"'\"", "'\"'\"'", "a'b'c", "$(rm x)", "`rm x`", "${x}", "\\'", "a\\", "\\\\", "-n", "--", "~", "~root",
            "a=b", "{a,b}", "*", "?", "[a]", "!", "!!", "#c", "a#b", "\r", "\x01", "\x7f", "\x1b[0m", "café", "é", "ª", "²",
            "٠", "　", " ", " ", " ", "\u0085", "\U0001F600", "\U0001D7D8", "０", "x́", "​", "﻿", "‮"]
    alphabet = META + list("abcXYZ019") + ["é", " ", "　", "\U0001F600", "٠", " ", "\r", "\x01"]
    for _ in range(n_random):
        k = rng.randint(1, 8)
        out.append("".join(rng.choice(alphabet) for _ in range(k)))
    for _ in range(n_random // 4):
        k = rng.randint(1, 5)
        out.append("".join(chr(rng.choice([rng.randint(1, 0x7F), rng.randint(0x80, 0x7FF), rng.randint(0x800, 0xD7FF), rng.randint(0xE000, 0xFFFF), rng.randint(0x10000, 0x10FFFF)])) for _ in range(k)))
    seen, res = set(), []
    for s in out:
        if s not in seen and "\0" not in s:
            seen.add(s)
            res.append(s)
    return res


# ---------------------------------------------------------------- token soups for the handler correspondence
def soup_vocab(tables):
    v = ["--", "-", "-c", "-ec", "-x", "-X", "-S", "-Sls", "--split-string=ls x", "A=1", "5", "1.5", "ls", "rm", "x", "git", "status", "zap", "{}", ";", "\\;", "+",
         "-exec", "-execdir", "-ok", "-okdir", "-delete", "-name", "exec", "run", "compose", "container", "pod", "c", "-it", "-i", "-e", "-u", "-w", "--env=A=1",
         "-h", "--help", "--version", "help", "", "it's", "a b", "-Hx", "-Hxls", "--exec=ls", "--exec-batch=rm", "-xrm", "-n", "-I", "-I{}", "-i", "-0", "-p",
         "--interactive", "--open-tty", "--max-args=1", "-E", "-e", "-l", "-t", "-q", "/dev/null", "-p", "-dis", "-arch", "arm64", "--python", "-D", "--debug",
         "-l", "debug", "--detach-keys", "-uroot", "-d", "--kubeconfig", "-f", "--namespace", "ns", "-o", "--to-command", "--to-command=ls", "--to-command=", "--to-command=rm x", "-tf"]
    for t in tables:
        v += t
    return sorted(set(v))


def soups(rng, n, heads, vocab):
    out = []
    for _ in range(n):
        h = rng.choice(heads)
        k = rng.randint(0, 7)
        out.append(h + [rng.choice(vocab) for _ in range(k)])
    return out
