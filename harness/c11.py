"""C11 - config text: line-local, never fatal, round-trips; a broken config never allows.

Correspondence: Model/ConfigText.parse_config == dippy.core.config.parse_config, field by field (five rule
lists with decision/pattern/message/exact, aliases in dict order, default, log, log_full), HOME controlled;
ConfigText.config_stage == what bin/dippy-hook answers when layers are unusable.

Implementation-level oracles (model-free, on the real code):
  raises     parse_config(text) raises nothing, for any text
  locality   parse_config(text) == fold of what each line yields when parsed on its own (rule lists concatenate,
             aliases/settings: last writer per key); deleting an inert line / inserting a malformed one changes nothing
  roundtrip  parse_config(write(rule)) gives the rule back, for every well-formed rule value (reference writer)
  hook       an unreadable/undecodable layer run through the real hook never yields allow (ask or {})
"""
from __future__ import annotations

import concurrent.futures as cf
import json
import os
import random
import shutil
import subprocess
import tempfile

from . import cfgfuncs
from . import cfgtext as ct
from . import core, lib

TRUSTED = [
    "Coq 8.16.1 kernel and its VM (vm_compute: closed facts over PY_SPACE, the directive table, the refutation witnesses)",
    "axioms: none (every theorem of Props/C11.v prints 'Closed under the global context')",
    "tools/gen_tables.py + tools/tables/t11_configtext.py (Python-ast translator: directive chain of parse_config, setting names, line separator; interpreter tables str.isspace / str.lower)",
    "extraction: ExtrOcamlBasic only; OCaml 4.13.1; ocaml/driver.ml; cross-checked in Coq by vm_compute on a sample",
    "harness: harness/cfgtext.py (canonical Config view, reference writer), generators of harness/c11.py",
    "modelled, not verified: CPython's str.strip/split/lower (tables PY_SPACE, PY_LOWER_NONASCII; word-final sigma not modelled - it never yields ASCII), "
    "pathlib.Path.home/expanduser (oracles; expanduser assumed to raise only RuntimeError or ValueError - observed on the generated stream), "
    "Path.read_text/is_file failure modes (a six-way case split in ConfigText.read_result, exercised through the real hook)",
    "Path.home() is assumed to succeed inside parse_config (C11_total_home_refuted shows the model raises otherwise; config.py evaluates Path.home() at import, so the hook cannot get that far without it)",
]

HOME = "/tmp/dippy-verif-home c11"  # never created; only its spelling matters (note the blank)

# ---------------------------------------------------------------- systematic stream
BS, DQ = "\\", '"'
SHAPES = [
    ("noarg", ""), ("pattern", "git status"), ("pattern-glob", "rm -rf *"), ("tilde-home", "~/bin/x *"), ("tilde-bare", "~"),
    ("tilde-user", "~user/x"), ("tilde-url", "https://x/~ ~/y"), ("tilde-var", "$HOME/~"), ("blanks-run", "a  b"), ("tab-inside", "a\tb"),
    ("bar-spaced", "rm |"), ("bar-attached", "x|"), ("bar-only", "|"), ("bar-blanks", "rm   |  "), ("bar-mid", "a | b"),
    ("pattern+message", 'git push "be careful"'), ("message-empty", 'x ""'), ("message-escaped-quotes", 'x "a \\"q\\" b"'),
    ("message-two", 'x "a" "b"'), ("message-quote-in-pattern", 'echo "hi" "m"'), ("anchor+message", 'git | "m"'),
    ("anchor-glued-message", 'git |"m"'), ("message-only", '"just a message"'), ("message-only-blank", ' "m"'),
    ("unterminated", 'x "abc'), ("escaped-final", 'x "abc\\"'), ("quote-no-blank", 'x"m"'), ("lone-quote", '"'), ("two-quotes", '""'),
    ("tab-before-message", 'x\t"m"'), ("us-before-message", 'x\x1f"m"'), ("nel-before-message", 'x\x85"m"'),
    ("message-trailing-blanks", 'x "m"  \t'), ("message-inner-tab", 'x "a\tb"'),
    ("cr-inside", 'x "a\rb"'), ("cr-end", "x y\r"), ("nul", 'x\x00y "m\x00"'), ("surrogate-hi", 'x\ud800 "m\ud800"'),
    ("surrogate-lo", 'x\udc80 "\udc80"'), ("rtl", '\u202egit "\u202em"'), ("combining", 'e\u0301 "o\u0308\u200d"'), ("astral", 'x\U0001f424 "\U0001f424"'),
    ("hash-inside", 'x #y "m#"'), ("bs-in-pattern", 'a\\ b\\'),
    ("set-log", "log /tmp/x"), ("set-log-tilde", "log ~/x"), ("set-log-nouser", "log ~nosuchuser/x"), ("set-log-nul", "log ~\x00/x"),
    ("set-log-surrogate", "log ~\ud800/x"), ("set-log-missing", "log"), ("set-log-norm", "log a//b/./c/"), ("set-log-blanks", "log  /a b "),
    ("set-logfull", "log-full"), ("set-logfull-us", "LOG_FULL"), ("set-logfull-value", "log_full yes"), ("set-logfull-mixed", "log-_full"),
    ("set-default-allow", "default allow"), ("set-default-ask", "default ask"), ("set-default-deny", "default deny"),
    ("set-default-missing", "default"), ("set-default-case", "Default allow"), ("set-default-value-case", "default Allow"),
    ("set-default-extra", "default allow x"), ("set-unknown", "colour blue"), ("set-kelvin", "default as\u212a"),
    ("alias-ok", "a b"), ("alias-tilde", "~/bin/gh gh"), ("alias-one", "a"), ("alias-three", "a b c"), ("alias-tabs", "a\t\tb"),
]
for _k in range(5):
    SHAPES.append((f"bs-run-{_k}", 'x "m' + BS * _k + DQ))
    SHAPES.append((f"bs-run-only-{_k}", "x " + DQ + BS * _k + DQ))
for _s in ct.SEPARATORS:
    SHAPES.append((f"sep-U+{ord(_s):04X}", f'x{_s}y "a{_s}b"'))


def spellings():
    out = []
    for d in ct.ALL_DIRECTIVES:
        out.append((d, d))
        out.append((d, d.upper()))
        if "k" in d:
            out.append((d, d.replace("k", "\u212a")))  # KELVIN SIGN lowers to k
    out += [("unknown", "bogus"), ("unknown", "allow-"), ("unknown", "-mcp"), ("unknown", "\u0130"), ("unknown", "allow\u03a3"),
            ("unknown", "al\u200dlow"), ("comment", "#"), ("comment", "#allow"), ("blank", "")]
    return out


PAIRS = ["alias x y\nalias x z", "alias x y\nalias w v\nalias x z", "set default allow\nset default ask", "set default ask\nset default allow",
         "set log /a\nset log /b", "set log /a\nset log ~nosuchuser/x", "set log-full\nset log_full x", "deny rm\nbogus\nallow rm",
         "allow a\nallow-mcp b\nask-redirect c\nafter d \"m\"\nafter-mcp e \"\"", "allow a\n\n# c\nallow b", "allow a\r\nallow b",
         "ask x \"a\nb\"", "deny x \"m\\\ny\""]


def systematic():
    """(directive class, shape name, text) - every directive spelling x every argument shape."""
    out = [("multi", "pairs", t) for t in PAIRS]
    for i, (cls, sp) in enumerate(spellings()):
        for j, (name, rest) in enumerate(SHAPES):
            out.append((cls, name, sp + " " + rest))
            if (i + j) % 3 == 0:
                out.append((cls, name, " \t" + sp + "\u3000" + rest + " \r"))
            if (i + j) % 7 == 0:
                out.append((cls, name, sp + "\t" + rest))
    return out


GARBAGE = list("ab \t\"\\|~/#-") + ct.SEPARATORS + ct.SPACES + ct.ODD


# one representative line per directive class, per argument class, per kind of inert line: the alphabet of the
# repetition / order stream (a line's effect must not depend on which lines came before it, itself included)
REP_LINES = ["allow git status", "deny git *", 'deny git status "no"', 'ask git "sure?"', "allow git status |", "allow-redirect /tmp/x",
             'deny-redirect /tmp/* "no"', 'after git "done"', 'after git ""', "allow-mcp mcp__a__*", 'deny-mcp mcp__a__b "no"',
             'after-mcp mcp__a__* "m"', "alias g git", "alias g hub", "alias ~/bin/g git", "set log /tmp/l1", "set log /tmp/l2", "set log-full",
             "set default allow", "set default ask", "# comment", "", "   ", "bogus line", "allow", 'deny "only message"', "set default yolo",
             "alias one", "  allow git status  ", "ALLOW git status", "allow  git   status"]


def repetition_stream():
    """(shape, text): every ordered pair (a, b) of representative lines as  a b | a b a | a a b | b a a b ."""
    out = []
    for a in REP_LINES:
        out.append(("a a", a + "\n" + a))
        out.append(("a a a", "\n".join([a, a, a])))
        for b in REP_LINES:
            if a == b:
                continue
            out.append(("a b", a + "\n" + b))
            out.append(("a b a", "\n".join([a, b, a])))
            out.append(("a a b", "\n".join([a, a, b])))
            out.append(("b a a b", "\n".join([b, a, a, b])))
    return out


def rand_line(rng, pool):
    r = rng.random()
    if r < 0.75:
        return rng.choice(pool)
    if r < 0.9:
        return rng.choice(ct.ALL_DIRECTIVES + ["bogus"]) + rng.choice([" ", "\t", ""]) + "".join(
            rng.choice(GARBAGE) for _ in range(rng.randint(0, 12)))
    return "".join(rng.choice(GARBAGE) for _ in range(rng.randint(0, 10)))


# ---------------------------------------------------------------- locality oracle (implementation only)
class Locality:
    def __init__(self, parse_config):
        self.parse = parse_config
        self.cache = {}

    def summary(self, line):
        s = self.cache.get(line)
        if s is None:
            v1, e1 = ct.impl_parse(self.parse, line)
            v2, e2 = ct.impl_parse(self.parse, "set default allow\n" + line)
            if e1 is not None or e2 is not None:
                s = "raises"
            else:
                sets_default = "allow" if v1[7] == "allow" else ("ask" if v2[7] == "ask" else None)
                s = {"lists": v1[1:6], "aliases": v1[6], "default": sets_default, "log": v1[8], "log_full": v1[9] == "1"}
                s["inert"] = not (any(s["lists"]) or s["aliases"] or sets_default or s["log"] or s["log_full"])
            self.cache[line] = s
        return s

    def fold(self, lines):
        lists = [[] for _ in range(5)]
        aliases, default, log, log_full = {}, None, [], False
        for l in lines:
            s = self.summary(l)
            if s == "raises":
                return None
            for i in range(5):
                lists[i] += s["lists"][i]
            for k, v in s["aliases"]:
                aliases[k] = v
            default = s["default"] or default
            log = s["log"] or log
            log_full = log_full or s["log_full"]
        return ["ok"] + lists + [[[k, v] for k, v in aliases.items()], default or "ask", log, "1" if log_full else "0"]


# ---------------------------------------------------------------- hook oracle
USABLE = ("ok", "absent", "dir", "dangling", "loop")  # env also: "nouser", "empty" (both name no file)
BROKEN = ("decode", "unreadable", "eio", "noaccess")
LAYERS = ("user", "project", "env")
LAYER_TEXT = {"user": "allow frobu\n", "project": "allow frobp\n", "env": "allow frobe\n"}
PROBE = {"user": "frobu", "project": "frobp", "env": "frobe"}


def kinds_for(layer):
    ks = list(USABLE) + list(BROKEN)
    if layer == "env":
        ks += ["nouser", "empty"]
    return ks


def wire_layer(layer, kind):
    if kind == "ok":
        return ["text", LAYER_TEXT[layer]]
    if kind == "decode":
        return ["decode"]
    if kind == "unreadable":
        return ["permission"]
    if kind == "eio":
        return ["oserror"]
    if kind == "noaccess":
        return ["permission"]  # is_file()/stat denied: ConfigError at every layer (project walk included)
    return ["absent"]  # dir, dangling, loop, empty, and DIPPY_CONFIG=~nosuchuser/x (names no file)


def build_layout(root, layout):
    """layout: dict layer -> kind.  Returns (env, cwd)."""
    home = os.path.join(root, "home")
    proj = os.path.join(root, "proj")
    sub = os.path.join(proj, "sub")
    envd = os.path.join(root, "envd")
    for d in (home, sub, envd):
        os.makedirs(d, exist_ok=True)
    env = {"HOME": home, "PATH": "/usr/bin:/bin"}
    later = []

    def put(path, layer, kind, parent):
        if kind in ("absent", "empty", "nouser"):
            return
        if kind == "ok":
            with open(path, "w") as f:
                f.write(LAYER_TEXT[layer])
        elif kind == "decode":
            with open(path, "wb") as f:
                f.write(b"deny ls\n\xff\xfe\nallow *\n")
        elif kind == "unreadable":
            with open(path, "w") as f:
                f.write("allow *\n")
            later.append((path, 0))
        elif kind == "eio":
            os.symlink("/proc/self/mem", path)
        elif kind == "dir":
            os.makedirs(path)
        elif kind == "dangling":
            os.symlink(os.path.join(root, "nowhere"), path)
        elif kind == "loop":
            os.symlink(path, path)
        elif kind == "noaccess":
            with open(path, "w") as f:
                f.write("allow *\n")
            later.append((parent, 0))

    udir = os.path.join(home, ".dippy")
    os.makedirs(udir, exist_ok=True)
    put(os.path.join(udir, "config"), "user", layout["user"], udir)
    put(os.path.join(proj, ".dippy"), "project", layout["project"], proj)
    k = layout["env"]
    if k == "nouser":
        env["DIPPY_CONFIG"] = "~nosuchuser-dippy-verif/x"
    elif k == "empty":
        env["DIPPY_CONFIG"] = ""
    elif k != "absent":
        p = os.path.join(envd, "cfg")
        put(p, "env", k, envd)
        env["DIPPY_CONFIG"] = p
    for r, ds, fs in os.walk(root):
        os.chmod(r, 0o755)
    os.chmod(root, 0o755)
    for p, mode in later:
        os.chmod(p, mode)
    return env, sub


def run_hook(env, cwd, command, as_nobody):
    payload = json.dumps({"tool_name": "Bash", "tool_input": {"command": command}, "cwd": cwd})
    # as root, file modes mean nothing: drop CAP_DAC_OVERRIDE/CAP_DAC_READ_SEARCH for the child (the interpreter
    # lives under /root, so switching to another uid is not an option)
    pre = [SETPRIV, "--bounding-set=-dac_override,-dac_read_search", "--inh-caps=-dac_override,-dac_read_search"] if as_nobody else []
    p = subprocess.run(pre + ["/venv/bin/python", os.path.join(lib.REPO, "bin", "dippy-hook")], input=payload, capture_output=True,
                       text=True, env=env, cwd="/", timeout=60)
    try:
        d = json.loads(p.stdout)
    except ValueError:
        return "garbled", p.returncode, p.stdout[-300:] + p.stderr[-300:]
    if d == {}:
        return "defer", p.returncode, ""
    act = (d.get("hookSpecificOutput") or {}).get("permissionDecision")
    return act or "garbled", p.returncode, p.stdout[-300:]


SETPRIV = shutil.which("setpriv") or "/usr/bin/setpriv"


def hook_layouts(tier, rng):
    outs = [{"user": "ok", "project": "ok", "env": "ok"}, {"user": "absent", "project": "absent", "env": "absent"},
            {"user": "dir", "project": "dangling", "env": "loop"}, {"user": "ok", "project": "dir", "env": "empty"}]
    if tier == "quick":
        for layer in LAYERS:
            for k in kinds_for(layer):
                if k in ("ok", "absent"):
                    continue
                for other in ("absent", "ok"):
                    lay = {l: other for l in LAYERS}
                    lay[layer] = k
                    outs.append(lay)
        for _ in range(16):
            outs.append({l: rng.choice(kinds_for(l)) for l in LAYERS})
    else:
        for u in kinds_for("user"):
            for p in kinds_for("project"):
                for e in kinds_for("env"):
                    outs.append({"user": u, "project": p, "env": e})
    seen, uniq = set(), []
    for lay in outs:
        key = tuple(lay[l] for l in LAYERS)
        if key not in seen:
            seen.add(key)
            uniq.append(lay)
    return uniq


def hook_one(base, idx, layout, as_nobody):
    root = os.path.join(base, f"l{idx}")
    os.makedirs(root)
    try:
        env, cwd = build_layout(root, layout)
        probes = ["ls"] + [PROBE[l] for l in LAYERS if layout[l] == "ok"]
        return [(c,) + run_hook(env, cwd, c, as_nobody) for c in probes]
    finally:
        for r, ds, fs in os.walk(root):
            try:
                os.chmod(r, 0o755)
            except OSError:
                pass
        shutil.rmtree(root, ignore_errors=True)


def hook_check(out, model, home, tier, rng, only=None):
    as_nobody = os.geteuid() == 0
    layouts = [only] if only else hook_layouts(tier, rng)
    if as_nobody and not os.path.exists(SETPRIV):
        out.notes.append("running as root without setpriv: mode-000 layers skipped")
        layouts = [l for l in layouts if not any(k in ("unreadable", "noaccess") for k in l.values())]
        as_nobody = False
    base = tempfile.mkdtemp(prefix="dippy-verif-")
    os.chmod(base, 0o755)
    try:
        with cf.ThreadPoolExecutor(max_workers=8) as ex:
            results = list(ex.map(lambda t: hook_one(base, t[0], t[1], as_nobody), enumerate(layouts)))
    finally:
        shutil.rmtree(base, ignore_errors=True)
    for layout, res in zip(layouts, results):
        broken = [l for l in LAYERS if layout[l] in BROKEN]
        stage = model.call(["cfg_stage", lib.opt(home), [wire_layer(l, layout[l]) for l in LAYERS]], ct.ORACLES)[0]
        out.case(["hook", layout], nontrivial=bool(broken))
        out.count("hook_layout", "broken" if broken else "usable")
        for l in LAYERS:
            out.count("hook_" + l, layout[l])
        for command, action, rc, tail in res:
            out.count("hook_answer", action)
            if broken and action not in ("ask", "defer"):
                out.violations.append({
                    "kind": "hook", "replay_kind": "hook", "layout": layout, "command": command, "answer": action, "rc": rc,
                    "what": f"layer(s) {broken} cannot be read/decoded but the hook answered {action!r} for {command!r}",
                    "output": tail, "signature_text": "hook:" + ",".join(f"{l}={layout[l]}" for l in LAYERS) + ":" + command})
            if not broken and action != "allow":
                out.disagreements.append({"correspondence": "control: with every layer usable the probe is allowed", "layout": layout,
                                          "command": command, "impl": action, "output": tail})
            impl_stage = {"ask": "ask", "defer": "defer", "allow": "analyse"}.get(action, action)
            if impl_stage != stage:
                out.disagreements.append({"correspondence": "ConfigText.config_stage <-> bin/dippy-hook", "layout": layout,
                                          "command": command, "model": stage, "impl": action, "output": tail})
        out.sample({"hook_layout": layout, "answers": [(c, a) for c, a, _, _ in res]}, limit=16)


# ---------------------------------------------------------------- round trip
def value_stream(tier, rng):
    msgs = [None, "", "m", "be careful", 'say "hi"', BS, BS * 2, BS * 3, 'a' + BS, BS + DQ, DQ, DQ * 2, ' "', '" ', "a |", "|",
            "x\ty", " lead", "trail ", "#", "~"] + [f"a{s}b" for s in ct.SEPARATORS] + ["\x00", "\ud800", "\udc80", "\u202eabc", "e\u0301"]
    pats = ["git status", "rm -rf *", 'echo "hi', 'a"', 'say "x y"', "x|", "a |", "|", "a | b", "~user/x", "https://h/~", "a~", "#x",
            "mcp__gh__*", BS, "a" + BS, "x\x00y", "\ud800", "\u202ex", "K\u212a", "~", "~/x", "a  b", "a\tb", " a", "a "]
    out = []
    for d in ct.RULE_DIRECTIVES:
        for p in pats:
            for ex in (False, True):
                for m in msgs:
                    out.append((d, p, ex, m))
    rng.shuffle(out)
    n_sys, n_rnd = (4000, 4000) if tier == "quick" else (len(out), 150000)
    out = out[:n_sys]
    names = list(ct.RULE_DIRECTIVES)
    for _ in range(n_rnd):
        d = rng.choice(names)
        _, _, msg, anchor, tilde = ct.RULE_DIRECTIVES[d]
        p = ct.rand_pattern(rng, tilde if rng.random() < 0.9 else not tilde)
        ex = anchor and rng.random() < 0.4 if rng.random() < 0.95 else True
        m = ct.rand_message(rng, 10) if (msg and rng.random() < 0.7) or rng.random() < 0.03 else None
        out.append((d, p, ex, m))
    return out


def expected_single(d, p, ex, m):
    lst, dec, *_ = ct.RULE_DIRECTIVES[d]
    lists = [[] for _ in ct.LISTS]
    lists[ct.LISTS.index(lst)] = [[dec, p, lib.opt(m), ex]]
    return ct.norm(["ok"] + lists + [[], "ask", None, False])


def check_value(out, model, home, parse_config, val, xcheck):
    d, p, ex, m = val
    py_wf = ct.wellformed(d, p, ex, m)
    line = ct.write_rule(d, p, ex, m)
    res = model.call(["cfg_write", d, p, ex, lib.opt(m), lib.opt(home)], ct.ORACLES, record=len(xcheck) < 60)
    if len(xcheck) < 60 and model.transcript is not None:
        xcheck.append((model.last_request, list(model.transcript), res))
    line_m, wf_m = res[0], res[1] == "1"
    out.case(["value", val], nontrivial=py_wf or wf_m)
    out.count("value_directive", d)
    out.count("value_wf", f"explicit={py_wf} coq={wf_m}")
    out.count("value_message", "none" if m is None else ("empty" if m == "" else ("escapes" if (BS in m or DQ in m) else "plain")))
    if line_m != line:
        out.disagreements.append({"correspondence": "ConfigText.write_rule <-> reference writer", "value": val, "model": line_m, "impl": line})
    if py_wf and not wf_m:
        out.disagreements.append({"correspondence": "explicit well-formedness implies ConfigText.wf_rule", "value": val})
    if "\n" in p or (m or "").count("\n"):
        return
    if py_wf or wf_m:
        iv, e = ct.impl_parse(parse_config, line)
        exp = expected_single(d, p, ex, m)
        if e is not None or iv != exp:
            rec = {"kind": "roundtrip", "replay_kind": "value", "value": [d, p, ex, m], "line": line, "expected": exp,
                   "parsed": iv if e is None else f"raised {type(e).__name__}: {e}", "home": home,
                   "what": "a well-formed rule does not survive write-then-parse", "signature_text": "roundtrip:" + line}
            if py_wf:
                out.violations.append(rec)
            else:
                out.disagreements.append({"correspondence": "ConfigText.wf_rule => round trip on the implementation", **rec})
        out.sample({"rule": [d, p, ex, m], "line": line}, limit=14)


def check_file(out, parse_config, home, vals):
    text = "\n".join(ct.write_rule(*v) for v in vals)
    iv, e = ct.impl_parse(parse_config, text)
    lists = [[] for _ in ct.LISTS]
    for d, p, ex, m in vals:
        lst, dec, *_ = ct.RULE_DIRECTIVES[d]
        lists[ct.LISTS.index(lst)].append([dec, p, lib.opt(m), ex])
    exp = ct.norm(["ok"] + lists + [[], "ask", None, False])
    out.case(["file", vals], nontrivial=len(vals) > 1)
    out.count("file_rules", min(len(vals), 10))
    if e is not None or iv != exp:
        out.violations.append({"kind": "roundtrip-file", "replay_kind": "text", "text": text, "expected": exp, "home": home,
                               "parsed": iv if e is None else f"raised {type(e).__name__}: {e}",
                               "what": "a file of well-formed rules does not survive write-then-parse", "signature_text": "roundtrip-file:" + text})


# ---------------------------------------------------------------- one text
def check_text(out, model, home, parse_config, loc, text, rng, xcheck, meta=None, metamorphic=False, malformed=None):
    iv, e = ct.impl_parse(parse_config, text)
    lines = text.split("\n")
    out.case(["text", text], nontrivial=any(l.strip() for l in lines))
    out.count("lines", min(len(lines), 12))
    if meta:
        out.count("directive", meta[0])
        out.count("shape", meta[1])
    if e is not None:
        out.count("impl_outcome", "raises " + type(e).__name__)
        out.violations.append({"kind": "raises", "replay_kind": "text", "text": text, "home": home,
                               "what": f"parse_config raised {type(e).__name__}: {e}", "signature_text": "raises:" + text})
    else:
        n_rules = sum(len(x) for x in iv[1:6])
        out.count("impl_outcome", "rules" if n_rules else ("settings/alias" if iv[6] or iv[7] != "ask" or iv[8] or iv[9] == "1" else "nothing kept"))
    rec = len(xcheck) < 60 and (out.evaluations % 97 == 0)
    mv = ct.model_parse(model, home, text, record=rec)
    if rec and model.transcript is not None:
        xcheck.append((model.last_request, list(model.transcript), mv))
    if (e is not None) or mv != iv:
        out.disagreements.append({"correspondence": "ConfigText.parse_config <-> config.parse_config", "text": text, "home": home,
                                  "model": mv, "impl": iv if e is None else f"raised {type(e).__name__}"})
    if e is not None:
        return
    exp = loc.fold(lines)
    if exp is not None and exp != iv:
        out.violations.append({"kind": "locality", "replay_kind": "text", "text": text, "home": home, "whole": iv, "fold_of_lines": exp,
                               "what": "parse_config(text) differs from the fold of its lines parsed one by one",
                               "signature_text": "locality:" + text})
    if metamorphic and len(lines) > 1:
        inert = [i for i, l in enumerate(lines) if loc.summary(l) != "raises" and loc.summary(l)["inert"]]
        if inert:
            i = rng.choice(inert)
            t2 = "\n".join(lines[:i] + lines[i + 1:])
            v2, e2 = ct.impl_parse(parse_config, t2)
            out.count("metamorphic", "delete-inert")
            if e2 is not None or v2 != iv:
                out.violations.append({"kind": "locality-delete", "replay_kind": "text", "text": text, "home": home, "deleted_line": lines[i],
                                       "what": "deleting a line that contributes nothing changed the parsed config",
                                       "signature_text": "locality-delete:" + text})
        if malformed:
            bad = rng.choice(malformed)
            i = rng.randint(0, len(lines))
            t3 = "\n".join(lines[:i] + [bad] + lines[i:])
            v3, e3 = ct.impl_parse(parse_config, t3)
            out.count("metamorphic", "insert-malformed")
            if e3 is not None or v3 != iv:
                out.violations.append({"kind": "locality-insert", "replay_kind": "text", "text": t3, "home": home, "inserted_line": bad,
                                       "what": "inserting a malformed line changed the parsed config (or raised)",
                                       "signature_text": "locality-insert:" + t3})


def run(tier, seed, replay=None):
    lib.use_repo()
    from dippy.core.config import parse_config

    rng = random.Random(seed)
    out = core.Outcome("C11")
    model = lib.Model()
    xcheck = []
    try:
        with ct.home_env(HOME) as home:
            loc = Locality(parse_config)
            if replay:
                k = replay.get("replay_kind")
                if k == "text":
                    check_text(out, model, home, parse_config, loc, replay["text"], rng, xcheck, metamorphic=True)
                elif k == "value":
                    check_value(out, model, home, parse_config, tuple(replay["value"]), xcheck)
                elif k == "hook":
                    pass
                else:
                    out.notes.append("replay file has no replay_kind; nothing re-executed")
            else:
                sysm = systematic()
                pool = [t for _, _, t in sysm]
                for cls, name, text in sysm:
                    check_text(out, model, home, parse_config, loc, text, rng, xcheck, meta=(cls, name))
                malformed = [t for t in pool if t.strip() and not t.strip().startswith("#") and loc.summary(t) != "raises" and loc.summary(t)["inert"]]
                out.extra["malformed_pool"] = len(malformed)
                n_rand = 2500 if tier == "quick" else 120000
                for k in range(n_rand):
                    if k % 3 == 2:      # few distinct lines, drawn again and again: repeats and re-orderings are the rule
                        few = [rand_line(rng, pool) for _ in range(rng.randint(1, 4))]
                        text = "\n".join(rng.choice(few) for _ in range(rng.randint(2, 10)))
                        out.count("random_text", "1-4 distinct lines repeated")
                    else:
                        text = "\n".join(rand_line(rng, pool) for _ in range(rng.randint(1, 10)))
                        out.count("random_text", "independent lines")
                    check_text(out, model, home, parse_config, loc, text, rng, xcheck, metamorphic=True, malformed=malformed)
                # repetition / order: a line's effect does not depend on the lines before it, itself included
                reps = repetition_stream()
                if tier == "quick":
                    reps = reps[::2] if len(reps) > 2500 else reps
                for shape, text in reps:
                    out.count("repetition", shape)
                    check_text(out, model, home, parse_config, loc, text, rng, xcheck)
                # function-level ties (harness/cfgfuncs.py): every helper of the parser against its Gallina counterpart on all
                # short token sequences over the helper's own alphabet; each differing input is then put where the
                # property can see it (a config line / a rule value) for the locality and round-trip oracles
                from dippy.core import config as cfgmod
                diffs = cfgfuncs.run_ties(out, model, cfgmod, home, tier, rng)
                embed = {"unescape": ['ask x "{}"', 'deny-mcp m "{}"'], "extract": ["ask {}", "after-mcp {}"], "anchor": ["allow {}", "deny {}"],
                         "classify": ["allow {}", "alias {} t"], "tildes": ["allow-redirect {}", "alias {} t"], "setting": ["set {}"],
                         "line": ["{}"]}
                for name, inputs in diffs.items():
                    for sx in inputs[:40]:
                        for tpl in embed[name]:
                            check_text(out, model, home, parse_config, loc, tpl.format(sx) + "\nallow after", rng, xcheck, metamorphic=True,
                                       malformed=malformed)
                        if name in ("unescape", "extract") and "\n" not in sx:
                            check_value(out, model, home, parse_config, ("ask", "x", False, sx), xcheck)
                            check_value(out, model, home, parse_config, ("deny", sx.strip() or "x", False, "m"), xcheck)
                        if name == "anchor" and sx.strip() and "\n" not in sx:
                            check_value(out, model, home, parse_config, ("allow", sx.strip(), True, None), xcheck)
                # expanduser raises only what the model enumerates
                for v in ["~nosuchuser/x", "~\x00", "~\ud800/x", "~\udc80", "~", "~/x", "a\x00b", "", "~root", "~root/x", "\ud800"]:
                    try:
                        from pathlib import Path
                        Path(v).expanduser()
                        out.count("expanduser", "ok")
                    except (RuntimeError, ValueError) as e:  # noqa: PERF203
                        out.count("expanduser", type(e).__name__)
                    except Exception as e:  # noqa: BLE001
                        out.disagreements.append({"correspondence": "expanduser oracle raises only RuntimeError/ValueError", "value": v, "impl": repr(e)})
                vals = value_stream(tier, rng)
                good = []
                for val in vals:
                    check_value(out, model, home, parse_config, val, xcheck)
                    if ct.wellformed(*val) and "\n" not in val[1] and "\n" not in (val[3] or ""):
                        good.append(val)
                for _ in range(300 if tier == "quick" else 5000):
                    check_file(out, parse_config, home, [rng.choice(good) for _ in range(rng.randint(1, 8))])
        if not replay:
            # the excluded case of C11_total, shown on the real code: with an undeterminable home directory the
            # loop is left by RuntimeError exactly where the model says (and nowhere else)
            with ct.home_env("~") as nohome:
                assert nohome is None
                for cls, name, text in systematic()[::5]:
                    iv, e = ct.impl_parse(parse_config, text)
                    mv = ct.model_parse(model, None, text)
                    got = iv if e is None else ["exn", type(e).__name__]
                    out.count("no_home", "raises RuntimeError" if got == ["exn", "RuntimeError"] else ("ok" if e is None else f"raises {type(e).__name__}"))
                    if got != mv:
                        out.disagreements.append({"correspondence": "ConfigText.parse_config (home = None) <-> config.parse_config with HOME='~'",
                                                  "text": text, "model": mv, "impl": got})
        with ct.home_env(HOME) as home:
            only = replay.get("layout") if replay and replay.get("replay_kind") == "hook" else None
            if only or not replay:
                hook_check(out, model, home, tier, rng, only=only)
    finally:
        model.close()
    n, mism = core.coq_crosscheck("C11", xcheck[:80])
    out.extra["coq_vm_crosscheck"] = {"cases": n, "mismatches": len(mism)}
    if mism:
        out.disagreements.append({"correspondence": "extracted OCaml model <-> vm_compute in Coq", "detail": mism[:5]})
    out.extra["rule"] = (
        "systematic: every directive spelling (13 names, upper case, KELVIN SIGN for k, unknown, comment, blank) x every argument "
        "shape (no arg, pattern, pattern+message, | anchor, message only, unterminated/escaped final quote, backslash runs 0-4, tabs, "
        "every str.splitlines separator, CR, NUL, lone surrogates, RTL, combining, all `set`/`alias` forms) with and without outer "
        "white space; random: texts of 1-10 lines drawn from that pool and from random character soup, each with one inert-line "
        "deletion and one malformed-line insertion (every third text draws its lines from only 1-4 distinct lines, so repeats and "
        "re-orderings are the rule); repetition/order: every ordered pair (a, b) of 31 representative lines (one per directive and "
        "argument class, settings, aliases redefined, inert lines, spelling variants) as a b / a b a / a a b / b a a b / a a / a a a, "
        "judged by the fold-of-lines oracle; rule values: 11 directives x 26 patterns x |? x 33 messages (sampled in quick) "
        "plus random values, written by the reference writer and parsed back, singly and as files of 1-8 rules; hook: "
        "user/project/env layer each in {ok, absent, dir, dangling, loop, undecodable, mode 000 (run as nobody), EIO, "
        "unsearchable parent, ~nosuchuser, empty} through bin/dippy-hook; function-level ties (harness/cfgfuncs.py): _unescape, "
        "_extract_message, _strip_exact_anchor, _classify_token, _expand_pattern_tildes, _apply_setting and the one-line step of "
        "parse_config against the Gallina functions on ALL sequences of up to 3-6 tokens over each helper's own alphabet (literals "
        "it tests, near misses, a neutral token) plus random longer ones; differing inputs are embedded in config lines and rule "
        "values for the locality / round-trip oracles. distinct = distinct texts / values / layouts; "
        "non-trivial = a text with a non-blank line, a value accepted by a well-formedness predicate, a layout with a broken layer")
    return out
