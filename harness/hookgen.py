"""Input generators shared by the hook properties (C06, C12, C14 routing, C19)."""
from __future__ import annotations

import copy
import json

from .hooklib import Case

MISSING = object()

# one representative of every JSON type and truthiness
TYPES = [
    ("missing", MISSING), ("null", None), ("true", True), ("false", False), ("zero", 0), ("int", 7),
    ("float", 1.5), ("empty_str", ""), ("str", "x"), ("empty_arr", []), ("arr", ["a"]),
    ("empty_obj", {}), ("obj", {"a": 1}),
]

SHAPES = ("claude", "gemini", "cursor")


def base_input(shape: str, command, cwd, tool_name=None, **extra):
    """A host's own input shape around a command (docs/hook-systems/*.md)."""
    if shape == "claude":
        d = {"session_id": "s1", "hook_event_name": "PreToolUse", "tool_name": tool_name or "Bash",
             "tool_input": {"command": command}, "cwd": cwd, "permission_mode": "default"}
    elif shape == "gemini":
        d = {"hook_event_name": "BeforeTool", "tool_name": tool_name or "run_shell_command",
             "tool_input": {"command": command}, "cwd": cwd}
    else:
        d = {"command": command, "cwd": cwd, "hook_event_name": "beforeShellExecution", "conversation_id": "c1"}
    d.update(extra)
    return d


FIELDS = [("tool_name",), ("tool_input",), ("cwd",), ("hook_event_name",), ("permission_mode",), ("command",),
          ("tool_input", "command"), ("tool_input", "cwd")]


def set_path(d, path, value):
    """A copy of d with the field at path replaced (or removed for MISSING).  Returns None when the
    path cannot be set (the parent is absent in this shape and the value is MISSING)."""
    d = copy.deepcopy(d)
    cur = d
    for k in path[:-1]:
        if not isinstance(cur.get(k), dict):
            if value is MISSING:
                return None
            cur[k] = {}
        cur = cur[k]
    if value is MISSING:
        cur.pop(path[-1], None)
    else:
        cur[path[-1]] = copy.deepcopy(value)
    return d


def dumps(v) -> bytes:
    return json.dumps(v).encode("utf-8")


def type_grid(wd: str, command="ls"):
    """Every shape x every field x every JSON type."""
    for shape in SHAPES:
        base = base_input(shape, command, wd)
        for path in FIELDS:
            for tname, tval in TYPES:
                d = set_path(base, path, tval)
                if d is None:
                    continue
                yield Case(dumps(d), label=f"grid:{shape}:{'.'.join(path)}={tname}")


def nest(n: int, kind: str) -> bytes:
    if kind == "arr":
        return b"[" * n + b"]" * n
    return b'{"a":' * n + b"1" + b"}" * n
