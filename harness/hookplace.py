"""Field-placement stream of the hook properties (C06, C12, C19): WHERE in the payload a host-declared field is read.

The hook input is written by two parties.  The HOST writes the top level (hook_event_name, permission_mode, tool_name,
cwd, command for Cursor) and hands over tool_input, the tool call's argument object, which the MODEL wrote; the only
members of tool_input the hook may consult are the ones the host's schema puts there (command, and cwd as dippy.py's
documented fallback when the top level has none).  A key of the same NAME anywhere else is a decoy.

Dimensions (all crossed; the quick tier rotates the last two through the others, the thorough tier takes the product):
  field      every key dippy.py looks up in the payload (regenerated from the source: tools/tables/t06_hookkeys.py),
             joined with the fixed list below so that a key the code stops reading is still exercised; and FOREIGN keys no
             host writes (mode / flag / variable names, the members of the answer envelopes, configuration-like members),
             for which the top level is a decoy place as well
  value      per field, the values that would make the answer more lenient or route it elsewhere (bypass modes,
             PostToolUse, a shell / MCP / other tool name, an allowed command, a directory whose .dippy allows the probe),
             one neutral value, and (thorough) one of every JSON type
  place      inside tool_input; one and two levels deeper in tool_input; inside tool_response; inside another top-level
             object; inside a top-level array; inside a nested copy of the whole payload; as a top-level / tool_input
             key that is a near-miss SPELLING of the field (camelCase, upper case, padded, plural, truncated, ...);
             duplicated in the JSON text before the host's own member
  top state  what the top level holds for that field: the host's own value, nothing (key absent), null, "" (thorough:
             0, false, [], {}) - "empty / null at the top with a value below"
  host       Claude Code (Bash), Gemini CLI (every alias), Cursor, an MCP tool (allowed / asked / unmatched), another
             tool; Claude Code with a bypass mode declared at the top level
  forced mode  none, --claude, --gemini, --cursor (thorough and C12: the DIPPY_* variables too)
  event      the host's own pre-execution event / PostToolUse
  command    allow / ask / deny class (MCP: allow / ask / no rule)

Oracle (model-free, metamorphic): the answer for a payload with a decoy - stdout bytes, exit status - is the answer for the
same payload without it.  The one documented exception is tool_input.cwd while the top-level cwd is absent or falsy:
then the answer must be that of the payload with that directory as its top-level cwd.  It follows that an allow can
only come from the twin's own allow, and every allow of a decoy-free twin is traced to its origin (top-level bypass
mode, analysis of the host-level command in the host-level directory, or an allow-mcp rule) by harness/c06.py.

Volume: the sweep runs main() in-process (harness/hook_sweep_worker.py: one worker per forced mode, a few ms per payload);
every difference it finds is re-run as two real `bin/dippy-hook` processes and reported only when it shows there too.
A covering sample of the same space is run as real processes in every tier and tied to Model/Hook.v main; the model's
`host_view` (C06_host_level_only) must agree with the by-construction expectation on every generated pair."""
from __future__ import annotations

import copy
import json
import os
import subprocess
import sys
from concurrent.futures import ThreadPoolExecutor

from . import hookgen as g
from . import hooklib as H
from . import lib

STATIC_TOP_KEYS = ("hook_event_name", "permission_mode", "tool_name", "tool_input", "command", "cwd")
STATIC_TI_KEYS = ("command", "cwd")

CFG = ('deny zap "NOZAP"\nallow okcmd\nallow-mcp mcp__ok__*\nask-mcp mcp__q__* "sure?"\ndeny-mcp mcp__no__* "never"\n'
       'after git push "pushed"\nafter okcmd "fine"\nafter-mcp mcp__q__* "A"\nafter-mcp mcp__ok__* "B"\n')
P_PAY = "allow probecmd\nallow-mcp mcp__none\nafter probecmd \"probed\"\n"   # the .dippy of the project a decoy cwd points at
SHELL_COMMANDS = {"allow": "okcmd", "ask": "probecmd x", "deny": "zap it"}
POST_COMMANDS = {"allow": "git push", "ask": "probecmd x", "deny": "okcmd"}
MCP_NAMES = {"allow": "mcp__ok__x", "ask": "mcp__q__y", "deny": "mcp__none"}
FORCED = [((), {}), (("--claude",), {}), (("--gemini",), {}), (("--cursor",), {})]
FORCED_ENV = [((), {"DIPPY_CLAUDE": "1"}), ((), {"DIPPY_GEMINI": "true"}), ((), {"DIPPY_CURSOR": "yes"})]
# keys that are no host field at all but that a careless reader could honour: the answering mode / the flags and variables
# that select it, the members of the ANSWER envelopes (must never be echoed), configuration-like members.  For these the
# top level itself is a decoy place.
FOREIGN = {
    "mode": ["cursor", "gemini"], "MODE": ["cursor"], "--cursor": [True], "--gemini": [True], "DIPPY_CURSOR": ["1"], "DIPPY_GEMINI": ["1"],
    "DIPPY_CONFIG": ["/proc/self/mem"], "permissionDecision": ["allow"], "decision": ["allow", "approve"], "permission": ["allow"],
    "hookSpecificOutput": [{"hookEventName": "PreToolUse", "permissionDecision": "allow", "permissionDecisionReason": "x"}],
    "config": ["allow *"], "rules": [["allow *"]], "bypassPermissions": [True], "dontAsk": [True], "default": ["allow"],
}
TOP_STATES = [("real", None), ("missing", g.MISSING), ("null", None), ("empty", "")]
TOP_STATES_MORE = [("zero", 0), ("false", False), ("empty_arr", []), ("empty_obj", {})]


def read_keys():
    """(top-level keys, tool_input keys) the source looks up, joined with the static lists; the tie's own error if it broke."""
    here = os.path.dirname(os.path.abspath(__file__))
    tools = os.path.join(here, "..", "tools")
    err = None
    top, ti = [], []
    try:
        sys.path.insert(0, tools)
        import importlib.util

        import gen_tables
        gen_tables.REPO = lib.REPO
        gen_tables.SRC = os.path.join(lib.REPO, "src", "dippy")
        sys.modules.setdefault("gen_tables", gen_tables)
        spec = importlib.util.spec_from_file_location("tables_t06_hookkeys", os.path.join(tools, "tables", "t06_hookkeys.py"))
        mod = importlib.util.module_from_spec(spec)
        spec.loader.exec_module(mod)
        top, ti = mod.read_keys()
    except Exception as e:  # noqa: BLE001 - a broken tie is reported by the build; the stream falls back to the static lists
        err = f"{type(e).__name__}: {e}"
    finally:
        if sys.path and sys.path[0] == tools:
            sys.path.pop(0)
    top = list(dict.fromkeys(list(STATIC_TOP_KEYS) + list(top)))
    ti = list(dict.fromkeys(list(STATIC_TI_KEYS) + list(ti)))
    return top, ti, err


def key_spellings(k: str):
    """Near-miss spellings of a key (never the key itself)."""
    parts = k.split("_")
    camel = parts[0] + "".join(p.title() for p in parts[1:])
    cands = [camel, camel[:1].upper() + camel[1:], k.upper(), k.title(), k + " ", " " + k, k + "_", "_" + k, k.replace("_", "-"),
             k.replace("_", ""), k.replace("_", "."), k + "s", k[:-1], "x" + k, k + "\u200b", k.replace("o", "0", 1), "tool_input." + k]
    out = []
    for c in cands:
        if c != k and c not in out and c not in STATIC_TOP_KEYS:
            out.append(c)
    return out


def decoy_values(field, pay, tier):
    vals = {
        "permission_mode": ["bypassPermissions", "dontAsk", "default"],
        "hook_event_name": ["PostToolUse", "PreToolUse"],
        "tool_name": ["Bash", "mcp__ok__x", "Read", "run_shell_command"],
        "tool_input": [{"command": "okcmd"}, {"command": "okcmd", "cwd": pay, "permission_mode": "bypassPermissions"}],
        "command": ["okcmd", "zap it"],
        "cwd": [pay],
    }.get(field, ["bypassPermissions", "okcmd"])
    extras = [None, 5, True, [vals[0]], {"a": vals[0]}, ""] if tier == "thorough" else []
    return vals, extras


# ---------------------------------------------------------------- hosts
def hosts(wd, tier):
    """name -> function (event, klass) -> payload (a dict in the host's own shape)."""
    def shell(shape, alias=None, **extra):
        def f(event, klass):
            cmd = (POST_COMMANDS if event == "post" else SHELL_COMMANDS)[klass]
            d = g.base_input(shape, cmd, wd, tool_name=alias, **extra)
            if event == "post":
                d["hook_event_name"] = "PostToolUse"
                d["tool_response"] = {"stdout": "", "exit_code": 0}
            return d
        return f

    def tool(names, tool_input):
        def f(event, klass):
            d = {"session_id": "s1", "hook_event_name": "PostToolUse" if event == "post" else "PreToolUse", "tool_name": names[klass],
                 "tool_input": dict(tool_input), "cwd": wd, "permission_mode": "default"}
            return d
        return f

    hs = {"claude": shell("claude"), "gemini": shell("gemini"), "cursor": shell("cursor"),
          "mcp": tool(MCP_NAMES, {"x": 1}), "other": tool({"allow": "Read", "ask": "Write", "deny": "Task"}, {"file_path": "/etc/passwd"}),
          "claude+bypass": shell("claude", permission_mode="bypassPermissions")}
    if tier == "thorough":
        for a in H.GEMINI_ALIASES:
            if a != "run_shell_command":
                hs["gemini:" + a] = shell("gemini", a)
        hs["mcp+bypass"] = lambda ev, k: {**tool(MCP_NAMES, {"x": 1})(ev, k), "permission_mode": "dontAsk"}
    return hs


# ---------------------------------------------------------------- places
def _ti(d):
    ti = d.get("tool_input", g.MISSING)
    if ti is g.MISSING:
        d["tool_input"] = {}
    elif not isinstance(ti, dict):
        return None
    return d["tool_input"]


def place_tool_input(d, f, v):
    ti = _ti(d)
    if ti is None:
        return None
    ti[f] = v
    return d


def place_ti_nested(d, f, v):
    ti = _ti(d)
    if ti is None:
        return None
    ti["env"] = {f: v}
    return d


def place_ti_ti(d, f, v):
    ti = _ti(d)
    if ti is None:
        return None
    ti["tool_input"] = {f: v, "tool_input": {f: v}}
    return d


def place_tool_response(d, f, v):
    tr = d.get("tool_response")
    d["tool_response"] = {**(tr if isinstance(tr, dict) else {}), f: v}
    return d


def place_other_object(d, f, v):
    d["session"] = {f: v, "inner": {f: v}}
    return d


def place_array(d, f, v):
    d["extra"] = [{f: v}, [f, v], f]
    return d


def place_copy(d, f, v):
    inner = copy.deepcopy(d)
    inner[f] = v
    d["payload"] = inner
    return d


PLACES = [("tool_input", place_tool_input), ("tool_input.env", place_ti_nested), ("tool_input.tool_input", place_ti_ti),
          ("tool_response", place_tool_response), ("session", place_other_object), ("array", place_array), ("copy", place_copy)]


def dumps_dup_first(d, f, v):
    """JSON text with the decoy member FIRST and the host's own member of the same name later (json.load keeps the last)."""
    if f not in d:
        return None
    body = json.dumps(d)
    return ("{" + json.dumps(f) + ": " + json.dumps(v) + ", " + body[1:])


# ---------------------------------------------------------------- the space
class Item:
    __slots__ = ("text", "twin", "twin2", "label", "dims", "expect", "flags", "env", "field", "value", "out", "exc")

    def __init__(self, **kw):
        for k in self.__slots__:
            setattr(self, k, kw.get(k))


def falsy(v):
    return v is g.MISSING or not v


def build(wd, pay, tier, fields=None, events=("pre", "post"), forced=None, rotate=True, host_names=None):
    """-> list of Item.  rotate=True: event / command class are rotated through the product of the other dimensions
    (every pair of values of two dimensions still occurs); rotate=False: full product."""
    top_keys, ti_keys, _ = read_keys()
    foreign = FOREIGN if fields is None else {}
    fields = [f for f in top_keys if fields is None or f in fields] + list(foreign)
    hs = hosts(wd, tier)
    if host_names:
        hs = {k: v for k, v in hs.items() if k in host_names}
    forced = forced or (FORCED + (FORCED_ENV if tier == "thorough" else []))
    states = TOP_STATES + (TOP_STATES_MORE if tier == "thorough" else [])
    classes = ("allow", "ask", "deny")
    items = []
    n = 0
    for f in fields:
        if f in foreign:
            places = list(PLACES[:4]) + [("top-level:" + f, f)]
            base_vals, extra_vals = foreign[f], []
        else:
            places = list(PLACES) + [("dup-first", None)]
            places += [("spelling:" + s, s) for s in key_spellings(f)]
            if f in ti_keys:
                places += [("tool_input-spelling:" + s, ("ti", s)) for s in key_spellings(f)[:8]]
            base_vals, extra_vals = decoy_values(f, pay, tier)
        for vi, v in enumerate(base_vals + extra_vals):
            for pname, pfun in places:
                spelling = isinstance(pfun, (str, tuple))
                if spelling and vi >= len(base_vals):
                    continue        # near-miss spellings: the attractive values only
                for sname, sval in states:
                    if (spelling and sname not in ("real", "missing")) or (f in foreign and sname != "real"):
                        continue
                    for hname, hfun in hs.items():
                        for ev_cl in ([(e, c) for e in events for c in classes] if not rotate else [None]):
                            if ev_cl is None:
                                n += 1
                                ev, cl = events[n % len(events)], classes[(n // len(events)) % 3]
                            else:
                                ev, cl = ev_cl
                            base = hfun(ev, cl)
                            # the top-level state of the field
                            if sname != "real":
                                if sval is g.MISSING:
                                    if f not in base:
                                        continue        # same as "real" for this host
                                    base.pop(f)
                                else:
                                    base[f] = None if sname == "null" else copy.deepcopy(sval)
                            # places that are the host's own field are not decoys
                            if pname == "tool_input" and f == "command" and "tool_name" in base:
                                continue
                            if pname.startswith("tool_input") and not isinstance(base.get("tool_input", {}), dict):
                                continue
                            twin_text = json.dumps(base)
                            d = copy.deepcopy(base)
                            if pname == "dup-first":
                                if sname != "real":
                                    continue
                                text = dumps_dup_first(d, f, v)
                            elif isinstance(pfun, str):
                                d[pfun] = v
                                text = json.dumps(d)
                            elif isinstance(pfun, tuple):
                                ti = _ti(d)
                                if ti is None:
                                    continue
                                ti[pfun[1]] = v
                                text = json.dumps(d)
                            else:
                                d = pfun(d, f, v)
                                text = json.dumps(d) if d is not None else None
                            if text is None:
                                continue
                            expect, twin2 = "twin", None
                            if f == "cwd" and pname == "tool_input" and falsy(base.get("cwd", g.MISSING)) and v:
                                # the documented fallback: tool_input.cwd counts when the top level has no usable cwd
                                t2 = copy.deepcopy(base)
                                t2["cwd"] = v
                                expect, twin2 = "cwd-fallback", json.dumps(t2)
                            for flags, env in forced:
                                items.append(Item(text=text, twin=twin_text, twin2=twin2, expect=expect, flags=flags, env=env, field=f,
                                                  value=v, label=f"place:{f}:{pname}:{sname}:{hname}:{ev}:{cl}",
                                                  dims={"field": f, "value": json.dumps(v)[:40], "place": pname.split(":")[0], "top": sname,
                                                        "host": hname, "event": ev, "class": cl,
                                                        "forced": " ".join(flags) or ",".join(f"{k}={x}" for k, x in env.items()) or "auto"}))
    return items


# ---------------------------------------------------------------- running the sweep in-process
def sweep(sc: H.Scratch, items, user_cfg=CFG, proj_cfg=None, workers=4):
    """Run every distinct (text, forced mode) of the items through main() in-process.  -> {(text, flags, envkey): (out, exc)}"""
    groups = {}
    for it in items:
        k = (it.flags, tuple(sorted(it.env.items())))
        s = groups.setdefault(k, {})
        for t in (it.text, it.twin, it.twin2):
            if t is not None and t not in s:
                s[t] = len(s)
    cwd = sc.proj(proj_cfg)
    home = sc.home(user_cfg)

    def run_group(kv):
        (flags, envk), texts = kv
        env = {"HOME": home, "PATH": "/usr/bin:/bin", "PYTHONHASHSEED": "0", **dict(envk)}
        order = sorted(texts, key=texts.get)
        jobs = "".join(json.dumps({"i": i, "stdin": t}) + "\n" for i, t in enumerate(order))
        p = subprocess.run([H.PY, os.path.join(H.HERE, "hook_sweep_worker.py"), lib.REPO, *flags], input=jobs.encode(), capture_output=True,
                           cwd=cwd, env=env, timeout=1500)
        res = {}
        for line in p.stdout.decode("utf-8", "replace").split("\n"):
            if line.startswith("{"):
                r = json.loads(line)
                res[(order[r["i"]], flags, envk)] = (r["out"], r["exc"])
        if len(res) != len(order):
            raise RuntimeError(f"sweep worker for {flags} {envk} answered {len(res)} of {len(order)} jobs: rc={p.returncode} "
                               f"{p.stderr[-400:].decode('utf-8', 'replace')}")
        return res

    results = {}
    with ThreadPoolExecutor(max_workers=workers) as ex:
        for r in ex.map(run_group, list(groups.items())):
            results.update(r)
    return results


def judge_sweep(items, results):
    """-> list of (item, what, got, want) for every item whose in-process answer breaks the expectation."""
    bad = []
    for it in items:
        k = (it.flags, tuple(sorted(it.env.items())))
        got = results[(it.text, *k)]
        want = results[(it.twin if it.expect == "twin" else it.twin2, *k)]
        it.out = got
        if got != want:
            bad.append((it, got, want))
    return bad


def confirm(sc: H.Scratch, suspects, user_cfg=CFG, proj_cfg=None, limit=24):
    """Re-run suspects as real processes: -> list of (Case with decoy, Case without, item) that differ there too, and the
    number that did not reproduce."""
    pairs = []
    for it, _, _ in suspects[:limit]:
        a = H.Case(it.text.encode(), label=it.label, flags=it.flags, env=dict(it.env), user_cfg=user_cfg, proj_cfg=proj_cfg)
        b = H.Case((it.twin if it.expect == "twin" else it.twin2).encode(), label="twin", flags=it.flags, env=dict(it.env),
                   user_cfg=user_cfg, proj_cfg=proj_cfg)
        pairs.append((a, b, it))
    H.run_cases(sc, [c for a, b, _ in pairs for c in (a, b)])
    real = [(a, b, it) for a, b, it in pairs if (a.out, a.rc) != (b.out, b.rc) or H.has_traceback(a)]
    return real, len(pairs) - len(real)


COVER_PAIRS = [("field", "place"), ("place", "host"), ("place", "top"), ("host", "forced"), ("field", "host"), ("top", "host"),
               ("field", "top"), ("place", "forced")]


def covering_sample(items, limit=None, seed=0):
    """A subset in which every pair of values of the dimension pairs COVER_PAIRS that occurs in the stream occurs too
    (greedy over a fixed pseudo-random order; the items covering most new pairs first)."""
    import random

    order = list(items)
    random.Random(seed).shuffle(order)
    seen = set()
    out = []
    for need in (6, 4, 2, 1):
        for it in order:
            pairs = {(a, it.dims[a], b, it.dims[b]) for a, b in COVER_PAIRS}
            if len(pairs - seen) >= need:
                seen |= pairs
                out.append(it)
                if limit and len(out) >= limit:
                    return out
    return out


def report_violation(out, sc, a, b, it, prop_kind):
    if it.dims.get("stream") == "value":
        out.violations.append({"kind": prop_kind, "what": f"`{it.field}` = {it.dims['value']} is only a near-miss of the literal {it.dims['place']!r}, "
                               f"but it is not answered like the neutral value: {a.out[:200].decode('utf-8', 'replace')!r} vs "
                               f"{b.out[:200].decode('utf-8', 'replace')!r}", **H.describe(a, sc), "dimensions": it.dims,
                               "twin_case": b.to_json(), "expect": it.expect,
                               "with_neutral_value": {"stdin": b.data.decode("utf-8", "replace"), "stdout": b.out[:400].decode("utf-8", "replace"), "exit": b.rc},
                               "signature_text": f"near-miss-value-honoured | {it.field} | {it.dims['place']}"})
        return
    what = (f"a `{it.field}` key that the host did not write ({it.dims['place']}, value {it.dims['value']}; top level: {it.dims['top']}) "
            f"changes the answer: with it {a.out[:200].decode('utf-8', 'replace')!r}, without it {b.out[:200].decode('utf-8', 'replace')!r}"
            if it.expect == "twin" else
            f"tool_input.cwd with no usable top-level cwd is not treated as the working directory: {a.out[:200]!r} vs {b.out[:200]!r}")
    out.violations.append({"kind": prop_kind, "what": what, **H.describe(a, sc), "dimensions": it.dims,
                           "twin_case": b.to_json(), "expect": it.expect,
                           "without_decoy": {"stdin": b.data.decode("utf-8", "replace"), "stdout": b.out[:400].decode("utf-8", "replace"), "exit": b.rc},
                           "signature_text": f"decoy-changes-answer | {it.field} | {it.dims['place']}"})


def view_tie(hm, out, items, limit=400):
    """Model/HookView.v host_view on generated pairs: equal views exactly where the stream expects the decoy to be inert
    (C06_host_level_only then says the model's main() answers alike), different views for the cwd fallback."""
    n = 0
    seen = set()
    stride = max(1, len(items) // limit)
    for it in items[::stride]:
        k = (it.text, it.twin)
        if k in seen:
            continue
        seen.add(k)
        n += 1
        try:
            va = hm.model.call(["hook_view", H.jsx(json.loads(it.text))])
            if n % 40 == 1:     # a few of them are re-evaluated inside Coq (vm_compute) by the caller's coq_crosscheck
                out.xview = getattr(out, "xview", []) + [(hm.model.last_request, [], va)]
            vb = hm.model.call(["hook_view", H.jsx(json.loads(it.twin))])
        except lib.ModelError as e:
            out.disagreements.append({"correspondence": "Hook host_view <-> placement stream", "model": f"error {e}", "stdin": it.text[:500]})
            hm.restart()
            continue
        same = va == vb
        # the view keeps tool_input.command / tool_input.cwd whatever the shape (it is the read set, not the routing): a decoy
        # there may be inert although the views differ; everywhere else equal views <=> the stream expects an inert decoy
        conservative = it.dims["place"] == "tool_input" and it.field in STATIC_TI_KEYS
        out.count("host_view", "equal" if same else ("differ:read-key-of-tool_input" if conservative else "differ"))
        if (same and it.expect != "twin") or (not same and it.expect == "twin" and not conservative):
            out.disagreements.append({"correspondence": "Hook host_view <-> placement stream", "model": f"views {'equal' if same else 'differ'}",
                                      "impl": f"stream expects {it.expect}", "stdin": it.text[:600], "twin": it.twin[:600], "dimensions": it.dims})
    out.extra["host_view_pairs"] = out.extra.get("host_view_pairs", 0) + n


# ---------------------------------------------------------------- one call for the three checks
def run_placement(sc: H.Scratch, out, tier, kind, hm=None, sample_limit=90, tag="placement_sweep", **build_kw):
    """The whole placement stream for one check: exhaustive in-process sweep (+ confirmation by real processes), the
    covering sample as real processes (decoy and twin), the host_view tie.  Returns the sample's decoy Cases (already run,
    `.place` = the Item, `.place_twin` = the finished twin Case) so that the caller can add its own oracle and tie them to
    Model/Hook.v main, and the list of (twin text, flags, env, stdout) of decoy-free payloads that were answered."""
    wd, pay = sc.proj(None), sc.proj(P_PAY)
    items = build(wd, pay, tier, **build_kw)
    return run_items(sc, out, kind, items, hm=hm, sample_limit=sample_limit, tag=tag)


def run_items(sc: H.Scratch, out, kind, items, hm=None, sample_limit=90, tag="placement_sweep", view=True):
    import time

    t0 = time.time()
    results = sweep(sc, items)
    suspects = judge_sweep(items, results)
    for it in items:
        out.evaluations += 1
        for dim in ("field", "place", "top", "host", "forced", "event"):
            out.count(it.dims.get("stream", "place") + "_" + dim, it.dims[dim])
        out.count(it.dims.get("stream", "place") + "_expect", it.expect)
    out.distinct.update(lib.sha(["place", t, list(f), list(e)]) for (t, f, e) in results)
    real, not_reproduced = confirm(sc, suspects)
    for a, b, it in real:
        report_violation(out, sc, a, b, it, kind)
    if not_reproduced:
        it, got, want = suspects[0]
        out.disagreements.append({"correspondence": "in-process sweep (hook_sweep_worker.py) <-> bin/dippy-hook process",
                                  "detail": f"{not_reproduced} differences seen in-process did not show in real processes",
                                  "stdin": it.text[:600], "in_process": [got, want]})
    # anything main() let escape in-process: run for real, judged by exit status / traceback
    crashed = [it for it in items if it.out and it.out[1]]
    if crashed:
        cs = [H.Case(it.text.encode(), label=it.label, flags=it.flags, env=dict(it.env), user_cfg=CFG) for it in crashed[:12]]
        H.run_cases(sc, cs)
        for c in cs:
            if c.rc != 0 or H.has_traceback(c):
                out.violations.append({"kind": kind, "what": f"exit status {c.rc} / traceback", **H.describe(c, sc),
                                       "signature_text": f"exit-status | {c.label}"})
    out.extra[tag] = {"payloads_with_decoy": len(items), "distinct_process_inputs": len(results),
                                    "in_process_differences": len(suspects), "confirmed_by_real_processes": len(real),
                                    "seconds": round(time.time() - t0, 1)}
    # the covering sample as real processes
    sample = covering_sample(items, limit=sample_limit)
    cases = []
    for it in sample:
        a = H.Case(it.text.encode(), label=it.label, flags=it.flags, env=dict(it.env), user_cfg=CFG)
        b = H.Case((it.twin if it.expect == "twin" else it.twin2).encode(), label="place-twin", flags=it.flags, env=dict(it.env), user_cfg=CFG)
        a.place, a.place_twin = it, b
        cases.append(a)
    H.run_cases(sc, [c for a in cases for c in (a, a.place_twin)])
    for a in cases:
        b = a.place_twin
        out.count(a.place.dims.get("stream", "place") + "_sample", a.place.dims["place"])
        if (a.out, a.rc) != (b.out, b.rc):
            report_violation(out, sc, a, b, a.place, kind)
    if hm is not None and view:
        view_tie(hm, out, items)
    twins = {}
    for it in items:
        k = (it.twin, it.flags, tuple(sorted(it.env.items())))
        if k not in twins:
            twins[k] = results[k][0]
    out.extra[tag]["sample_processes"] = 2 * len(cases)
    out.extra[tag]["total_seconds"] = round(time.time() - t0, 1)
    return cases, twins


def replay_pair(sc: H.Scratch, out, replay, kind):
    """A placement violation replayed: both processes again, same comparison."""
    a = H.replay_case(sc, replay)
    a.user_cfg = replay["case"].get("user_cfg")
    b = H.replay_case(sc, {**replay, "case": replay["twin_case"]})
    H.run_cases(sc, [a, b])
    out.case(a.key())
    if (a.out, a.rc) != (b.out, b.rc):
        it = Item(field=replay.get("dimensions", {}).get("field", "?"), dims=replay.get("dimensions", {}), expect=replay.get("expect", "twin"))
        report_violation(out, sc, a, b, it, kind)
    return a


# ---------------------------------------------------------------- value families: near-miss spellings of every literal
def value_spellings(v: str, literals):
    """Near-miss spellings of a literal VALUE the hook compares a host field with (never a literal itself)."""
    parts = v.split("_")
    camel = parts[0] + "".join(p.title() for p in parts[1:])
    snake = "".join(("_" + ch.lower()) if ch.isupper() and i else ch.lower() for i, ch in enumerate(v))
    cands = [v.upper(), v.lower(), v.title(), v.swapcase(), v.capitalize(), v[:1].lower() + v[1:], v + " ", " " + v, v + "\n", "\t" + v,
             v + "\x00", v + "s", v + "_", v + "1", v[:-1], v[1:], "x" + v, v + v, v + "," + v, v.replace("_", ""), v.replace("_", "-"),
             camel, snake, v[:4], v[:6], v[: len(v) // 2], v + "\u200b", v.replace("a", "\u0430", 1), v.replace("o", "0", 1), "--" + v, v + "=true",
             '"' + v + '"', v.encode().hex()]
    out = []
    for c in cands:
        if c not in literals and c not in out:
            out.append(c)
    return out + [[v], {v: True}, {"mode": v}, [v, v]]


def build_values(wd, tier, forced=None):
    """Host-level fields holding a near-miss of a literal the hook tests for: answered exactly like the neutral value."""
    forced = forced or (FORCED + (FORCED_ENV if tier == "thorough" else []))
    hs = hosts(wd, tier)
    families = [   # field, literals, neutral value, hosts, usable(spelling)
        ("permission_mode", list(H.BYPASS), "default", ("claude", "gemini", "cursor", "mcp", "other"), lambda x: True),
        ("hook_event_name", ["PostToolUse"], "PreToolUse", ("claude", "gemini", "cursor", "mcp", "other"), lambda x: True),
        # a tool name that is neither a shell tool nor an MCP tool (mcp__ prefix) is not Dippy's business: {} like Read
        ("tool_name", list(H.SHELL_TOOLS) + ["mcp__ok__x", "mcp__q__y"], "Read", ("claude", "gemini", "mcp"),
         lambda x: not (isinstance(x, str) and x.startswith("mcp__"))),
    ]
    classes = ("allow", "ask", "deny")
    items = []
    n = 0
    for field, literals, neutral, hnames, usable in families:
        for lit in literals:
            for sp in value_spellings(lit, literals):
                if not usable(sp):
                    continue
                for hname in hnames:
                    for cl in (classes if tier == "thorough" else [classes[n % 3]]):
                        n += 1
                        base = hs[hname]("pre", cl)
                        twin = dict(base)
                        twin[field] = neutral
                        d = dict(base)
                        d[field] = sp
                        for flags, env in forced:
                            items.append(Item(text=json.dumps(d), twin=json.dumps(twin), expect="twin", flags=flags, env=env, field=field, value=sp,
                                              label=f"value:{field}:{lit}:{hname}:{cl}",
                                              dims={"stream": "value", "field": field, "value": json.dumps(sp)[:40], "place": lit, "top": "near-miss",
                                                    "host": hname, "event": "pre", "class": cl,
                                                    "forced": " ".join(flags) or ",".join(f"{k}={x}" for k, x in env.items()) or "auto"}))
    return items


def run_values(sc, out, tier, kind, hm=None, sample_limit=40, tag="value_family_sweep", **kw):
    items = build_values(sc.proj(None), tier, **kw)
    return run_items(sc, out, kind, items, hm=hm, sample_limit=sample_limit, tag=tag, view=False)


# ---------------------------------------------------------------- near-miss spellings of the mode flags / variables (C12)
def mode_spelling_runs(tier):
    """-> list of (flags, env, reference flags, reference env, label): argv words and DIPPY_* settings that are only near-misses
    of a mode flag / a truthy value / a variable name, each with the setting it must be equivalent to."""
    runs = []
    flags_all = ["--" + m for m in H.MODES]
    ok = lambda s: isinstance(s, str) and "\x00" not in s  # noqa: E731 - argv / environ cannot hold NUL
    for m in H.MODES:
        for sp in value_spellings("--" + m, flags_all):
            if ok(sp):
                runs.append(((sp,), {}, (), {}, f"flag:{m}"))
        runs.append((("--", "--" + m), {}, ("--" + m,), {}, f"flag-after-dashes:{m}"))   # `in sys.argv`: position is irrelevant
        runs.append((("x", "--" + m, "y"), {}, ("--" + m,), {}, f"flag-among-words:{m}"))
    truthy = ["1", "true", "yes"]
    for i, m in enumerate(H.MODES):
        var = "DIPPY_" + m.upper()
        vals = []
        for lit in truthy:
            vals += [x for x in value_spellings(lit, truthy) if ok(x)]
        vals += ["0", "false", "no", "off", "on", "y", "t", "2", "-1", "01", "1.0", "enabled", m, "--" + m]
        if tier != "thorough" and i != 2:
            vals = vals[::4]
        for v in dict.fromkeys(vals):
            ref = ((), {var: "1"}) if H.truthy_env(v) else ((), {})
            runs.append(((), {var: v}, ref[0], ref[1], f"env-value:{m}"))
        for name in (var.lower(), "DIPPY_" + m, var + "S", var.replace("_", "-"), var.replace("_", ""), var + "_MODE", m.upper(), "dippy_" + m,
                     " " + var, var + " "):
            runs.append(((), {name: "1"}, (), {}, f"env-name:{m}"))
        runs.append(((), {"DIPPY_MODE": m}, (), {}, f"env-name:{m}"))
        runs.append(((), {"MODE": m}, (), {}, f"env-name:{m}"))
    return runs


def run_mode_spellings(sc: H.Scratch, out, tier, kind="hosts"):
    """Every near-miss setting answers every payload exactly like the setting it is equivalent to (byte for byte)."""
    import time

    t0 = time.time()
    wd = sc.proj(None)
    hs = hosts(wd, "quick")
    payloads = [json.dumps(hs[h]("pre", cl)) for h in ("claude", "gemini", "cursor", "mcp") for cl in ("allow", "ask")]
    runs = mode_spelling_runs(tier)
    items = []
    for flags, env, rf, re_, label in runs:
        for t in payloads:
            items.append(Item(text=t, twin=t, expect="twin", flags=flags, env=env, field="mode", value=None, label="modespell:" + label,
                              dims={"stream": "modespell", "ref": (rf, re_)}))
            items.append(Item(text=t, twin=t, expect="twin", flags=rf, env=re_, field="mode", value=None, label="modespell:ref", dims={}))
    results = sweep(sc, items, workers=6)
    bad = []
    for it in items:
        if not it.dims:
            continue
        rf, re_ = it.dims["ref"]
        got = results[(it.text, it.flags, tuple(sorted(it.env.items())))]
        want = results[(it.text, rf, tuple(sorted(re_.items())))]
        out.evaluations += 1
        out.count("modespell", it.label.split(":")[1])
        if got != want:
            bad.append((it, got, want))
    out.distinct.update(lib.sha(["modespell", t, list(f), list(e)]) for (t, f, e) in results)
    confirmed = 0
    if bad:
        pairs = []
        for it, _, _ in bad[:16]:
            rf, re_ = it.dims["ref"]
            a = H.Case(it.text.encode(), label=it.label, flags=it.flags, env=dict(it.env), user_cfg=CFG)
            b = H.Case(it.text.encode(), label="modespell:ref", flags=rf, env=dict(re_), user_cfg=CFG)
            pairs.append((a, b, it))
        H.run_cases(sc, [c for a, b, _ in pairs for c in (a, b)])
        for a, b, it in pairs:
            if (a.out, a.rc) != (b.out, b.rc):
                confirmed += 1
                out.violations.append({"kind": kind, "what": f"flags {list(a.flags)} env {a.env} must select the mode exactly as flags {list(b.flags)} env {b.env} "
                                       f"do (a near-miss of a flag / value / variable name is not the thing itself; a truthy value is): "
                                       f"{a.out[:200].decode('utf-8', 'replace')!r} vs {b.out[:200].decode('utf-8', 'replace')!r}",
                                       **H.describe(a, sc), "reference": {"flags": list(b.flags), "env": b.env, "stdout": b.out[:300].decode("utf-8", "replace")},
                                       "signature_text": f"mode-spelling | {it.label}"})
        if confirmed < len(pairs):
            out.disagreements.append({"correspondence": "in-process sweep (hook_sweep_worker.py) <-> bin/dippy-hook process",
                                      "detail": f"{len(pairs) - confirmed} mode-spelling differences did not show in real processes",
                                      "flags": list(bad[0][0].flags), "env": bad[0][0].env})
    out.extra["mode_spelling_sweep"] = {"settings": len(runs), "payloads": len(payloads), "in_process_differences": len(bad),
                                        "confirmed_by_real_processes": confirmed, "seconds": round(time.time() - t0, 1)}
