"""Fault-injecting launcher for bin/dippy-hook (C15).

Runs the real hook in this process after patching ONE operation of one log sink so that its k-th
occurrence raises an exception of a chosen class.  The code under test is unmodified; the patch
stands for the file system misbehaving at exactly that call.

  C15_FAULT = {"site": setup_mkdir|setup_open|emit|expand|cfg_mkdir|dec_open|dec_write,
               "k": <0-based occurrence at that site> | "*", "exn": os|perm|value|runtime}
  argv[1]   = path of bin/dippy-hook, argv[2:] = flags for the hook
"""
import builtins
import errno
import json
import logging
import os
import pathlib
import runpy
import sys

spec = json.loads(os.environ.get("C15_FAULT", "{}"))
site = spec.get("site")
K = spec.get("k", "*")
count = {"n": 0}


def boom():
    e = spec.get("exn", "os")
    if e == "os":
        return OSError(errno.ENOSPC, "No space left on device (injected)")
    if e == "perm":
        return PermissionError(errno.EACCES, "Permission denied (injected)")
    if e == "value":
        return ValueError("embedded null byte (injected)")
    if e == "runtime":
        return RuntimeError("Could not determine home directory (injected)")
    return Exception("injected")


def due():
    i = count["n"]
    count["n"] += 1
    return K == "*" or i == K


def caller(depth=2):
    return sys._getframe(depth).f_code.co_name


if site in ("setup_mkdir", "cfg_mkdir"):
    real_mkdir = pathlib.Path.mkdir
    want = "setup_logging" if site == "setup_mkdir" else "configure_logging"

    def mkdir(self, *a, **kw):
        if caller() == want and due():
            raise boom()
        return real_mkdir(self, *a, **kw)

    pathlib.Path.mkdir = mkdir

if site == "expand":
    real_expand = pathlib.Path.expanduser

    def expanduser(self):
        if caller() == "_apply_setting" and due():
            raise boom()
        return real_expand(self)

    pathlib.Path.expanduser = expanduser

if site in ("setup_open", "emit"):
    real_open = logging.FileHandler._open

    class Stream:
        def __init__(self, f):
            self.f = f

        def write(self, s):
            if due():
                raise boom()
            return self.f.write(s)

        def flush(self):
            return self.f.flush()

        def close(self):
            return self.f.close()

    def _open(self):
        if site == "setup_open":
            if due():
                raise boom()
            return real_open(self)
        return Stream(real_open(self))

    logging.FileHandler._open = _open

hook = sys.argv[1]
sys.argv = [hook] + sys.argv[2:]
src = str(pathlib.Path(hook).resolve().parent.parent / "src")
sys.path.insert(0, src)

if site in ("dec_open", "dec_write"):
    import dippy.core.config as cfgmod

    class F:
        def __init__(self, f):
            self.f = f

        def __enter__(self):
            return self

        def __exit__(self, *a):
            self.f.close()
            return False

        def write(self, s):
            if due():
                raise boom()
            return self.f.write(s)

    def popen(path, mode="r", *a, **kw):
        if caller() == "log_decision":
            if site == "dec_open":
                if due():
                    raise boom()
                return builtins.open(path, mode, *a, **kw)
            return F(builtins.open(path, mode, *a, **kw))
        return builtins.open(path, mode, *a, **kw)

    cfgmod.open = popen

runpy.run_path(hook, run_name="__main__")
