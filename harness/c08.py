"""C08 - allow rules are local to the command they match.

Implementation-level oracle (model-free, metamorphic): for a program containing the matched command
M next to siblings / with redirects / with substitutions, verdict WITH the allow rule
>= max over every constituent other than M's command proper, judged WITHOUT the rule; and
the verdict with the rule equals the verdict without it when M is replaced by a built-in
allowed command.  Correspondence: walker model == analyze under both configurations."""
from __future__ import annotations

import itertools
import random
import re
from pathlib import Path

from . import bashgen as bg
from . import core, lib
from .walk_oracles import model_analyze

TRUSTED = [
    "Coq 8.16.1 kernel and VM; axioms: none",
    "tools/gen_tables.py; extraction + driver; AST serialiser",
    "modelled, not verified: parser, ladder and rule lookup are oracles of the theorem; that a command rule cannot change redirect-rule lookups is a fact about config.py proved in the C07/C14 packages",
]

BASE_CFG = 'deny zap "NOZAP"\nask askcmd\nallow-redirect /jail/out/*\ndeny-redirect /jail/secret/*\n'
RULES = ["allow mytool", "allow mytool *", "allow mytool|", "allow my*", "allow *", "allow **", "allow mytool  deploy", "allow mytool d*"]
MATCHED = ["mytool", "mytool deploy", "mytool deploy prod", "X=1 mytool deploy"]
# one family per way the analyser can reach a verdict for the matched command: unknown program (above), conditional
# test commands, handler CLIs, programs the built-in knowledge asks about, programs it already allows, wrappers, shells,
# directory changes, assignment prefixes.  (rules that match, commands they match)
FAMILIES = [
    (["allow test", "allow test *", "allow test -f *"], ["test -f x", "test -f x -a -n a"]),
    (["allow [ *", "allow [ -n *"], ["[ -n a ]", "[ -n a -a -f x ]"]),
    (["allow git push", "allow git *"], ["git push", "git push origin main"]),
    (["allow rm", "allow rm *"], ["rm x", "rm -rf build"]),
    (["allow ls", "allow ls *"], ["ls", "ls -la"]),
    (["allow timeout *", "allow timeout 5 mytool"], ["timeout 5 mytool", "timeout 5 mytool deploy"]),
    (["allow nice *", "allow mytool"], ["nice mytool", "nice -n 3 mytool"]),
    (["allow env *"], ["env mytool", "env X=1 mytool deploy"]),
    (["allow sh -c *", "allow sh *"], ["sh -c mytool", "sh -c 'mytool deploy'"]),
    (["allow python3 *"], ["python3 s.py", "python3 -c pass"]),
    (["allow cd *", "allow cd"], ["cd sub", "cd /"]),
    (["allow command *", "allow mytool"], ["command mytool", "command -p mytool deploy"]),
    (["allow ./tool *", "allow ./tool"], ["./tool", "./tool run"]),
    (["allow mytool"], ["A=1 B=2 mytool", "a[0]=v mytool deploy", "LIBDIRS+=:/x mytool"]),
]


def run(tier, seed, replay=None):
    lib.use_repo()
    from dippy.core import analyzer as an
    from dippy.core.config import parse_config

    rng = random.Random(seed)
    out = core.Outcome("C08")
    cwd = "/jail"
    cfg0 = parse_config(BASE_CFG)
    sibs = [bg.Atom("ls", "allow"), bg.Atom("rm x", "ask"), bg.Atom("zap", "deny"), bg.Atom("git push", "ask"), bg.Atom("echo hi", "allow")]
    redirs = [("> /jail/out/f", "allow"), ("> nogrant", "ask"), ("> /jail/secret/s", "deny"), ("2>&1", "allow"), (">> other", "ask")]
    subs = [("$(ls)", "allow"), ("$(rm x)", "ask"), ("$(zap)", "deny"), ("<(rm x)", "ask"), ("${v:-$(zap)}", "deny"), ("`rm x`", "ask"),
            # every kind of expansion the walker looks into, and the guard for "$((" closed by ") )"
            ("$((rm x) )", "ask"), ("$((1+$(rm x)))", "ask"), ("${a[$(zap)]}", "deny"), ("$[1+$(rm x)]", "ask"), ("${v:-`zap`}", "deny"),
            ("${v:-$(echo \\) ; rm x)}", "ask"), (">(rm x)", "ask"), ("a=($(rm x))", "ask")]
    model = lib.Model()
    xcheck = []

    def verdict(cfg, text):
        return an.analyze(text, cfg, Path(cwd)).action

    from dippy.core.config import SimpleCommand, match_command

    def rule_matches(rule, cmdtext):
        """does the rule's pattern match this simple command (judged by the real matcher)?"""
        words = cmdtext.split()
        while words and "=" in words[0] and not words[0].startswith("-"):
            words = words[1:]
        return bool(words) and match_command(SimpleCommand(words=words), parse_config(rule + "\n"), Path(cwd)) is not None

    def floor_of(rule, other):
        """verdict a constituent needs WITHOUT the rule - unless the rule matches that constituent's own
        command too (a broad glob such as `allow *`), in which case the rule legitimately decides it and
        only its redirects / nested parts count."""
        cmd = other
        for cut in (" >", " 2>", " $(", " <(", " `", ' "'):
            cmd = cmd.split(cut)[0]
        inner = [m for m in re.findall(r"\$\(([^()$]*)\)|[<>]\(([^()]*)\)|`([^`]*)`", other)]
        inner = [x for t in inner for x in t if x]
        if rule_matches(rule, cmd) or any(rule_matches(rule, i) for i in inner):
            # judge with the broad rule's effect on OTHER commands neutralised is not expressible by
            # configuration; fall back to the redirect part only
            m = re.search(r"(\d*>>?\|?|&>>?)\s*(\S+)\s*$", other)
            return verdict(cfg0, f"echo {m.group(0)}") if m else "allow"
        return verdict(cfg0, other)

    def check(rule, text, others, label):
        """others: list of (text-of-constituent-judged-alone, how) that must not be masked."""
        cfg1 = parse_config(BASE_CFG + rule + "\n")
        d1 = an.analyze(text, cfg1, Path(cwd))
        v1 = d1.action
        if v1 == "ask" and lib.parser_rejects(text):
            # the vendored parser rejects some valid programs (e.g. ";;&" before esac): the whole line is then
            # asked with or without the rule - nothing is approved, no rule is consulted, nothing to mask
            out.count("skipped", "parser-rejected")
            return
        floor = bg.vmax([floor_of(rule, o) for o in others]) if others else "allow"
        out.case([rule, text])
        out.count("shape", label)
        out.count("verdict_with_rule", v1)
        if bg.ORDER[v1] < bg.ORDER[floor]:
            out.violations.append({"kind": "masked", "what": f"with rule {rule!r} the verdict is {v1} but a constituent other than the matched command needs {floor}",
                                   "program": text, "rule": rule, "others": others, "config": BASE_CFG, "signature_text": f"{rule} :: {text}"})
        for cfg, tag in ((cfg0, "without"), (cfg1, "with")):
            rec = len(xcheck) < 30 and out.evaluations % 13 == 0 and tag == "with"
            mv = model_analyze(model, cfg, text, cwd, record=rec)
            iv = v1 if tag == "with" else verdict(cfg0, text)
            if rec and model.transcript is not None and len(model.transcript) < 60:
                xcheck.append((model.last_request, list(model.transcript), mv))
            if mv != iv:
                out.disagreements.append({"correspondence": "Walker.analyze_nodes <-> analyzer.analyze", "program": text, "rule": rule if tag == "with" else None, "model": mv, "impl": iv})
        if out.evaluations % 53 == 0:
            out.sample({"rule": rule, "program": text, "verdict": v1, "floor": floor})

    rules = RULES if tier == "thorough" else RULES[:5]
    pairs = list(itertools.product(rules, MATCHED))
    for frules, fmatched in FAMILIES:
        pairs += list(itertools.product(frules if tier == "thorough" else frules[:2], fmatched if tier == "thorough" else fmatched[:1]))
    for rule, m in pairs:
        # siblings in every composition form
        for s in sibs:
            for tmpl in ("{M}; {S}", "{S}; {M}", "{M} && {S}", "{S} || {M}", "{M} | {S}", "{S} | {M}", "{M} & {S}", "{M}\n{S}",
                         "( {M}; {S} )", "{ {M}; {S}; }", "if {M}; then {S}; fi", "if {S}; then {M}; fi", "while {M}; do {S}; done",
                         "for v in a; do {M}; {S}; done", "case a in a) {M};; b) {S};; esac", "fn() { {M}; {S}; }", "! {M} | {S}",
                         "time {M}; {S}", "echo $({M}; {S})", "cat <({S}) <({M})"):
                check(rule, tmpl.replace("{M}", m).replace("{S}", s.text), [s.text], "sibling")
        # the matched command's own redirects
        for r, _ in redirs:
            check(rule, f"{m} {r}", [f"echo {r}"], "own-redirect")
            check(rule, f"{r} {m}", [f"echo {r}"], "own-redirect")
            check(rule, f"{{ {m}; }} {r}", [f"echo {r}"], "group-redirect")
        # substitutions embedded in the matched command's words
        for sb, _ in subs:
            check(rule, f"{m} {sb}", [f"echo {sb}"], "own-substitution")
            if not sb.startswith(("<(", ">(", "a=(")):  # no process substitution / array literal inside double quotes
                check(rule, f'{m} "x {sb} y"', [f"echo {sb}"], "own-substitution")
            check(rule, f"{m} a {sb} > nogrant", [f"echo {sb}", "echo > nogrant"], "own-both")
    # substitutions in an assignment prefix of the matched command, and the injection-risk rule of handler CLIs
    for rule, m in itertools.product(rules, MATCHED[:3]):
        for sb, _ in subs[:8]:
            check(rule, f"N={sb} {m}", [f"echo {sb}"], "prefix-substitution")
    for rule, text, others in [("allow git push", "git push $(echo --force)", ["git status $(echo --force)"]),
                               ("allow git push", "git push $((rm x) )", ["echo $((rm x) )"]),
                               ("allow git *", "git push > nogrant", ["echo > nogrant"])]:
        check(rule, text, others, "handler-cli")
    # round seven (seeded change C08v: rule lookups cached by the command's words alone): a rule whose pattern is a PATH matches
    # a relative spelling only in the directory where that spelling names the file.  The same words written again behind a
    # directory change are another command: the rule may not decide it.  Floor: the piece behind the cd judged alone
    # (fresh configuration object); every composition form, the matching occurrence first, last, or in between.
    path_rules = ["allow /jail/tools/build", "allow /jail/tools/*", "allow /jail/tools/build *", "allow /jail/tools/build|"]
    spellings = ["tools/build", "./tools/build", "tools/build x", "tools/../tools/build"]
    dirs = ["/other", "sub", "..", "/jail/tools", "/"]
    ctx_templates = ["{M} && cd {D} && {M}", "{M}; cd {D}; {M}", "{M} || cd {D} || {M}", "{M}\ncd {D}\n{M}", "{M} | ( cd {D} && {M} )",
                     "( cd {D} && {M} ); {M}", "( cd {D} && {M} ) | {M}", "if {M}; then cd {D}; {M}; fi", "{M}; ( cd {D}; {M} ); {M}",
                     "{M} && { cd {D} && {M}; }", "for v in a; do {M}; cd {D}; {M}; done", "{M}; cd {D} && ls && {M}",
                     "x=$({M}); cd {D} && {M}", "{M} > /jail/out/f; cd {D}; {M}", "time {M}; cd {D}; {M}", "nice {M}; cd {D}; nice {M}",
                     "case a in a) {M};; esac; cd {D}; {M}", "fn() { cd {D}; {M}; }; {M}; fn"]
    for rule, m, d in itertools.product(path_rules if tier == "thorough" else path_rules[:3], spellings if tier == "thorough" else spellings[:3], dirs):
        if rule.endswith("build|") and " " in m:
            continue
        piece = f"cd {d} && {m}"
        cfg1 = parse_config(BASE_CFG + rule + "\n")
        floor = verdict(cfg1, piece)
        out.count("context_floor", floor)
        for tmpl in ctx_templates:
            text = tmpl.replace("{M}", m).replace("{D}", d)
            cfgw = parse_config(BASE_CFG + rule + "\n")
            vw = verdict(cfgw, text)
            out.case([rule, text])
            out.count("shape", "same-words-behind-cd")
            out.count("verdict_with_rule", vw)
            if bg.ORDER[vw] < bg.ORDER[floor]:
                out.violations.append({"kind": "masked", "what": f"with rule {rule!r} the verdict is {vw}, but the same words behind `cd {d}` name another file: "
                                                                 f"`{piece}` alone is {floor}", "program": text, "rule": rule, "others": [piece], "config": BASE_CFG,
                                       "signature_text": f"{rule} :: {text}"})
            mv = model_analyze(model, cfgw, text, cwd)
            if mv != vw:
                out.disagreements.append({"correspondence": "Walker.analyze_nodes <-> analyzer.analyze", "program": text, "rule": rule, "model": mv, "impl": vw})
    n_rand = 200 if tier == "quick" else 5000
    cmds = bg.atoms_cmd()
    rds = bg.atoms_redir()
    for _ in range(n_rand):
        rule = rng.choice(RULES)
        m = rng.choice(MATCHED)
        p = bg.rand_prog(rng, rng.randint(1, 4), cmds + [bg.Atom(m, "allow")] * 3, rds)
        others = [a.text if a.kind == "cmd" else f"echo {a.text}" for a in p.parts if not a.text.endswith(m) and a.text != m]
        check(rule, p.text, others, "random")
    model.close()
    n, mism = core.coq_crosscheck("C08", xcheck)
    out.extra["coq_vm_crosscheck"] = {"cases": n, "mismatches": len(mism)}
    if mism:
        out.disagreements.append({"correspondence": "extracted OCaml model <-> vm_compute in Coq", "detail": mism[:5]})
    out.extra["rule"] = ("allow rule (literal, trailing *, | anchor, glob, *, **, blanks in the pattern) x matched command x "
                         "{sibling in 20 composition forms, own redirect, group redirect, embedded substitution}; random compositions "
                         "containing the matched command. distinct = distinct (rule, program) pairs (all non-trivial)")
    return out
