"""Shared generators for the decision ladder (`analyzer._analyze_simple_command`) and everything that unwraps a
command: small-alphabet exhaustive token lists, wrapper prefixes, and inner commands whose own arguments look like
something the wrapper understands.

Nothing here depends on the Coq model; the vocabulary is drawn from the tables of the tree under test UNITED with a
snapshot of the literals of the pinned source (an entry dropped by a change stays in the vocabulary).  Other checks
import what they need:

    tables()                          wrapper names / flags-with-argument / operands / handler flag tables
    alphabet(w, size)                 token alphabet of one ladder wrapper: 'full' | 'core' | 'tiny'
    wrapper_token_lists(tier)         (label, words) - exhaustive lists [w] + alphabet^k (see the function)
    head_token_lists(tier)            non-wrapper heads x help/version-looking tails
    help_token_lists()                alphabet of _is_version_or_help, exhaustive up to 5 tokens
    PLAIN_FORMS, option_forms()       wrapper prefixes: the property's exact forms / every valid option spelling
    inner_shapes(flags, cmds, shapes) inner commands CMD ARGS with a flag as 1st / 2nd / 3rd / last argument
    understood(w)                     every token wrapper (or launcher) w gives a meaning to
    LAUNCHERS                         delegating handlers: prefix builders + the flags they understand
"""
from __future__ import annotations

import itertools

from . import lib

# ------------------------------------------------------------------------------------------ tables
SNAP_WRAPPERS = ["time", "timeout", "nice", "nohup", "strace", "ltrace", "command", "builtin"]
SNAP_WITH_ARG = {
    "timeout": ["-k", "--kill-after", "-s", "--signal"],
    "nice": ["-n", "--adjustment"],
    "time": ["-o", "--output", "-f", "--format"],
    "strace": ["-a", "-b", "-e", "-E", "-I", "-o", "-O", "-p", "-P", "-s", "-S", "-u", "-U", "-X"],
    "ltrace": ["-a", "-A", "-D", "-e", "-l", "-n", "-o", "-p", "-s", "-u", "-w", "-x", "-F"],
}
SNAP_OPERANDS = {"timeout": 1}
# options WITHOUT argument the real tools accept (manuals); no Dippy table lists them
NOARG = {
    "timeout": ["-v", "--verbose", "--foreground", "--preserve-status"],
    "nice": [],
    "nohup": [],
    "time": ["-p", "-v", "--verbose", "-a", "--append", "--portability"],
    "strace": ["-f", "-c", "-C", "-q", "-r", "-t", "-T", "-v", "-y"],
    "ltrace": ["-f", "-c", "-C", "-i", "-r", "-S", "-t", "-T"],
    "command": ["-p", "-v", "-V"],
    "builtin": [],
}
# tokens the ladder itself compares against, whatever the wrapper
LADDER_LITERALS = ["--", "-v", "-V", "-h", "--help", "--version", "help", "version"]
NEAR_MISS = ["-", "-p", "-vV", "-Vv", "-vx", "--v", "-H", "--helpx", "-help", "--", "---"]
ASSIGNMENTS = ["A=1", "A+=1", "a[0]=1", "A="]
NOT_ASSIGNMENTS = ["=x", "1A=2", "-A=1"]
OPERANDS = ["5", "0.5", "5s", "x"]
# program names by verdict class under CONFIG (deny zap / allow okcmd): safe list, handler-ask, denied, unknown,
# allowed by rule, handler with sub-commands, delegating handlers
COMMANDS = ["ls", "rm", "zap", "frob", "okcmd", "git", "env", "sh"]
CONFIG = 'deny zap "NOZAP"\nallow okcmd\n'


def _uniq(xs):
    seen, out = set(), []
    for x in xs:
        if x not in seen:
            seen.add(x)
            out.append(x)
    return out


def tables():
    """Tables of the tree under test united with the snapshot."""
    lib.use_repo()
    from dippy.core import allowlists, analyzer

    wrappers = _uniq(SNAP_WRAPPERS + sorted(getattr(allowlists, "WRAPPER_COMMANDS", ())))
    wa = {w: list(v) for w, v in SNAP_WITH_ARG.items()}
    for w, v in (getattr(analyzer, "WRAPPER_FLAGS_WITH_ARG", {}) or {}).items():
        wa[w] = _uniq(wa.get(w, []) + sorted(v))
    ops = dict(SNAP_OPERANDS)
    ops.update(getattr(analyzer, "WRAPPER_OPERANDS", {}) or {})
    return {"wrappers": wrappers, "with_arg": wa, "operands": ops}


def _shorts(flags):
    return [f for f in flags if len(f) == 2 and f[0] == "-" and f[1] != "-"]


def _longs(flags):
    return [f for f in flags if f.startswith("--") and len(f) > 2]


def understood(w, tb=None):
    """Every token the ladder wrapper w gives a meaning to (its own options in every spelling the skipping
    loop distinguishes, `--`, the lookup flags of `command`)."""
    tb = tb or tables()
    own = tb["with_arg"].get(w, [])
    out = ["--"] + list(own) + NOARG.get(w, [])
    for s in _shorts(own)[:3]:
        out += ["-v" + s[1], s + "5"]           # cluster ending in an option with argument; attached argument
    for l in _longs(own)[:2]:
        out += [l + "=5", l[:5]]                # =-joined; abbreviated
    for s in _shorts(own)[:1]:
        out += ["--z" + s[1]]                   # a LONG option that merely ends in the letter of a short one
    out += ["-v", "-V", "-p"]
    return _uniq(out)


def alphabet(w, size, tb=None):
    tb = tb or tables()
    own = tb["with_arg"].get(w, [])
    f1 = (_shorts(own) or ["-p"])[0]
    cluster = "-v" + f1[1]
    if size == "tiny":
        return _uniq(["--", "-v", f1, "5", "zap", "ls"])
    if size == "core":
        return _uniq(["--", f1, "-v", "-V", cluster, "5", "ls", "rm", "zap", "-h", "A=1", "command"])
    if size == "wide":
        return _uniq(["--", f1, "-v", "-V", "-p", cluster, "-", "5", "ls", "rm", "zap", "frob", "okcmd", "-h", "--help", "A=1", "command", "nohup", "env"]
                     + (_longs(own)[:1]))
    full = (understood(w, tb) + LADDER_LITERALS + NEAR_MISS + ASSIGNMENTS + NOT_ASSIGNMENTS + OPERANDS + COMMANDS
            + ["status", "push", "-c", "rm x"] + tb["wrappers"])
    return _uniq(full)


def _product(alpha, lo, hi):
    for n in range(lo, hi + 1):
        for t in itertools.product(alpha, repeat=n):
            yield list(t)


CONTEXTS = [[], ["A=1"], ["nohup"], ["nice", "-n", "5"], ["command"], ["timeout", "5"], ["env"], ["A=1", "time"]]


DEEP = ("timeout", "command", "nice", "nohup")   # quick tier: full depth for the wrappers with an operand / a lookup shortcut / a
                                                 # small table / no table; the others share the same loop and get depth 2 + S3


def wrapper_token_lists(tier, tb=None):
    """Exhaustive token lists behind every ladder wrapper.
       S1  [w] + core^1..3 (quick; depth 2 for the wrappers outside DEEP) / wide^1..3 (thorough)
       S2  [w] + tiny^4 (quick, DEEP + strace) / tiny^4..5 (thorough)
       S3  every token of the FULL alphabet at every position of a list of <= 3, the other positions over tiny
       S4  S1 up to 2 tokens behind every outer context (assignment, another wrapper, env)"""
    tb = tb or tables()
    quick = tier == "quick"
    for w in tb["wrappers"]:
        yield "S1", [w]
        s1 = alphabet(w, "core" if quick else "wide", tb)
        for t in _product(s1, 1, 3 if (not quick or w in DEEP) else 2):
            yield "S1", [w] + t
        tiny = alphabet(w, "tiny", tb)
        if not quick or w in DEEP or w == "strace":
            for t in _product(tiny, 4, 4 if quick else 5):
                yield "S2", [w] + t
        full = alphabet(w, "full", tb)
        near = ["--", "-v", "5", "zap"] if quick else tiny
        for f in full:
            yield "S3", [w, f]
            for a in near:
                yield "S3", [w, f, a]
                yield "S3", [w, a, f]
                if quick:
                    yield "S3", [w, f, a, "zap"]
                    continue
                for b in tiny:
                    yield "S3", [w, f, a, b]
                    yield "S3", [w, a, f, b]
                    yield "S3", [w, a, b, f]
        for ctx in CONTEXTS[1:]:
            for t in _product(s1, 0, 2 if (not quick or ctx in (["A=1"], ["env"])) else 1):
                yield "S4", ctx + [w] + t


HEADS = ["ls", "rm", "zap", "frob", "okcmd", "git", "env", "sh", "find", "xargs", "docker", "kubectl", "./frob", "A=1"]
HELP_TAIL = ["-h", "--help", "--version", "help", "version", "x", "-c", "ls"]


def head_token_lists(tier):
    """Non-wrapper program names x tails over the help/version vocabulary (the rungs below the wrapper rung:
    safe list, help shortcut before / after handlers, handler, default ask), with the 4-word boundary."""
    tail = HELP_TAIL if tier != "quick" else [t for t in HELP_TAIL if t not in ("version", "ls")]
    for h in HEADS:
        yield "H", [h]
        for t in _product(tail, 1, 3):
            yield "H", [h] + t
        for hp in ("-h", "--help", "--version", "help"):
            for fill in ("x", "-c"):
                yield "H", [h, fill, fill, hp]
                yield "H", [h, fill, fill, fill, hp]
        if tier != "quick":
            for t in _product(["-h", "--help", "x", "ls"], 4, 4):
                yield "H", [h] + t


HELP_ALPHA = ["help", "version", "--version", "--help", "-h", "x", "-H", "--helpx", ""]


def help_token_lists():
    """Every token list of length <= 5 over the literals _is_version_or_help compares against, a near miss of
    each and a neutral word (the first token is the program name and is never looked at)."""
    yield []
    for t in _product(HELP_ALPHA, 0, 4):
        yield ["c"] + t
    for t in _product(["-h", "--help", "x"], 5, 6):
        yield ["c"] + t


# ------------------------------------------------------------------------------------------ wrapper prefixes
# the forms the property names: the verdict must be EXACTLY that of the wrapped command
PLAIN_FORMS = [
    ("time c", ["time"]), ("timeout N c", ["timeout", "5"]), ("timeout N.N c", ["timeout", "0.5"]), ("timeout Ns c", ["timeout", "5s"]),
    ("nice c", ["nice"]), ("nice -n N c", ["nice", "-n", "5"]), ("nohup c", ["nohup"]), ("command c", ["command"]),
    ("command -- c", ["command", "--"]),
]


def option_forms():
    """(tool, label, prefix words): every option of the real tool's table in every spelling its option syntax
    accepts (harness/c04_gen.spellings), `--` present or not, ending right before the command operand."""
    from . import c04_gen as g

    out = []
    for tool in ("timeout", "nice", "nohup", "command", "builtin", "strace"):
        t = g.TOOLS[tool]
        for label, ow in g.spellings(tool):
            for dd in (False, True):
                pre = t["pre"][0]
                out.append((tool, f"{tool} | {label} | dd={int(dd)} | pre={' '.join(pre) or '-'}", [tool] + ow + (["--"] if dd else []) + pre))
    for label, ow in [("-p", ["-p"]), ("-o F", ["-o", "out"]), ("--output=F", ["--output=out"]), ("-f FMT", ["-f", "%e"]), ("-v", ["-v"]), ("-po F cluster", ["-po", "out"])]:
        out.append(("time", f"time | {label} | dd=0 | pre=-", ["time"] + ow))
    for label, ow in [("-f", ["-f"]), ("-o F", ["-o", "out"]), ("-e X", ["-e", "malloc"]), ("-fo F cluster", ["-fo", "out"])]:
        out.append(("ltrace", f"ltrace | {label} | dd=0 | pre=-", ["ltrace"] + ow))
    return out


# ------------------------------------------------------------------------------------------ inner commands
SPECIAL_FLAGS = ["-v", "-V", "-p", "--", "-", "-h", "--help", "--version", "help", "-c", "-k", "-s", "-n", "-o", "-e", "-u", "-i", "-S", "-x"]
ARG_SHAPES = {
    "1st": lambda f: [f],
    "1st+x": lambda f: [f, "x"],
    "2nd": lambda f: ["x", f],
    "3rd": lambda f: ["x", "y", f],
    "1st+x+y": lambda f: [f, "x", "y"],
    "twice": lambda f: [f, f],
}


def inner_shapes(flags, cmds=("rm", "zap", "ls", "frob", "okcmd"), shapes=("1st", "1st+x", "2nd", "3rd", "1st+x+y")):
    """Inner commands CMD ARGS in which one argument (1st / 2nd / 3rd, with or without neighbours) is a token
    the wrapper itself understands."""
    out = []
    for c in cmds:
        out.append((f"{c} (no flag)", [c, "x"]))
        for f in flags:
            for s in shapes:
                out.append((f"{c} | arg {s} = {f}", [c] + ARG_SHAPES[s](f)))
    return out


TRAILING = ["-h", "--help", "--version", "help", "version", "-V"]


def inner_trailing(cmds=(["rm", "x"], ["zap"], ["zap", "x"], ["sh", "x"], ["frob"], ["git", "push"])):
    """Inner commands followed by a help/version-looking token (the ladder's help shortcut must be applied to the
    wrapped command's own words, and a handler that runs something decides first)."""
    return [(f"{' '.join(c)} | trailing {t}", list(c) + [t]) for c in cmds for t in TRAILING]


# ------------------------------------------------------------------------------------------ launchers (handlers)
def _mod_flags(modname, *names):
    """String members of the named module-level tables of dippy.cli.<modname> (missing ones are skipped)."""
    lib.use_repo()
    import importlib

    out = []
    try:
        m = importlib.import_module(f"dippy.cli.{modname}")
    except Exception:
        return out
    for n in names:
        v = getattr(m, n, None)
        if isinstance(v, str):
            out += ["-" + ch for ch in v]
        elif isinstance(v, dict):
            out += [k for k in v if isinstance(k, str)]
        elif v is not None:
            out += sorted(x for x in v if isinstance(x, str))
    return out


def launchers():
    """Delegating handlers: name -> {forms: [(label, build(inner words) -> words of the whole command)],
    flags: tokens the launcher itself understands, remote: the inner command runs in a container}.
    Every form is a valid invocation whose command operand is the inner command as given (the launcher's own
    option parsing stops there), so the command that really runs is the inner command (xargs: plus items)."""
    def pre(*p):
        return lambda c: list(p) + c

    def shc(*p):
        from dippy.core.bash import bash_join
        return lambda c: list(p) + [bash_join(c)]

    env_longs = ["--" + x for x in _mod_flags("env", "LONG_OPTIONS")] or ["--unset", "--chdir", "--split-string", "--ignore-environment"]
    xargs_longs = ["--" + x for x in _mod_flags("xargs", "LONG_OPTIONS")][:8]
    L = {
        "env": dict(
            forms=[("env", pre("env")), ("env -i", pre("env", "-i")), ("env -u X", pre("env", "-u", "X")), ("env A=1", pre("env", "A=1")),
                   ("env --", pre("env", "--")), ("env -i A=1 B=2", pre("env", "-i", "A=1", "B=2")), ("env --unset=X", pre("env", "--unset=X")),
                   ("env -C .", pre("env", "-C", "."))],
            flags=_uniq(["-i", "-u", "-C", "-S", "-v", "-0", "-", "--", "-iu", "-uX", "A=1", "-S ls"] + _mod_flags("env", "FLAGS_WITH_ARG") + env_longs[:6]
                        + ["--split-string=ls", "--unset=X"])),
        "xargs": dict(
            forms=[("xargs", pre("xargs")), ("xargs -n 1", pre("xargs", "-n", "1")), ("xargs -0", pre("xargs", "-0")), ("xargs -I {}", pre("xargs", "-I", "{}")),
                   ("xargs --", pre("xargs", "--")), ("xargs -r -t", pre("xargs", "-r", "-t")), ("xargs --max-args=1", pre("xargs", "--max-args=1"))],
            flags=_uniq(["-0", "-r", "-t", "-x", "-i", "-l", "-I", "-I{}", "-n", "-n1", "--", "-"] + _mod_flags("xargs", "FLAGS_WITH_ARG", "UNSAFE_FLAGS")
                        + xargs_longs + ["--replace", "--interactive", "--open-tty", "--max-args=1"])),
        "shell": dict(
            forms=[("sh -c S", shc("sh", "-c")), ("bash -c S", shc("bash", "-c")), ("bash -lc S", shc("bash", "-lc")), ("sh -ec S", shc("sh", "-ec")),
                   ("bash --norc -c S", shc("bash", "--norc", "-c")), ("zsh -c S", shc("zsh", "-c")), ("bash -o errexit -c S", shc("bash", "-o", "errexit", "-c"))],
            flags=_uniq(["-c", "-e", "-l", "-o", "-O", "-s", "-i", "--", "-", "+c", "-ec", "--norc", "--rcfile", "--help", "--version", "-h"]
                        + ["--" + x for x in _mod_flags("shell", "LONG_WITH_ARG")])),
        "find": dict(
            forms=[("find -exec ;", lambda c: ["find", ".", "-exec"] + c + [";"]), ("find -exec {} ;", lambda c: ["find", ".", "-exec"] + c + ["{}", ";"]),
                   ("find -exec {} +", lambda c: ["find", ".", "-exec"] + c + ["{}", "+"]), ("find -execdir ;", lambda c: ["find", ".", "-execdir"] + c + [";"]),
                   ("find -name -exec ;", lambda c: ["find", ".", "-name", "x", "-exec"] + c + [";"]),
                   ("find -exec ls ; -exec ;", lambda c: ["find", ".", "-exec", "ls", ";", "-exec"] + c + [";"])],
            flags=["-exec", "-execdir", "-ok", "-okdir", "-delete", "-name", "-o", "!", "(", ")", "{}", "+", "-print", "--", "-", "\\;"]),
        "fd": dict(
            forms=[("fd -x", pre("fd", "-x")), ("fd --exec", pre("fd", "--exec")), ("fd -X", pre("fd", "-X")), ("fd --exec-batch", pre("fd", "--exec-batch")),
                   ("fd pat -x", pre("fd", "pat", "-x")), ("fd -Hx", pre("fd", "-Hx")), ("fd -x ... ;", lambda c: ["fd", "-x"] + c + [";"])],
            flags=_uniq(["-x", "-X", "--exec", "--exec-batch", "-H", "-e", "-t", "-d", "-Hx", "-xls", "--exec=ls", "--", "-"] + _mod_flags("fd", "EXEC_FLAGS"))),
        "docker": dict(
            remote=True,
            forms=[("docker exec c", pre("docker", "exec", "c")), ("docker exec -it c", pre("docker", "exec", "-it", "c")),
                   ("docker exec -e A=1 c", pre("docker", "exec", "-e", "A=1", "c")), ("docker exec -u root -w /tmp c", pre("docker", "exec", "-u", "root", "-w", "/tmp", "c")),
                   ("docker exec --env=A=1 c", pre("docker", "exec", "--env=A=1", "c")), ("docker exec -ie A=1 c", pre("docker", "exec", "-ie", "A=1", "c")),
                   ("docker -D exec c", pre("docker", "-D", "exec", "c")), ("docker -l debug exec c", pre("docker", "-l", "debug", "exec", "c")),
                   ("podman exec c", pre("podman", "exec", "c")), ("podman exec -it c", pre("podman", "exec", "-it", "c"))],
            flags=_uniq(["-i", "-t", "-d", "-it", "-e", "-u", "-w", "-ie", "-eA=1", "--", "-", "exec", "c", "-D", "-l", "-H", "--privileged", "--env=A=1"]
                        + _mod_flags("docker", "EXEC_FLAGS_WITH_ARG", "EXEC_FLAGS_NO_ARG", "GLOBAL_FLAGS_WITH_ARG"))),
        "kubectl": dict(
            remote=True,
            forms=[("kubectl exec pod --", pre("kubectl", "exec", "pod", "--")), ("kubectl exec -it pod --", pre("kubectl", "exec", "-it", "pod", "--")),
                   ("kubectl -n ns exec pod --", pre("kubectl", "-n", "ns", "exec", "pod", "--")), ("kubectl exec pod -c ctr --", pre("kubectl", "exec", "pod", "-c", "ctr", "--")),
                   ("kubectl exec --namespace=ns pod --", pre("kubectl", "exec", "--namespace=ns", "pod", "--")), ("k exec pod --", pre("k", "exec", "pod", "--")),
                   ("kubectl exec pod -cctr --", pre("kubectl", "exec", "pod", "-cctr", "--")), ("kubectl exec --stdin --tty pod --", pre("kubectl", "exec", "--stdin", "--tty", "pod", "--"))],
            flags=_uniq(["--", "-c", "-n", "-f", "-s", "-v", "-i", "-t", "-q", "-it", "-cctr", "--namespace", "--container", "--namespace=ns", "exec", "pod", "-"]
                        + _mod_flags("kubectl", "EXEC_BOOL_FLAGS"))),
        "uv": dict(
            forms=[("uv run", pre("uv", "run")), ("uv run --python 3.12", pre("uv", "run", "--python", "3.12")), ("uv run -q", pre("uv", "run", "-q")),
                   ("uv run --with=x", pre("uv", "run", "--with=x"))],
            flags=_uniq(["run", "--", "-q", "--python", "--with", "--with=x", "-p", "-m", "--help", "-h"] + _mod_flags("uv", "RUN_FLAGS_WITH_ARG")[:8])),
        "arch": dict(
            forms=[("arch -x86_64", pre("arch", "-x86_64")), ("arch -arch arm64", pre("arch", "-arch", "arm64")), ("arch -e A=1", pre("arch", "-e", "A=1"))],
            flags=_uniq(["--", "-"] + _mod_flags("arch", "FLAGS_NO_ARG", "ARCH_FLAGS", "FLAGS_WITH_ARG"))),
        "caffeinate": dict(
            forms=[("caffeinate", pre("caffeinate")), ("caffeinate -i", pre("caffeinate", "-i")), ("caffeinate -dis", pre("caffeinate", "-dis")),
                   ("caffeinate -t 5", pre("caffeinate", "-t", "5"))],
            flags=_uniq(["--", "-", "-dis"] + _mod_flags("caffeinate", "FLAGS_NO_ARG", "FLAGS_WITH_ARG"))),
        "script": dict(
            forms=[("script -q /dev/null", pre("script", "-q", "/dev/null")), ("script -t 0 out", pre("script", "-t", "0", "out"))],
            flags=_uniq(["--", "-", "-q", "-a", "-c"] + _mod_flags("script", "FLAGS_WITH_ARG"))),
    }
    for v in L.values():
        v.setdefault("remote", False)
    return L


def nested_forms():
    """Two-level wrappings (ladder wrapper / launcher in both orders)."""
    def pre(*p):
        return lambda c: list(p) + c

    def shc(*p):
        from dippy.core.bash import bash_join
        return lambda c: list(p) + [bash_join(c)]
    return [
        ("env nice", pre("env", "nice")), ("nice env", pre("nice", "env")), ("xargs env", pre("xargs", "env")), ("env xargs", pre("env", "xargs")),
        ("timeout 5 xargs", pre("timeout", "5", "xargs")), ("nohup env -i", pre("nohup", "env", "-i")), ("sh -c nohup", lambda c: shc("sh", "-c")(["nohup"] + c)),
        ("command env", pre("command", "env")), ("env command", pre("env", "command")), ("xargs command", pre("xargs", "command")),
        ("nice command", pre("nice", "command")), ("timeout 5 command", pre("timeout", "5", "command")), ("command command", pre("command", "command")),
        ("command -- command", pre("command", "--", "command")), ("command -p command", pre("command", "-p", "command")),
        ("env -i command --", pre("env", "-i", "command", "--")), ("xargs -n 1 timeout 5", pre("xargs", "-n", "1", "timeout", "5")),
        ("find -exec command ;", lambda c: ["find", ".", "-exec", "command"] + c + [";"]), ("find -exec env ;", lambda c: ["find", ".", "-exec", "env"] + c + [";"]),
        ("sh -c command", lambda c: shc("sh", "-c")(["command"] + c)),
        ("A=1 command", pre("A=1", "command")), ("time command", pre("time", "command")), ("strace -f command", pre("strace", "-f", "command")),
        ("builtin command", pre("builtin", "command")),
    ]


# ------------------------------------------------------------------------------------------ handler token lists
def handler_alphabets():
    """head words -> (full, core): token alphabets of the delegating handlers, drawn from each handler's own
    tables and comparison literals (every literal, a near miss, a neutral word, inner commands of each class)."""
    inner = ["ls", "rm", "zap"]
    A = {
        ("sh",): (["-c", "-e", "-ec", "-ce", "+c", "-o", "-O", "-co", "--", "-", "--norc", "-norc", "--rcfile", "-rcfile", "--init-file", "--posix", "--bogus",
                   "--help", "--version", "-h", "-s", "-i", "-l", "rm x", "ls; zap", "script.sh", "errexit", "", "x"],
                  ["-c", "-ec", "-o", "--", "--norc", "--rcfile", "--help", "rm x", "x"]),
        ("env",): (["-i", "-u", "-C", "-S", "-v", "-0", "-iu", "-uX", "-iS", "-Sls", "--", "-", "A=1", "=x", "--unset", "--unset=X", "--uns", "--chdir", "--split-string",
                    "--split-string=rm x", "--split=ls", "-S rm x", "--debug", "--ignore-environment", "--i", "--d", "--bogus", "--help", "-h", "x"] + inner,
                   ["-i", "-u", "-S", "--", "A=1", "--uns", "--split-string", "rm", "zap", "x"]),
        ("xargs",): (["-0", "-n", "-n1", "-I", "-I{}", "-i", "-ix", "-l", "-l1", "-e", "-E", "-eX", "-p", "-o", "-t", "-r", "-0I", "-tn", "-J", "-R", "-s", "-S", "-P", "-a", "-d", "--", "-",
                      "--max-args", "--max-args=1", "--max-a", "--interactive", "--inter", "--open-tty", "--replace", "--replace=X", "--rep", "--eof", "--null", "--arg-file",
                      "--process-slot-var", "--bogus", "--help", "-h", "{}", "x", "1"] + inner,
                     ["-0", "-n", "-I", "-i", "-p", "--", "--max-args", "--replace", "rm", "zap", "x"]),
        ("find", "."): (["-exec", "-execdir", "-ok", "-okdir", "-delete", ";", "\\;", "+", "{}", "-name", "-o", "-print", "!", "(", ")", "-fprint", "-fls", "--", "-", "--help", "-h", "x"] + inner,
                        ["-exec", "-execdir", "-ok", "-delete", ";", "+", "{}", "-name", "rm", "zap", "ls"]),
        ("fd",): (["-x", "-X", "--exec", "--exec-batch", "--exec=ls", "--exec=", "--exec-batch=rm", "-xls", "-Xrm", "-Hx", "-HX", "-Hxls", "-H", "-e", "-t", "-tx", "-d", "-ex", ";", "\\;",
                   "--", "-", "--help", "-h", "pat", "x"] + inner,
                  ["-x", "--exec", "-Hx", "-xls", "-e", ";", "--exec=ls", "rm", "zap", "x"]),
        ("docker",): (["exec", "-i", "-it", "-d", "-e", "-u", "-w", "-ie", "-iu", "-eA=1", "--env", "--env=A=1", "--env-file", "--detach-keys", "--detach-keys=a", "--user", "--workdir", "--privileged", "--tty",
                       "--", "-", "c", "-D", "--debug", "-l", "-ldebug", "-Dl", "debug", "--log-level", "--log-level=debug", "--config", "-H", "--host", "-c", "--context", "ps", "run", "compose",
                       "container", "image", "save", "-o", "--help", "-h", "x"] + inner,
                      ["exec", "-it", "-e", "-ie", "--env=A=1", "--", "c", "-l", "--detach-keys", "rm", "zap"]),
        ("docker", "exec"): (["-i", "-it", "-d", "-e", "-u", "-w", "-ie", "-iu", "-eA=1", "--env", "--env=A=1", "--env-file", "--detach-keys", "--detach-keys=a", "--user", "--workdir", "--privileged",
                              "--tty", "--", "-", "c", "exec", "--help", "-h", "x", "A=1", "root"] + inner,
                             ["-it", "-e", "-ie", "-eA=1", "--env=A=1", "--user", "--", "c", "rm", "zap", "ls"]),
        ("podman", "exec"): (["-it", "-e", "-ie", "--env=A=1", "--", "c", "-l", "--latest", "--help", "x"] + inner, ["-it", "-e", "--", "c", "rm", "zap"]),
        ("kubectl",): (["exec", "--", "-it", "-i", "-t", "-q", "-c", "-cctr", "-n", "-nns", "ns", "--namespace", "--namespace=ns", "-l", "-o", "-f", "--context", "--cluster", "--kubeconfig", "-s",
                        "--stdin", "--tty", "--quiet", "--cache-dir", "-v", "-v=3", "pod", "deploy/app", "get", "delete", "config", "view", "set", "rollout", "status", "restart", "auth", "can-i",
                        "-", "--help", "-h", "x"] + inner,
                       ["exec", "--", "-it", "-c", "-n", "--namespace=ns", "--stdin", "pod", "get", "rm", "zap"]),
        ("kubectl", "exec"): (["--", "-it", "-i", "-t", "-q", "-ti", "-c", "-cctr", "-n", "-nns", "ns", "--namespace", "--namespace=ns", "--container", "--container=c", "-f", "-s", "-v", "--stdin", "--tty", "--quiet",
                               "--insecure-skip-tls-verify", "--cache-dir", "--kubeconfig", "pod", "ctr", "-", "--help", "-h", "x"] + inner,
                              ["--", "-it", "-c", "-cctr", "--namespace=ns", "--stdin", "--cache-dir", "pod", "rm", "zap", "ls"]),
        ("k", "exec"): (["--", "-it", "-c", "pod", "--stdin", "x"] + inner, ["--", "-it", "pod", "rm", "zap"]),
        ("uv",): (["run", "--", "-q", "--python", "3.12", "--with", "--with=x", "-p", "-m", "--module", "--script", "--help", "-h", "--version", "help", "pip", "sync", "tool", "python", "x"] + inner,
                  ["run", "--", "-q", "--python", "--with=x", "-m", "pip", "rm", "zap", "x"]),
        ("arch",): (["-x86_64", "-arm64", "-arch", "arm64", "-e", "A=1", "-d", "X", "-c", "-32", "-64", "--", "-", "--help", "-h", "x"] + inner, ["-x86_64", "-arch", "arm64", "-e", "A=1", "--", "rm", "zap"]),
        ("caffeinate",): (["-i", "-d", "-s", "-m", "-u", "-dis", "-t", "-w", "-t5", "-it", "5", "--", "-", "--help", "-h", "x"] + inner, ["-i", "-dis", "-t", "-w", "5", "--", "rm", "zap"]),
        ("script",): (["-q", "-a", "-c", "-t", "-T", "-F", "-k", "-r", "-p", "-d", "-e", "0", "out", "/dev/null", "--", "-", "--help", "-h", "rm x", "x"] + inner,
                      ["-q", "-a", "-c", "-t", "0", "out", "/dev/null", "rm x", "rm", "zap"]),
        ("tar", "-xf", "a.tar"): (["--to-command", "--to-command=", "--to-command=ls", "--to-command=rm x", "--to-command=zap", "-x", "-c", "-t", "-tf", "-cf", "-O", "--", "-", "--help", "x", "rm x"] + inner,
                                  ["--to-command", "--to-command=rm x", "--to-command=zap", "-t", "--", "rm x", "zap", "x"]),
    }
    for h, extra in ((("sh",), ("bash",)), (("sh",), ("zsh",))):
        A[extra] = (A[h][1] + ["-O", "-lc", "--login", "--init-file"], A[h][1][:6])
    return A


def _abbrevs(modname, table="LONG_OPTIONS"):
    """every long option of the handler's table abbreviated to 1, 2, 3 characters and all but the last one"""
    out = []
    for n in _mod_flags(modname, table):
        for k in (1, 2, 3, len(n) - 1):
            if 0 < k < len(n):
                out.append("--" + n[:k])
    return _uniq(out)


def _letters(modname, *tables):
    """a LONG-looking word ending in each short letter the handler gives an argument to (near miss of a cluster)"""
    out = []
    for f in _mod_flags(modname, *tables):
        if len(f) == 2 and f[0] == "-" and f[1] != "-":
            out.append("--z" + f[1])
    return _uniq(out)[:6]


def _attached(modname, with_arg_tables, other_tables=(), extra_letters="itdvq"):
    """A short option with its value ATTACHED where the value ends in (or consists of) a letter that is itself an
    option: -exe, -exu, -wx/w, -iexu ...  (a parser that looks at the last letter of the word, or scans the whole
    word for option letters, takes the value's tail for an option)."""
    wa = [f[1] for f in _mod_flags(modname, *with_arg_tables) if len(f) == 2 and f[0] == "-" and f[1] != "-"]
    others = [f[1] for f in _mod_flags(modname, *other_tables) if len(f) == 2 and f[0] == "-" and f[1] != "-"] + list(extra_letters)
    letters = _uniq(wa + others)
    out = []
    for L in wa:
        for M in letters:
            out += [f"-{L}x{M}", f"-{L}{M}", f"-{L}=x{M}", f"-{L}/a/{M}"]
        for N in others[:2]:
            for M in wa:
                out.append(f"-{N}{L}x{M}")
    return _uniq(out)


def handler_token_lists(tier):
    """head + token lists:  every token of the full alphabet alone, before and after every token of a small `near`
    set (three of the handler's own flags + an approved and a denied inner command; thorough: full^2 and every
    position of a 3-list), and the core alphabet exhaustively up to 3 (thorough: 4)."""
    quick = tier == "quick"
    extra = {
        ("env",): _abbrevs("env") + _letters("env", "SHORT_WITH_ARG", "FLAGS_WITH_ARG") + _attached("env", ("SHORT_WITH_ARG", "FLAGS_WITH_ARG"), (), "i0v"),
        ("xargs",): _abbrevs("xargs") + _letters("xargs", "FLAGS_WITH_ARG") + ["--zi", "--zl"] + _attached("xargs", ("FLAGS_WITH_ARG",), ("UNSAFE_FLAGS",), "0rtpoil"),
        ("docker", "exec"): _letters("docker", "EXEC_SHORT_WITH_ARG", "EXEC_FLAGS_WITH_ARG") + ["--en", "--us", "--detach"]
        + _attached("docker", ("EXEC_SHORT_WITH_ARG", "EXEC_FLAGS_WITH_ARG"), ("EXEC_FLAGS_NO_ARG",)),
        ("podman", "exec"): _attached("docker", ("EXEC_SHORT_WITH_ARG", "EXEC_FLAGS_WITH_ARG"), ("EXEC_FLAGS_NO_ARG",)),
        ("docker",): _letters("docker", "GLOBAL_FLAGS_WITH_ARG") + ["--lo", "--conf"],
        ("kubectl", "exec"): ["--zc", "--zn", "--st", "--tt", "--names", "--contain", "-itcmain", "-cmain", "-cxi", "-cxt", "-nxc", "-itnxc", "-cx-", "-itc--", "-c--"],
        ("sh",): ["--zc", "--rc", "--no", "-zc"],
    }
    for head, (full, core) in handler_alphabets().items():
        full, core = _uniq(full + extra.get(head, [])), _uniq(core)
        cmds = [t for t in core if t in ("ls", "rm", "zap", "rm x", "ls; zap")][-2:]
        # three of the handler's own flags, a neutral operand (the container / pod / file name an option parser must
        # not swallow), an approved and a denied inner command
        neutral = [t for t in core if t in ("c", "pod", "x", ".")][:1] or ["x"]
        near = _uniq(core[:3] + neutral + cmds + ["ls"])
        seen = set()

        def emit(t):
            if tuple(t) not in seen:
                seen.add(tuple(t))
                return True
            return False
        lists = [[]] + [[f] for f in full]
        for f in full:
            for a in (near if quick else full):
                lists += [[f, a], [a, f]]
            for a in near[:4]:
                for b in near[4:]:
                    lists += [[f, a, b], [a, f, b]]
            if not quick:
                for a in near:
                    for b in near:
                        lists += [[f, a, b], [a, f, b], [a, b, f]]
        lists += list(_product(core[:8] if quick else core, 1, 3))
        if not quick:
            lists += list(_product(core[:7], 4, 4))
        for t in lists:
            if emit(t):
                yield list(head) + list(t)
