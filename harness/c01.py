"""C01 - no hidden execution.

Correspondence: Walker model == analyzer.analyze on programs covering every evaluation position.
Implementation-level oracle = ground truth: every program the implementation approves is run by the
real bash in a jail of stub executables; every program bash executed must itself be approved when
submitted alone."""
from __future__ import annotations

import concurrent.futures as cf
import random
from pathlib import Path

from . import bashgen as bg
from . import bashgen_ext as bx
from . import core, lib
from .jail import Jail
from .walk_oracles import model_analyze

TRUSTED = [
    "Coq 8.16.1 kernel and VM; axioms: none",
    "tools/gen_tables.py; ExtrOcamlBasic extraction + ocaml/driver.ml (cross-checked by vm_compute)",
    "harness: reflective AST serialiser, generators harness/bashgen*.py, jail runner harness/jail.py (bash 5.2.15, stub executables)",
    "modelled, not verified: dippy/vendor/parable.py (the AST is an oracle of the theorems; its agreement with bash on what is executed is only tested, by the ground-truth runs)",
    "spec: subst_spec/Top grammar of $(..) and backtick spans in plain raw strings (Proofs/RawScanP.v) - validated against bash by the ground-truth runs",
    "the decision ladder (_analyze_simple_command), rule lookup and path resolution are oracles answered by the real code",
]


def programs(tier, rng, pool):
    out = []
    by = {"allow": [a for a in pool if a.cls == "allow"], "ask": [a for a in pool if a.cls == "ask"],
          "deny": [a for a in pool if a.cls == "deny"]}
    # systematic: every position x one atom of each class (rotating)
    i = 0
    for name, tmpl in bx.EXEC_POSITIONS:
        for cls in ("allow", "ask", "deny"):
            a = by[cls][i % len(by[cls])]
            i += 1
            out.append((f"exec:{name}", bx.fill(tmpl, a.text), cls))
    for name, tmpl in bx.INERT_POSITIONS:
        for cls in ("allow", "ask", "deny"):
            a = by[cls][i % len(by[cls])]
            i += 1
            out.append((f"inert:{name}", bx.fill(tmpl, a.text), cls))
    # every position inside every position, ask atom in the innermost hole (hidden execution shows as allow)
    n2 = 1 if tier == "quick" else 4
    for name, tmpl in bx.EXEC_POSITIONS:
        for _ in range(n2):
            n_in, t_in = rng.choice(bx.EXEC_POSITIONS)
            a = rng.choice(by["ask"] + by["deny"])
            inner = bx.fill(t_in, a.text)
            if "{Xq}" in tmpl and "'" in inner:
                continue
            out.append((f"exec2:{name}<{n_in}", bx.fill(tmpl, inner), a.cls))
    # random nesting
    n_rand, depth = (600, 3) if tier == "quick" else (20000, 6)
    for _ in range(n_rand):
        out.append(("random", bx.rand_inner(rng, rng.randint(1, depth), pool), "?"))
    # compositions from the C03 generator over the jail atoms, allow-heavy so that many get approved and run
    redirs = [bg.Atom("out/g", "allow", "redirect"), bg.Atom("/dev/null", "allow", "redirect"), bg.Atom("nogrant", "ask", "redirect")]
    n_comp = 300 if tier == "quick" else 6000
    allow_heavy = by["allow"] * 6 + by["ask"] + by["deny"]
    for _ in range(n_comp):
        p = bg.rand_prog(rng, rng.randint(1, 4 if tier == "quick" else 7), allow_heavy, redirs)
        out.append(("composition", p.text, "?"))
    return out


def run(tier, seed, replay=None):
    lib.use_repo()
    from dippy.core import analyzer as an
    from dippy.core.bash import bash_join
    from dippy.core.config import parse_config

    rng = random.Random(seed)
    out = core.Outcome("C01")
    pool = bx.atoms()
    njails = 12
    jails = [Jail(bx.STUBS) for _ in range(njails)]
    try:
        j0 = jails[0]
        cfg = parse_config(bx.config_text(j0.cwd))
        cwd = j0.cwd
        progs = [("replay", replay["program"], "?")] if replay else programs(tier, rng, pool)
        model = lib.Model()
        note = lib.SchemaNote()
        from dippy.vendor.parable import parse as _parse, ParseError as _PE

        def parse_nodes(text):
            try:
                return _parse(text.strip()) if text.strip() else []
            except _PE:
                return []

        verdict_alone = {}

        def alone(argv):
            key = tuple(argv)
            if key not in verdict_alone:
                verdict_alone[key] = an.analyze(bash_join(list(argv)), cfg, Path(cwd)).action
            return verdict_alone[key]

        approved = []
        xcheck = []
        for idx, (pos, text, cls) in enumerate(progs):
            try:
                dec = an.analyze(text, cfg, Path(cwd))
            except RecursionError:
                out.count("skipped", "recursion")
                continue
            impl = dec.action
            out.case(text)
            out.count("position", pos.split("<")[0] if not pos.startswith("exec2") else "exec2")
            out.count("verdict", impl)
            if impl == "ask" and lib.parser_rejects(text):
                out.count("parser", "rejected")
            # AST coverage tie: every executable node of the real AST lies inside the closure of the
            # specification [sub] the completeness theorem is stated over
            try:
                for n in parse_nodes(text):
                    a, b = model.call(["coverage", lib.tree(n, note)])
                    out.count("ast_coverage", "complete" if len(a) == len(b) else "GAP")
                    if len(a) != len(b):
                        out.disagreements.append({"correspondence": "Cover.sub closure <-> Parable AST (a command/cmdsub/procsub node lies outside the specification)",
                                                  "program": text, "executable_nodes": len(a), "reached": len(b)})
            except lib.ModelError as e:
                out.disagreements.append({"correspondence": "coverage entry", "program": text, "model": f"error {e}"})
                model = lib.Model()
            rec = len(xcheck) < 40 and idx % 11 == 0
            try:
                mv = model_analyze(model, cfg, text, cwd, record=rec)
            except lib.ModelError as e:
                out.disagreements.append({"correspondence": "Walker.analyze_nodes <-> analyzer.analyze", "program": text,
                                          "model": f"error {e}", "impl": impl})
                model = lib.Model()
                mv = None
            if mv is not None and mv != impl:
                out.disagreements.append({"correspondence": "Walker.analyze_nodes <-> analyzer.analyze", "program": text,
                                          "position": pos, "model": mv, "impl": impl})
            if rec and mv is not None and model.transcript is not None and len(model.transcript) < 60:
                xcheck.append((model.last_request, list(model.transcript), mv))
            if impl == "allow":
                approved.append((pos, text))
            if idx % 37 == 0:
                out.sample({"position": pos, "program": text, "verdict": impl})
        # ---- raw-string scanner: model scan_raw vs what _analyze_string_cmdsubs extracts, on strings over
        # the characters that matter to delimiting; the approved ones also go to the ground-truth run
        RAW_TOKENS = ["$(", ")", "(", "`", "#", ";", " ", "\n", "'", '"', "\\", "ls", "whoami", "rm x", "zap", "a", "$", "{", "}", "&", "|", "<(", "$((", "))"]
        n_raw = 1500 if tier == "quick" else 40000
        real_analyze = an.analyze
        seen_inner = []

        def fake_analyze(cmd, config, cwd_, *, remote=False):
            seen_inner.append(cmd)
            return an.Decision("allow", "recorded")

        def impl_scan(text):
            del seen_inner[:]
            an.analyze = fake_analyze
            try:
                ds = an._analyze_string_cmdsubs(text, cfg, Path(cwd))
            finally:
                an.analyze = real_analyze
            if not ds:
                return ["none"]
            # "too complex to delimit": one ask that is not the verdict of an analysed substitution (no inner analysis
            # ran, the decision wraps no child) - recognised by structure, not by the wording of the reason
            if len(ds) == 1 and ds[0].action == "ask" and not seen_inner and not getattr(ds[0], "children", None):
                return ["complex"]
            return ["subs", list(seen_inner)]

        raws = ["$(ls)", "`ls`", "$(echo a;#)\nrm x #$(echo b\n)", "$(ls) # c", "a # $(rm x)", "$(ls #)\nrm x\n)", "${x#y} $(ls)", "$# $(ls)",
                "$(ls)#", "#$(ls)", "$(a;#b)", "$(a #b)", "$(a\n#b\n)", "`a #b`", "$(ls) ' $(rm x) '", "\\$(rm x)", "$(echo \\) ; rm x)"]
        for _ in range(n_raw):
            raws.append("".join(rng.choice(RAW_TOKENS) for _ in range(rng.randint(1, 9))))
        for raw in raws:
            iv = impl_scan(raw)
            mv = model.call(["scan_raw", raw])
            out.case(["raw", raw])
            out.count("raw_scan", iv[0])
            if mv != iv:
                out.disagreements.append({"correspondence": "RawScan.scan_raw <-> analyzer._analyze_string_cmdsubs", "raw": raw, "model": mv, "impl": iv})
            for tmpl in ("cat <<EOF\n{R}\nEOF", "echo ${v:-{R}}"):
                text = tmpl.replace("{R}", raw)
                try:
                    if lib.with_timeout(lambda: an.analyze(text, cfg, Path(cwd)).action, 3.0) == "allow":
                        approved.append(("raw-string", text))
                        out.count("raw_scan", "approved-program")
                except (lib.Timeout, RecursionError):
                    pass
        # ---- variables that decide what runs: setting one in front of (or before) an approved command is never approved.
        # The list is the harness's own (not read from the source): the loader, the shell's lookup and start-up files,
        # interpreters' start-up hooks, helpers that tools start.
        core_vars = ["PATH", "LD_PRELOAD", "LD_LIBRARY_PATH", "BASH_ENV", "ENV", "IFS", "PS4", "PROMPT_COMMAND", "SHELLOPTS", "CDPATH", "HOME",
                     "PYTHONPATH", "PYTHONSTARTUP", "PERL5OPT", "PERL5LIB", "RUBYOPT", "NODE_OPTIONS", "PAGER", "EDITOR", "VISUAL", "LESSOPEN",
                     "GIT_SSH_COMMAND", "GIT_EXTERNAL_DIFF", "GIT_PAGER", "DYLD_INSERT_LIBRARIES"]
        for var in core_vars:
            for tmpl in ("{V}=./x ls", "A=1 {V}=./x ls", "{V}=./x B=2 cat f", "{V}=./x; ls", "{V}+=:./x ls", "env {V}=./x ls", "env -i {V}=./x ls",
                         "{V}=./x time ls", "time {V}=./x ls", "if {V}=./x ls; then ls; fi", "echo $({V}=./x ls)", "( {V}=./x; ls )", "{V}=./x sh -c ls",
                         "{V}='./x' ls", "{V}=\"./x\" ls", "{V}=$(echo ./x) ls"):
                text = tmpl.replace("{V}", var)
                try:
                    v = an.analyze(text, cfg, Path(cwd)).action
                except Exception:
                    v = "exception"
                out.case(["execvar", text])
                out.count("position", "execution-variable")
                if v == "allow":
                    out.violations.append({"kind": "execution-variable", "what": f"approved although it sets {var}, which decides what the command after it runs",
                                           "program": text, "position": "execution-variable", "config": bx.config_text(cwd), "cwd": cwd, "signature_text": text})
                mv = model_analyze(model, cfg, text, cwd)
                if mv != v:
                    out.disagreements.append({"correspondence": "Walker.analyze_nodes <-> analyzer.analyze", "program": text, "model": mv, "impl": v})
        # ---- function-level ties of the text guards and scanners (token-exhaustive, see harness/funcs.py); an input
        # on which model and implementation differ is turned into programs (the neutral token becomes a logging
        # command) and, when the implementation approves one, it joins the ground-truth run below
        from . import funcs
        diffs = funcs.run_ties(out, model, ["unclosed_arith", "count_openers", "plain_raw", "sets_execution_var", "has_inert_opener"], tier, rng, an)
        if diffs:
            # a tie is broken: search longer strings over the delimiting tokens for ones the model and the implementation scan
            # differently (the short witnesses of the tie are rarely exploitable as they stand), and add them to the lift
            cand = ["".join(rng.choice(RAW_TOKENS) for _ in range(rng.randint(5, 14))) for _ in range(40000)]
            found = []
            for i in range(0, len(cand), 2000):
                chunk = cand[i:i + 2000]
                mvs = model.call(["fn", "scan_raw", chunk])
                for raw, mv in zip(chunk, mvs):
                    if impl_scan(raw) != mv:
                        found.append(raw)
            out.extra["search_after_broken_tie"] = {"candidates": len(cand), "scanned_differently": len(found)}
            diffs["scan_raw(search)"] = found[:400]
            # comment introducers the two sides disagree about (a "#" glued to something): the two-comment construction - the
            # first comment hides a ")", the second a "$(" that re-balances the count - makes such a disagreement executable
            intro = sorted({d[max(0, d.index("#") - 1):d.index("#") + 1] for ds in diffs.values() for d in ds if "#" in d} | {";#", "(#", "&#", "|#", "a#", " #"})
            diffs["comment-construction"] = [f"$(echo hi{c} )\nrm x{c} $(echo\n)" for c in intro] + [f"`echo hi{c} \\`\nrm x{c} `echo\n`" for c in intro]
        for name, strs in diffs.items():
            for raw in strs:
                body = raw if name == "comment-construction" else raw.replace("a", "rm x")
                for tmpl in ("echo {R}", 'echo "{R}"', "cat <<EOF\n{R}\nEOF", "echo ${v:-{R}}", "(( {R} ))", "[[ a == {R} ]]"):
                    text = tmpl.replace("{R}", body)
                    try:
                        if lib.with_timeout(lambda: an.analyze(text, cfg, Path(cwd)).action, 3.0) == "allow":
                            approved.append((f"tie:{name}", text))
                            out.count("raw_scan", "approved-program-from-tie-difference")
                    except (lib.Timeout, RecursionError, Exception):
                        pass
        model.close()

        # ground truth for every approved program, both branch polarities
        def gt(args):
            k, (pos, text) = args
            jail = jails[k % njails]
            runs = []
            for mode in ("alt", "0", "1"):
                log, changed, status, err = jail.run(text.replace(j0.cwd, jail.cwd), mode)
                runs.append((mode, log, status))
            return pos, text, runs

        executed_total = 0
        # one jail per worker thread: partition the work by jail index
        def worker(k):
            res = []
            for i in range(k, len(approved), njails):
                res.append(gt((k, approved[i])))
            return res

        with cf.ThreadPoolExecutor(njails) as ex:
            results = [r for fut in [ex.submit(worker, k) for k in range(njails)] for r in fut.result()]
        for pos, text, runs in results:
            bad = None
            for mode, log, status in runs:
                executed_total += len(log)
                for argv in log:
                    if alone(argv) != "allow":
                        bad = (mode, argv, alone(argv))
                        break
                if bad:
                    break
            out.count("ground_truth", "ran")
            if bad:
                mode, argv, v = bad
                out.violations.append({
                    "kind": "hidden-execution",
                    "what": f"approved, but bash executed {' '.join(argv)!r} which alone gets {v}",
                    "program": text, "position": pos, "executed": argv, "rc_mode": mode,
                    "config": bx.config_text(j0.cwd), "cwd": cwd,
                    "signature_text": text,
                })
        out.extra["ground_truth"] = {"approved_programs_run_under_bash": len(results), "bash_runs": 3 * len(results),
                                     "stub_executions_logged": executed_total}
        out.extra["ast_schema"] = {"node_kinds_seen": dict(sorted(note.kinds.items())), "unexpected_attribute_types": sorted(note.odd)}
        n, mism = core.coq_crosscheck("C01", xcheck)
        out.extra["coq_vm_crosscheck"] = {"cases": n, "mismatches": len(mism)}
        if mism:
            out.disagreements.append({"correspondence": "extracted OCaml model <-> vm_compute in Coq", "detail": mism[:5]})
        out.extra["rule"] = (f"systematic: {len(bx.EXEC_POSITIONS)} executing positions and {len(bx.INERT_POSITIONS)} non-executing "
                             "positions x {allow, ask, deny} atom; every executing position inside a random other one with a "
                             "non-approvable atom innermost; random nesting of positions; random compositions. "
                             "distinct = distinct program texts (all non-trivial). Every approved program is run under real bash "
                             "(three exit-status polarities) and every executed argv is re-judged alone.")
    finally:
        for j in jails:
            j.close()
    return out
