"""Shared by harness/c07.py and harness/c09.py: wire encoding of rules, oracles of the Rules /
Paths models answered by the real pathlib, scratch tree, pattern generators."""
from __future__ import annotations

import os
import shutil
import tempfile
from pathlib import Path

from . import lib

TRUSTED_COMMON = [
    "Coq 8.16.1 kernel and its VM (vm_compute for closed refutations and examples)",
    "axioms: none (every theorem prints 'Closed under the global context')",
    "tools/gen_tables.py: PY_SPACE (str.isspace ranges of this interpreter) used by the model of str.split()",
    "extraction: ExtrOcamlBasic only; OCaml 4.13.1; ocaml/driver.ml; cross-checked in Coq by vm_compute on a sample",
    "modelled, not verified: Python 3.12 fnmatch.translate + the `re` engine (Model/Fnmatch.v; '*' by backtracking "
    "instead of translate's atomic groups), `re` as used by config._glob_to_regex (Model/Glob2.v; a bracket text with "
    "a backslash or equal to '^' is reported Unsupported and counted), pathlib (Path.resolve / Path.home are oracles "
    "answered by the real calls; exceptions - NUL byte, symlink loop, no home - are outside the model)",
]

VERDICTS = ("allow", "ask", "deny")


class Scratch:
    """A real directory tree: ROOT/home (HOME), ROOT/w/proj (cwd) with src/, out/, bin/, a directory
    named 'u:' and one named 'proj[1]' (copy of proj), plus symlinks in ROOT/w/links."""

    def __init__(self):
        self.root = os.path.realpath(tempfile.mkdtemp(prefix="dippy-verif-"))
        self.home = os.path.join(self.root, "home")
        self.cwd = os.path.join(self.root, "w", "proj")
        self.old_home = os.environ.get("HOME")
        for d in ("home/bin", "home/n", "w/proj/src/lib", "w/proj/out/deep", "w/proj/bin", "w/proj/u:",
                  "w/proj/d1/d2", "w/proj[1]/out/deep", "w/proj[1]/src", "w/proj1/out/deep", "w/proj1/src",
                  "w/outside", "w/links"):
            os.makedirs(os.path.join(self.root, d), exist_ok=True)
        for f in ("w/proj/src/main.py", "w/proj/out/a", "w/proj/out/deep/b", "w/proj/danger", "w/outside/secret",
                  "home/n/f", "w/proj[1]/out/a", "w/proj1/out/a"):
            with open(os.path.join(self.root, f), "w") as fh:
                fh.write("x")
        # symlinks (only under w/proj/out/ln* and w/links): a link that leaves the tree it sits in
        os.symlink(os.path.join(self.root, "w", "outside"), os.path.join(self.cwd, "out", "lnout"))
        os.symlink(os.path.join(self.cwd, "src"), os.path.join(self.cwd, "out", "lnsrc"))
        os.symlink(os.path.join(self.cwd, "out"), os.path.join(self.root, "w", "links", "toout"))
        os.environ["HOME"] = self.home

    def sub(self, s: str) -> str:
        return s.replace("@ROOT@", self.root).replace("@HOME@", self.home).replace("@CWD@", self.cwd)

    def unsub(self, s: str) -> str:
        return s.replace(self.cwd, "@CWD@").replace(self.home, "@HOME@").replace(self.root, "@ROOT@")

    def close(self):
        if self.old_home is None:
            os.environ.pop("HOME", None)
        else:
            os.environ["HOME"] = self.old_home
        shutil.rmtree(self.root, ignore_errors=True)


def path_oracles():
    return {
        "resolve1": lambda p: str(Path(p).resolve()),
        "resolve2": lambda cwd, t: str((Path(cwd) / t).resolve()),
        "home": lambda: str(Path.home()),
    }


def enc_rules(rules):
    """Real Rule objects -> wire; the index is written into rule.source so that the real Match
    and the model's answer name the same rule."""
    out = []
    for i, r in enumerate(rules):
        r.source = str(i)
        out.append([r.decision if r.decision in VERDICTS else "ask", r.pattern, lib.opt(r.message), bool(r.exact), str(i)])
    return out


def dec_match(x):
    """model answer for an option rule -> (decision, pattern, message, tag) | None | 'unsupported'."""
    if x == "unsupported":
        return x
    if x == []:
        return None
    d, p, m, t = x[0]
    return (d, p, (m[0] if m else None), t)


def real_match(m):
    if m is None:
        return None
    return (m.decision, m.pattern, m.message, m.source)


def guarded(fn):
    try:
        return fn()
    except Exception as e:  # noqa: BLE001 - any exception is a result we want to see
        return f"exn:{type(e).__name__}"


# ---------------------------------------------------------------- pattern / string generators
GLOB_ATOMS = ["*", "?", "[", "]", "!", "-", "^", "\\", "a", "b", "c", "z", "0", "9", ".", "/", " ", "\n", "&", "~", "|",
              "**", "[!", "[]", "[^", "[a-c]", "[c-a]", "[!a-c]", "[]-a]", "[a-]", "[-a]", "[--0]", "[a\\]", "[&&]",
              "[~~]", "[||]", "[[]", "[]]", "[!]]", "[a-c-e]", "[z-a-c]", "[!--]", "**/", "/**", "é", " "]
TEXT_ATOMS = ["a", "b", "c", "d", "e", "z", "0", "5", "9", "-", "]", "[", "!", "^", "\\", "*", "?", ".", "/", " ", "\n",
              "&", "~", "|", ",", "é", " "]


def rand_pattern(rng, n=8):
    return "".join(rng.choice(GLOB_ATOMS) for _ in range(rng.randint(0, n)))


def rand_text(rng, n=7):
    return "".join(rng.choice(TEXT_ATOMS) for _ in range(rng.randint(0, n)))


def text_for(rng, pat):
    """A string likely to match pat: literal characters kept, wildcards instantiated."""
    out = []
    i = 0
    while i < len(pat):
        c = pat[i]
        if c == "*":
            out.append(rand_text(rng, 3))
        elif c == "?":
            out.append(rng.choice(TEXT_ATOMS))
        elif c == "[":
            j = pat.find("]", i + 2)
            if j > 0:
                body = pat[i + 1:j]
                out.append(rng.choice(body) if body and rng.random() < 0.7 else rng.choice(TEXT_ATOMS))
                i = j
            else:
                out.append("[")
        else:
            out.append(c)
        i += 1
    s = "".join(out)
    if rng.random() < 0.25 and s:
        k = rng.randrange(len(s))
        s = s[:k] + rng.choice(TEXT_ATOMS) + s[k + 1:]
    return s
