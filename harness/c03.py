"""C03 - verdicts compose exactly as most-restrictive-wins.

Implementation-level oracle (model-free): analyze(whole) == max(analyze(part)) with the parts
printed from the generator's own tree.  Correspondence: Walker model == analyze on the same
programs (equality of actions)."""
from __future__ import annotations

import random
from pathlib import Path

from . import bashgen as bg
from . import core, lib
from .walk_oracles import model_analyze

TRUSTED = [
    "Coq 8.16.1 kernel and its VM (vm_compute is used for closed boolean tests on kind names)",
    "axioms: none (every theorem of Props/C03.v prints 'Closed under the global context')",
    "tools/gen_tables.py (Python-ast translator of the literal tables)",
    "extraction: ExtrOcamlBasic only (bool, option, unit, list, prod, sumbool, sumor; andb/orb inlined), no Extract Constant of our own; OCaml 4.13.1; ocaml/driver.ml; cross-checked in Coq by vm_compute on a sample",
    "harness: reflective AST serialiser (harness/lib.py tree), generator harness/bashgen.py",
    "modelled, not verified: the vendored parser (dippy/vendor/parable.py) supplies the AST; the decision ladder, rule lookup and path resolution are oracles answered by the real code",
]


def measure(an, cfg, atoms):
    """Verdict class of every atom when submitted alone (measured, not assumed)."""
    out = {}
    for a in atoms:
        text = a.text if a.kind == "cmd" else f"echo {a.text}"
        out[a] = an.analyze(text, cfg, Path(bg.CWD)).action
    return out


def run(tier, seed, replay=None):
    lib.use_repo()
    from dippy.core import analyzer as an
    from dippy.core.config import parse_config

    rng = random.Random(seed)
    cfg = parse_config(bg.CONFIG_TEXT)
    out = core.Outcome("C03")
    cmds = bg.atoms_cmd()
    redirs = bg.atoms_redir()
    by_cls = {c: [a for a in cmds if a.cls == c] for c in bg.ORDER}
    rby_cls = {c: [a for a in redirs if a.cls == c] for c in bg.ORDER}

    progs = []
    if replay and replay.get("kind") in ("redirect-pair", "reason-collision"):
        progs = []
    elif replay:
        progs = [bg.Prog(replay["program"], [bg.Atom(t, c, k) for t, c, k in replay["parts"]], "replay")]
    else:
        progs += bg.systematic(by_cls)
        progs += bg.simple_command_orders(by_cls, rby_cls)
        progs += bg.compound_redirects(by_cls, rby_cls)
        n_rand, depth = (1500, 5) if tier == "quick" else (30000, 9)
        for i in range(n_rand):
            progs.append(bg.rand_prog(rng, rng.randint(1, depth), cmds, redirs))

    model = lib.Model()
    cache = {}
    xcheck = []
    try:
        for idx, p in enumerate(progs):
            parts = p.parts
            for a in parts:
                if a not in cache:
                    cache.update(measure(an, cfg, [a]))
            expected = bg.vmax(cache[a] for a in parts)
            try:
                dec = an.analyze(p.text, cfg, Path(bg.CWD))
                impl = dec.action
            except RecursionError:
                out.count("skipped", "recursion")
                continue
            if impl == "ask" and lib.parser_rejects(p.text):
                # the vendored parser rejects this (valid) program: C05 mandates ask; the
                # composition law speaks about analysed trees.  Counted, not judged.
                out.count("skipped", "parser-rejected")
                out.extra.setdefault("parser_rejected_samples", [])
                if len(out.extra["parser_rejected_samples"]) < 3:
                    out.extra["parser_rejected_samples"].append(p.text[:300])
                continue
            out.case(p.text, nontrivial=len(parts) >= 2)
            out.count("shape", p.shape)
            out.count("verdict", impl)
            out.count("parts", min(len(parts), 10))
            out.sample({"program": p.text, "parts": [a.text for a in parts], "verdict": impl})
            if impl != expected:
                out.violations.append({
                    "kind": "composition",
                    "what": f"analyze(whole)={impl} but the most restrictive part is {expected}",
                    "program": p.text,
                    "parts": [(a.text, a.cls, a.kind) for a in parts],
                    "part_verdicts": [(a.text, cache[a]) for a in parts],
                    "config": bg.CONFIG_TEXT, "cwd": bg.CWD,
                    "signature_text": p.text,
                })
            rec = len(xcheck) < 40 and idx % 7 == 0
            try:
                mv = model_analyze(model, cfg, p.text, bg.CWD, record=rec)
            except lib.ModelError as e:
                out.disagreements.append({"correspondence": "Walker.analyze_nodes <-> analyzer.analyze",
                                          "program": p.text, "model": f"error {e}", "impl": impl})
                model = lib.Model()
                continue
            if rec and model.transcript is not None and len(model.transcript) < 60:
                xcheck.append((model.last_request, list(model.transcript), mv))
            if mv != impl:
                out.disagreements.append({"correspondence": "Walker.analyze_nodes <-> analyzer.analyze",
                                          "program": p.text, "model": mv, "impl": impl,
                                          "config": bg.CONFIG_TEXT, "cwd": bg.CWD})
        # two redirections on one node: every ordered pair of (operator, target), the same target twice included -
        # the verdict of the pair is the join of the verdicts of the two single-redirect programs
        if not replay or replay.get("kind") == "redirect-pair":
            from . import bashgen_ext as bx
            single = {}

            def v1(text):
                if text not in single:
                    single[text] = an.analyze(text, cfg, Path(bg.CWD)).action
                return single[text]

            pairs = [("replay", replay["program"], tuple(replay["singles"]))] if replay else bx.redirect_pairs(tier)
            for label, text, (s1, s2) in pairs:
                impl = an.analyze(text, cfg, Path(bg.CWD)).action
                expected = bg.vmax([v1(s1), v1(s2)])
                out.case(text)
                out.count("shape", label)
                out.count("verdict", impl)
                if impl != expected:
                    out.violations.append({"kind": "redirect-pair", "what": f"analyze(whole)={impl} but the two redirections alone give {v1(s1)} and {v1(s2)}",
                                           "program": text, "singles": [s1, s2], "config": bg.CONFIG_TEXT, "cwd": bg.CWD, "signature_text": text})
                mv = model_analyze(model, cfg, text, bg.CWD)
                if mv != impl:
                    out.disagreements.append({"correspondence": "Walker.analyze_nodes <-> analyzer.analyze", "program": text, "model": mv, "impl": impl,
                                              "config": bg.CONFIG_TEXT, "cwd": bg.CWD})
        # parts that differ in verdict but agree in everything else a decision carries (the reason text): handler CLIs
        # describe `git branch` and `git branch -D x` alike, rules may share a message.  The reasons are measured,
        # the colliding groups are found, and every ordered pair of a group (and every command with itself) is composed.
        if not replay or replay.get("kind") == "reason-collision":
            cands = ["git branch", "git branch -D x", "git stash list", "git stash drop", "git tag", "git tag -d x", "git remote", "git remote remove x",
                     "git config --get a", "git config a b", "git worktree list", "git worktree remove x", "git submodule status", "git submodule update",
                     "git notes list", "git notes remove", "git bisect log", "git bisect reset", "git log", "git push", "docker ps", "docker rm x",
                     "kubectl get pods", "kubectl delete pod x", "npm ls", "npm install", "pip list", "pip install x", "gh pr list", "gh pr merge 1",
                     "zap", "zap a", "askcmd", "askcmd a", "okcmd", "okcmd a", "rm x", "rm y", "ls", "ls -la", "frobnicate a", "frobnicate b",
                     "ls > nogrant", "cat f > nogrant", "ls > /jail/secret/s", "cat f > /jail/secret/s", "ls > /jail/out/f", "echo hi > /jail/out/f"]
            meas = {}
            for c in cands:
                d = an.analyze(c, cfg, Path(bg.CWD))
                meas[c] = (d.action, d.reason)
            by_reason = {}
            for c, (a, r) in meas.items():
                by_reason.setdefault(r, []).append(c)
            groups = [g for g in by_reason.values() if len({meas[c][0] for c in g}) > 1]
            out.extra["reason_collisions"] = {"candidates": len(cands), "groups_with_different_verdicts": len(groups), "example": groups[0] if groups else None}
            tmpls = ["{A} && {B}", "{A}; {B}", "{A} | {B}", "( {A}; {B} )", "{ {A}; {B}; }", "if {A}; then {B}; fi", "echo $({A}) $({B})", "{A}\n{B}",
                     "while {A}; do {B}; done", "{A} || {B}", "{A} & {B}", "{A}; ls; {B}", "for v in a; do {A}; {B}; done", "case a in a) {A};; b) {B};; esac"]
            pairs = [(a, b) for g in groups for a in g for b in g] + [(c, c) for c in cands]
            if replay:
                pairs, tmpls = [tuple(replay["pair"])], [replay["template"]]
            for (a, b) in pairs:
                for t in tmpls:
                    text = t.replace("{A}", a).replace("{B}", b)
                    impl = an.analyze(text, cfg, Path(bg.CWD)).action
                    pa = meas[a][0] if a in meas else an.analyze(a, cfg, Path(bg.CWD)).action
                    pb = meas[b][0] if b in meas else an.analyze(b, cfg, Path(bg.CWD)).action
                    expected = bg.vmax([pa, pb])
                    out.case(text)
                    out.count("shape", "reason-collision")
                    if impl != expected:
                        out.violations.append({"kind": "reason-collision", "what": f"analyze(whole)={impl} but the parts alone give {pa} and {pb} (their reasons read alike)",
                                               "program": text, "pair": [a, b], "template": t, "config": bg.CONFIG_TEXT, "cwd": bg.CWD, "signature_text": text})
    finally:
        model.close()
    n, mism = core.coq_crosscheck("C03", xcheck)
    out.extra["coq_vm_crosscheck"] = {"cases": n, "mismatches": len(mism)}
    if mism:
        out.disagreements.append({"correspondence": "extracted OCaml model <-> vm_compute in Coq", "detail": mism[:5]})
    out.extra["rule"] = ("systematic: every C03 constructor x every multiset of <=3 verdict classes, every order of "
                         "command/redirect/substitutions in one simple command; every ordered pair of (operator, target) redirections on one node "
                         "(same target twice included) against the join of the two single-redirect programs; random: compositions to depth "
                         "5 (quick) / 9 (thorough). distinct = distinct program texts; non-trivial = at least two constituents")
    return out
